(* Proofs about the config host model (Config/ConfigDefs.v).  Statements used by
   Properties_C15.v are marked (* C15 *). *)
From Coq Require Import ZArith List Bool Arith Lia.
Import ListNotations.
From SqfVerif Require Import Config.ConfigDefs.

(* ------------------------------------------------------------------ *)
(* 1. basics: names, maps, vectors                                     *)

Lemma eqs_refl : forall a, eqs a a = true.
Proof. induction a as [|x a IH]; cbn; [reflexivity|]. rewrite Z.eqb_refl. exact IH. Qed.
Lemma eqs_eq : forall a b, eqs a b = true <-> a = b.
Proof.
  induction a as [|x a IH]; destruct b as [|y b]; cbn; split; intro H; try reflexivity; try discriminate.
  - apply andb_true_iff in H. destruct H as [H1 H2]. apply Z.eqb_eq in H1. apply IH in H2. congruence.
  - inversion H; subst. rewrite Z.eqb_refl. cbn. apply eqs_refl.
Qed.
Lemma eqs_neq : forall a b, eqs a b = false <-> a <> b.
Proof.
  intros a b. split; intro H.
  - intro E. apply eqs_eq in E. congruence.
  - destruct (eqs a b) eqn:E; [|reflexivity]. apply eqs_eq in E. contradiction.
Qed.
Lemma cid_eqb_eq : forall a b, cid_eqb a b = true <-> a = b.
Proof.
  intros [x|] [y|]; cbn; split; intro H; try reflexivity; try discriminate.
  - apply Nat.eqb_eq in H. congruence.
  - inversion H. apply Nat.eqb_refl.
Qed.

Lemma mfind_mset_same : forall m k v, mfind (mset m k v) k = Some v.
Proof.
  induction m as [|[k' v'] m IH]; intros k v; cbn.
  - now rewrite eqs_refl.
  - destruct (eqs k' k) eqn:E; cbn; rewrite E; auto.
Qed.
Lemma mfind_mset_other : forall m k v k', k <> k' -> mfind (mset m k v) k' = mfind m k'.
Proof.
  induction m as [|[k0 v0] m IH]; intros k v k' N; cbn.
  - apply eqs_neq in N. now rewrite N.
  - destruct (eqs k0 k) eqn:E; cbn.
    + apply eqs_eq in E. subst k0. apply eqs_neq in N. now rewrite N.
    + destruct (eqs k0 k'); auto.
Qed.

Lemma upd_length : forall h n f, length (upd h n f) = length h.
Proof. induction h as [|c h IH]; intros [|n] f; cbn; auto. Qed.
Lemma nth_upd_same : forall h n f c, nth_error h n = Some c -> nth_error (upd h n f) n = Some (f c).
Proof. induction h as [|c0 h IH]; intros [|n] f c H; cbn in *; try discriminate; [congruence|auto]. Qed.
Lemma nth_upd_other : forall h n f m, m <> n -> nth_error (upd h n f) m = nth_error h m.
Proof.
  induction h as [|c0 h IH]; intros [|n] f [|m] N; cbn; auto; try congruence.
Qed.
Lemma nth_upd : forall h n f m,
  nth_error (upd h n f) m = if Nat.eqb m n then option_map f (nth_error h m) else nth_error h m.
Proof.
  intros h n f m. destruct (Nat.eqb_spec m n) as [->|N].
  - destruct (nth_error h n) as [c|] eqn:E; cbn.
    + now apply nth_upd_same.
    + apply nth_error_None. rewrite upd_length. now apply nth_error_None.
  - now apply nth_upd_other.
Qed.
Lemma upd_out : forall h n f, length h <= n -> upd h n f = h.
Proof. induction h as [|c h IH]; intros [|n] f L; cbn in *; auto; try lia. f_equal. apply IH. lia. Qed.
Lemma upd_app_last : forall h c f, upd (h ++ [c]) (length h) f = h ++ [f c].
Proof. induction h as [|c0 h IH]; intros c f; cbn; auto. now rewrite IH. Qed.
Lemma nth_app_last : forall (h : host) c, nth_error (h ++ [c]) (length h) = Some c.
Proof. intros. rewrite nth_error_app2 by lia. now rewrite Nat.sub_diag. Qed.

(* inversion of a bind *)
Lemma bind_ok : forall A B (r : res A) (f : A -> res B) y,
  bind r f = Ok y -> exists a, r = Ok a /\ f a = Ok y.
Proof. intros A B [a| |] f y H; cbn in H; try discriminate. eauto. Qed.
Ltac inv_bind H :=
  let a := fresh "a" in let Ha := fresh "Hb" in
  apply bind_ok in H; destruct H as [a [Ha H]].
Tactic Notation "bind_inv" hyp(H) "as" ident(a) ident(Ha) :=
  apply bind_ok in H; destruct H as [a [Ha H]].
Lemma get_ok : forall h n c, get h n = Ok c <-> nth_error h n = Some c.
Proof. intros. unfold get. destruct (nth_error h n); split; intro H; inversion H; auto. Qed.

(* ------------------------------------------------------------------ *)
(* 2. parent links as partial functions; walks and their termination    *)

Definition links := nat -> option nat.
Definition updl (p : links) (x : nat) (b : option nat) : links := fun y => if Nat.eqb y x then b else p y.
Definition inh_of (h : host) : links :=
  fun n => match nth_error h n with Some c => c_pinh c | None => None end.

(* does the walk from y end within n steps?  (the loop of lookup_in_inherited on a missing name) *)
Fixpoint ends (n : nat) (p : links) (y : nat) : bool :=
  match n with O => false | S n' => match p y with None => true | Some z => ends n' p z end end.
(* does the walk from y meet x within n steps (y itself included)? *)
Fixpoint hits (n : nat) (p : links) (y x : nat) : bool :=
  if Nat.eqb y x then true else
  match n with O => false | S n' => match p y with None => false | Some z => hits n' p z x end end.

Definition Terminating (p : links) : Prop := forall y, exists n, ends n p y = true.
(* the inherited-parent relation of a host is acyclic: every walk along id_parent_inherited ends *)
Definition Acyclic (h : host) : Prop := Terminating (inh_of h).
(* the usual reading: some node comes back to itself *)
Fixpoint iter_link (k : nat) (p : links) (y : nat) : option nat :=
  match k with O => Some y | S k' => match p y with None => None | Some z => iter_link k' p z end end.
Definition Cyclic (p : links) : Prop := exists y k, iter_link (S k) p y = Some y.

Lemma ends_mono : forall n p y, ends n p y = true -> forall m, n <= m -> ends m p y = true.
Proof.
  induction n as [|n IH]; intros p y H m L; [discriminate|]. destruct m as [|m]; [lia|]. cbn in *.
  destruct (p y); auto. apply IH; auto. lia.
Qed.
Lemma hits_mono : forall n p y x, hits n p y x = true -> forall m, n <= m -> hits m p y x = true.
Proof.
  induction n as [|n IH]; intros p y x H m L.
  - cbn in H. destruct m; cbn; destruct (Nat.eqb y x); auto; discriminate.
  - destruct m as [|m]; [lia|]. cbn in *. destruct (Nat.eqb y x); auto.
    destruct (p y); auto. apply IH; auto. lia.
Qed.
Lemma ends_ext : forall n p q y, (forall z, p z = q z) -> ends n p y = ends n q y.
Proof. induction n as [|n IH]; intros p q y E; cbn; auto. rewrite <- E. destruct (p y); auto. Qed.
Lemma hits_self : forall n p y, hits n p y y = true.
Proof. intros [|n] p y; cbn; now rewrite Nat.eqb_refl. Qed.

(* the tail of an ending walk ends (within the same fuel) *)
Lemma ends_hits_tail : forall n p y x, ends n p y = true -> hits n p y x = true ->
  exists m, m <= n /\ ends m p x = true.
Proof.
  induction n as [|n IH]; intros p y x He Hh; [discriminate|].
  cbn in Hh. destruct (Nat.eqb_spec y x) as [->|N]; [exists (S n); auto|].
  cbn in He. destruct (p y) as [z|]; [|discriminate].
  destruct (IH p z x He Hh) as [m [L E]]. exists m. split; [lia|exact E].
Qed.

(* pigeonhole, in the form needed: if every node the walk can meet lies in the list S then
   |S| steps are enough *)
Lemma ends_bound_set : forall n p (S0 : list nat) y,
  (forall z, hits n p y z = true -> In z S0) -> ends n p y = true -> ends (length S0) p y = true.
Proof.
  induction n as [n IHn] using lt_wf_ind. intros p S0 y Hin He.
  destruct n as [|n]; [discriminate|].
  assert (Iy : In y S0) by (apply Hin; apply hits_self).
  destruct S0 as [|s0 S1] eqn:ES; [destruct Iy|]. rewrite <- ES in *. clear s0 S1 ES.
  cbn in He. destruct (p y) as [z|] eqn:Py.
  2:{ destruct (length S0) eqn:L; [destruct S0; [destruct Iy|discriminate]|]. cbn. now rewrite Py. }
  destruct (hits n p z y) eqn:Hz.
  - (* the walk comes back to y: a shorter fuel already ends from y *)
    destruct (ends_hits_tail _ _ _ _ He Hz) as [m [Lm Em]].
    apply (IHn m); [lia| |exact Em].
    intros w Hw. apply Hin. apply hits_mono with (n := m); [exact Hw|lia].
  - (* it does not: drop y from the set *)
    pose (S1 := remove Nat.eq_dec y S0).
    assert (E1 : ends (length S1) p z = true).
    { apply (IHn n); [lia| |exact He].
      intros w Hw. unfold S1. apply in_in_remove.
      - intro E. subst w. congruence.
      - apply Hin. cbn. destruct (Nat.eqb y w); auto. now rewrite Py. }
    assert (L1 : length S1 < length S0) by (unfold S1; now apply remove_length_lt).
    destruct (length S0) as [|k] eqn:L; [lia|]. cbn. rewrite Py.
    apply ends_mono with (n := length S1); [exact E1|lia].
Qed.

Definition in_range (p : links) (N : nat) : Prop := forall y z, p y = Some z -> y < N /\ z < N.

Lemma hits_in_range : forall n p N y z, in_range p N -> y < N -> hits n p y z = true -> z < N.
Proof.
  induction n as [|n IH]; intros p N y z R Ly H; cbn in H.
  - destruct (Nat.eqb_spec y z); [lia|discriminate].
  - destruct (Nat.eqb_spec y z); [lia|]. destruct (p y) as [w|] eqn:Py; [|discriminate].
    apply (IH p N w z R); auto. now apply (R y w).
Qed.

(* C15: the fuel bound.  A walk that ends at all ends within |host| + 1 steps *)
Lemma ends_bound : forall n p N y, in_range p N -> ends n p y = true -> ends (S N) p y = true.
Proof.
  intros n p N y R He.
  destruct (lt_dec y N) as [Ly|Ly].
  - apply ends_mono with (n := length (seq 0 N)); [|rewrite seq_length; lia].
    apply ends_bound_set with (n := n); [|exact He].
    intros z Hz. apply in_seq. pose proof (hits_in_range _ _ _ _ _ R Ly Hz). lia.
  - cbn. destruct (p y) as [z|] eqn:Py; [|reflexivity]. destruct (R y z Py). lia.
Qed.

Lemma inh_in_range : forall h, (forall n c b, nth_error h n = Some c -> c_pinh c = Some b -> b < length h) ->
  in_range (inh_of h) (length h).
Proof.
  intros h W y z H. unfold inh_of in H. destruct (nth_error h y) as [c|] eqn:E; [|discriminate].
  split; [apply nth_error_Some; congruence|]. eapply W; eauto.
Qed.

(* a cyclic host is not acyclic, and conversely a walk that does not end runs into a cycle -
   the two readings of "acyclic" agree (no classical axiom: the walk is computed) *)
Lemma iter_ends : forall k p y z n, iter_link k p y = Some z -> ends (k + n) p y = ends n p z.
Proof.
  induction k as [|k IH]; intros p y z n H; cbn in *; [congruence|].
  destruct (p y) as [w|]; [|discriminate]. now apply IH.
Qed.
Lemma iter_no_end : forall j p y z, iter_link j p y = Some z -> forall m, m <= j -> ends m p y = false.
Proof.
  induction j as [|j IH]; intros p y z H m L.
  - assert (m = 0) by lia. subst. reflexivity.
  - destruct m as [|m]; [reflexivity|]. cbn in *. destruct (p y) as [w|]; [|discriminate].
    apply (IH p w z H). lia.
Qed.
Lemma cyclic_not_terminating : forall p, Cyclic p -> ~ Terminating p.
Proof.
  intros p [y [k Hk]] T. destruct (T y) as [n Hn].
  assert (K : forall m, ends m p y = false).
  { induction m as [m IHm] using lt_wf_ind.
    destruct (le_lt_dec (S k) m) as [L|L].
    - replace m with (S k + (m - S k)) by lia. rewrite (iter_ends _ _ _ _ _ Hk). apply IHm. lia.
    - apply (iter_no_end _ _ _ _ Hk). lia. }
  rewrite K in Hn. discriminate.
Qed.

Lemma hits_iter : forall n p z y, hits n p z y = true -> exists k, k <= n /\ iter_link k p z = Some y.
Proof.
  induction n as [|n IH]; intros p z y H; cbn in H.
  - destruct (Nat.eqb_spec z y); [|discriminate]. subst. exists 0. split; auto.
  - destruct (Nat.eqb_spec z y) as [->|N]; [exists 0; split; [lia|reflexivity]|].
    destruct (p z) as [w|] eqn:Pz; [|discriminate].
    destruct (IH p w y H) as [k [L E]]. exists (S k). split; [lia|]. cbn. now rewrite Pz.
Qed.
(* constructive pigeonhole the other way: a walk longer than the set it lives in meets a cycle *)
Lemma no_end_cyclic_set : forall (S0 : list nat) n p y,
  (forall z, hits n p y z = true -> In z S0) -> length S0 < n -> ends n p y = false -> Cyclic p.
Proof.
  intros S0. remember (length S0) as l eqn:El. revert S0 El.
  induction l as [l IHl] using lt_wf_ind. intros S0 El n p y Hin L He.
  destruct n as [|n]; [lia|]. cbn in He. destruct (p y) as [z|] eqn:Py; [|discriminate].
  destruct (hits n p z y) eqn:Hz.
  - destruct (hits_iter _ _ _ _ Hz) as [k [_ Ek]]. exists y, k. cbn. now rewrite Py.
  - assert (Iy : In y S0) by (apply Hin; apply hits_self).
    pose (S1 := remove Nat.eq_dec y S0).
    assert (L1 : length S1 < length S0) by (unfold S1; now apply remove_length_lt).
    apply (IHl (length S1)) with (S0 := S1) (n := n) (y := z); try lia; auto.
    intros w Hw. unfold S1. apply in_in_remove.
    + intro E. subst w. congruence.
    + apply Hin. cbn. destruct (Nat.eqb y w); auto. now rewrite Py.
Qed.
(* C15: for links that stay inside the host, "every walk ends" and "no node comes back to itself" agree *)
Lemma terminating_iff_not_cyclic : forall p N, in_range p N -> (Terminating p <-> ~ Cyclic p).
Proof.
  intros p N R. split; [intros T C; exact (cyclic_not_terminating p C T)|].
  intros NC y. exists (S N). destruct (ends (S N) p y) eqn:E; [reflexivity|]. exfalso. apply NC.
  destruct (lt_dec y N) as [Ly|Ly].
  - apply (no_end_cyclic_set (seq 0 N) (S N) p y); [|rewrite seq_length; lia|exact E].
    intros z Hz. apply in_seq. pose proof (hits_in_range _ _ _ _ _ R Ly Hz). lia.
  - cbn in E. destruct (p y) as [z|] eqn:Py; [|discriminate]. destruct (R y z Py). lia.
Qed.

(* ------------------------------------------------------------------ *)
(* 3. well-formed hosts                                                 *)

Record WF (h : host) : Prop := {
  wf_root : 0 < length h;
  (* inherited parents are containers of the host *)
  wf_pinh : forall n c b, nth_error h n = Some c -> c_pinh c = Some b -> b < length h;
  (* a logical parent was created before its child *)
  wf_plog : forall n c p, nth_error h n = Some c -> c_plog c = Some p -> p < n;
  (* a live entry of a container is a container whose logical parent is that container, under its name *)
  wf_child : forall n c t e, nth_error h n = Some c -> mfind (c_map c) t = Some (Some e) ->
             exists ce, nth_error h e = Some ce /\ c_plog ce = Some n /\ c_name ce = t;
  (* the ordered entries are containers of the host (or delete markers) *)
  wf_vec : forall n c e, nth_error h n = Some c -> In (Some e) (c_vec c) -> e < length h
}.

Lemma wf_in_range : forall h, WF h -> in_range (inh_of h) (length h).
Proof. intros h W. apply inh_in_range. exact (wf_pinh h W). Qed.

Lemma init_wf : WF init_host.
Proof.
  split; cbn; try lia.
  - intros [|[|n]] c b H1 H2; cbn in H1; inversion H1; subst; cbn in H2; discriminate.
  - intros [|[|n]] c p H1 H2; cbn in H1; inversion H1; subst; cbn in H2; discriminate.
  - intros [|[|n]] c t e H1 H2; cbn in H1; inversion H1; subst; cbn in H2; discriminate.
  - intros [|[|n]] c e H1 H2; cbn in H1; inversion H1; subst; cbn in H2; destruct H2.
Qed.
Lemma init_acyclic : Acyclic init_host.
Proof. intros y. exists 1. cbn. unfold inh_of. destruct y as [|[|y]]; reflexivity. Qed.

(* ------------------------------------------------------------------ *)
(* 4. lookup along the inheritance chain: specification and agreement   *)

(* C15 spec: the entry a lookup of name t in class n yields - the class's own entry if it has one
   (a delete marker, None, hides whatever the ancestors define), else what its base class yields,
   else nothing *)
Inductive Nearest (h : host) (t : str) : nat -> cid -> Prop :=
| Near_here : forall n c e, nth_error h n = Some c -> mfind (c_map c) t = Some e -> Nearest h t n e
| Near_base : forall n c b r, nth_error h n = Some c -> mfind (c_map c) t = None -> c_pinh c = Some b ->
              Nearest h t b r -> Nearest h t n r
| Near_none : forall n c, nth_error h n = Some c -> mfind (c_map c) t = None -> c_pinh c = None ->
              Nearest h t n None.

Lemma nearest_deterministic : forall h t n r1 r2, Nearest h t n r1 -> Nearest h t n r2 -> r1 = r2.
Proof.
  intros h t n r1 r2 H1. revert r2. induction H1 as [n c e Hn Hm|n c b r Hn Hm Hp Hb IH|n c Hn Hm Hp]; intros r2 H2;
    inversion H2; subst; try congruence.
  apply IH. congruence.
Qed.

Lemma lookup_sound : forall f h n t r, lookup_inh f h (Some n) t = Ok r -> Nearest h t n r.
Proof.
  induction f as [|f IH]; intros h n t r H; cbn in H; [discriminate|].
  destruct (nth_error h n) as [c|] eqn:En; [|discriminate].
  destruct (mfind (c_map c) t) as [e|] eqn:Em.
  - inversion H; subst. eapply Near_here; eauto.
  - destruct (c_pinh c) as [b|] eqn:Ep.
    + eapply Near_base; eauto.
    + destruct f; cbn in H; inversion H; subst; eapply Near_none; eauto.
Qed.

Lemma lookup_total_ends : forall f h n t, (forall m c b, nth_error h m = Some c -> c_pinh c = Some b -> b < length h) ->
  n < length h -> ends f (inh_of h) n = true -> exists r, lookup_inh f h (Some n) t = Ok r.
Proof.
  induction f as [|f IH]; intros h n t W L E; [discriminate|]. cbn in *.
  unfold inh_of in E at 1. destruct (nth_error h n) as [c|] eqn:En; [|apply nth_error_None in En; lia].
  destruct (mfind (c_map c) t) as [e|]; [eauto|].
  destruct (c_pinh c) as [b|] eqn:Ep.
  - apply IH; auto. eapply W; eauto.
  - destruct f; cbn; eauto.
Qed.

Lemma lookup_fuel_mono : forall f h i t r, lookup_inh f h i t = Ok r -> forall g, f <= g -> lookup_inh g h i t = Ok r.
Proof.
  induction f as [|f IH]; intros h i t r H g L.
  - destruct i; cbn in H; [discriminate|]. destruct g; cbn; auto.
  - destruct i as [n|]; [|destruct g; cbn in *; auto]. destruct g as [|g]; [lia|]. cbn in *.
    destruct (nth_error h n) as [c|]; [|discriminate]. destruct (mfind (c_map c) t); auto. apply IH; auto. lia.
Qed.

(* C15: under acyclicity every lookup returns within fuel_of h, with the specified entry *)
Lemma lookup_terminates_under_acyclic : forall h n t, WF h -> Acyclic h -> n < length h ->
  exists r, lookup_inh (fuel_of h) h (Some n) t = Ok r /\ Nearest h t n r.
Proof.
  intros h n t W A L. destruct (A n) as [k Ek].
  pose proof (ends_bound _ _ _ _ (wf_in_range h W) Ek) as E.
  destruct (lookup_total_ends _ h n t (wf_pinh h W) L E) as [r Hr].
  exists r. split; [exact Hr|]. eapply lookup_sound; eauto.
Qed.
Lemma lookup_spec : forall h n t r, WF h -> Acyclic h -> n < length h ->
  (lookup_inh (fuel_of h) h (Some n) t = Ok r <-> Nearest h t n r).
Proof.
  intros h n t r W A L. split; [apply lookup_sound|].
  intros N. destruct (lookup_terminates_under_acyclic h n t W A L) as [r' [H1 H2]].
  now rewrite (nearest_deterministic _ _ _ _ _ N H2).
Qed.

(* OutOfFuel at fuel_of h is a real divergence: no fuel is enough.  The lookup of t walks the links
   cut at the first container that has t among its own entries. *)
Definition stop_links (h : host) (t : str) : links :=
  fun y => match nth_error h y with
           | Some c => match mfind (c_map c) t with Some _ => None | None => c_pinh c end
           | None => None
           end.
Lemma stop_in_range : forall h t, WF h -> in_range (stop_links h t) (length h).
Proof.
  intros h t W y z H. unfold stop_links in H. destruct (nth_error h y) as [c|] eqn:E; [|discriminate].
  split; [apply nth_error_Some; congruence|]. destruct (mfind (c_map c) t); [discriminate|]. eapply wf_pinh; eauto.
Qed.
Lemma lookup_by_ends : forall f h n t, WF h -> n < length h ->
  if ends f (stop_links h t) n then exists r, lookup_inh f h (Some n) t = Ok r
  else lookup_inh f h (Some n) t = OutOfFuel.
Proof.
  induction f as [|f IH]; intros h n t W L; cbn; [reflexivity|].
  unfold stop_links at 1. destruct (nth_error h n) as [c|] eqn:En; [|apply nth_error_None in En; lia].
  destruct (mfind (c_map c) t) as [e|]; [eauto|].
  destruct (c_pinh c) as [b|] eqn:Ep.
  - apply IH; auto. eapply wf_pinh; eauto.
  - destruct f; cbn; eauto.
Qed.
Lemma out_of_fuel_is_divergence : forall h n t, WF h -> n < length h ->
  lookup_inh (fuel_of h) h (Some n) t = OutOfFuel -> forall f, lookup_inh f h (Some n) t = OutOfFuel.
Proof.
  intros h n t W L H f.
  pose proof (lookup_by_ends (fuel_of h) h n t W L) as B0.
  destruct (ends (fuel_of h) (stop_links h t) n) eqn:E0; [destruct B0 as [r Hr]; congruence|].
  pose proof (lookup_by_ends f h n t W L) as B.
  destruct (ends f (stop_links h t) n) eqn:E; [|exact B].
  pose proof (ends_bound _ _ _ _ (stop_in_range h t W) E) as E2. unfold fuel_of in E0. congruence.
Qed.

(* ------------------------------------------------------------------ *)
(* 5. the primitives keep hosts well-formed and acyclic                 *)

Definition Inv (h : host) : Prop := WF h /\ Acyclic h.

Lemma push_back_fields : forall d c k t,
  c_value (push_back d c k t) = c_value c /\ c_plog (push_back d c k t) = c_plog c /\
  c_pinh (push_back d c k t) = c_pinh c /\ c_name (push_back d c k t) = c_name c.
Proof.
  intros. unfold push_back. destruct (mfind (c_map c) k) as [old|]; [|cbn; auto].
  destruct (cid_eqb old t); [auto|]. destruct (negb (d_deleted_reopen d) && cid_eqb old None); cbn; auto.
Qed.
Lemma push_back_map : forall d c k t k',
  mfind (c_map (push_back d c k t)) k' = if eqs k k' then Some t else mfind (c_map c) k'.
Proof.
  intros. unfold push_back. destruct (eqs k k') eqn:E.
  - apply eqs_eq in E. subst k'. destruct (mfind (c_map c) k) as [old|] eqn:F; cbn; [|apply mfind_mset_same].
    destruct (cid_eqb old t) eqn:Eo; [apply cid_eqb_eq in Eo; congruence|].
    destruct (negb (d_deleted_reopen d) && cid_eqb old None); cbn; apply mfind_mset_same.
  - apply eqs_neq in E. destruct (mfind (c_map c) k) as [old|] eqn:F; cbn; [|now apply mfind_mset_other].
    destruct (cid_eqb old t); [reflexivity|].
    destruct (negb (d_deleted_reopen d) && cid_eqb old None); cbn; now apply mfind_mset_other.
Qed.
Lemma push_back_vec_in : forall d c k t x, In x (c_vec (push_back d c k t)) -> In x (c_vec c) \/ x = t.
Proof.
  intros d c k t x. unfold push_back. destruct (mfind (c_map c) k) as [old|].
  - destruct (cid_eqb old t); [auto|]. destruct (negb (d_deleted_reopen d) && cid_eqb old None); cbn.
    + intro H. apply in_app_or in H. destruct H as [H|[H|[]]]; auto.
    + intro H. apply in_map_iff in H. destruct H as [y [Hy Iy]]. destruct (cid_eqb y old); subst; auto.
  - cbn. intro H. apply in_app_or in H. destruct H as [H|[H|[]]]; auto.
Qed.

Lemma WF_upd : forall h n f, WF h ->
  (forall c, c_plog (f c) = c_plog c /\ c_name (f c) = c_name c) ->
  (forall c b, nth_error h n = Some c -> c_pinh (f c) = Some b -> b < length h) ->
  (forall c t e, nth_error h n = Some c -> mfind (c_map (f c)) t = Some (Some e) ->
       exists ce, nth_error h e = Some ce /\ c_plog ce = Some n /\ c_name ce = t) ->
  (forall c e, nth_error h n = Some c -> In (Some e) (c_vec (f c)) -> e < length h) ->
  WF (upd h n f).
Proof.
  intros h n f W Hf Hp Hm Hv.
  assert (K : forall m c, nth_error (upd h n f) m = Some c ->
              (m = n /\ exists c0, nth_error h n = Some c0 /\ c = f c0) \/ (m <> n /\ nth_error h m = Some c)).
  { intros m c H. rewrite nth_upd in H. destruct (Nat.eqb_spec m n) as [->|N]; [|auto].
    left. split; auto. destruct (nth_error h n) as [c0|]; cbn in H; inversion H. eauto. }
  assert (Keep : forall e ce, nth_error h e = Some ce ->
              exists ce', nth_error (upd h n f) e = Some ce' /\ c_plog ce' = c_plog ce /\ c_name ce' = c_name ce).
  { intros e ce H. rewrite nth_upd. destruct (Nat.eqb e n); rewrite H; cbn;
      [exists (f ce); destruct (Hf ce); auto | eauto]. }
  split.
  - rewrite upd_length. apply W.
  - intros m c b H1 H2. rewrite upd_length. destruct (K m c H1) as [[-> [c0 [E0 ->]]]|[N E]].
    + eapply Hp; eauto.
    + eapply wf_pinh; eauto.
  - intros m c p H1 H2. destruct (K m c H1) as [[-> [c0 [E0 ->]]]|[N E]].
    + destruct (Hf c0) as [P _]. rewrite P in H2. eapply wf_plog; eauto.
    + eapply wf_plog; eauto.
  - intros m c t e H1 H2. destruct (K m c H1) as [[-> [c0 [E0 ->]]]|[N E]].
    + destruct (Hm c0 t e E0 H2) as [ce [A [B C]]]. destruct (Keep e ce A) as [ce' [A' [B' C']]].
      exists ce'. repeat split; congruence.
    + destruct (wf_child h W m c t e E H2) as [ce [A [B C]]]. destruct (Keep e ce A) as [ce' [A' [B' C']]].
      exists ce'. repeat split; congruence.
  - intros m c e H1 H2. rewrite upd_length. destruct (K m c H1) as [[-> [c0 [E0 ->]]]|[N E]].
    + eapply Hv; eauto.
    + eapply wf_vec; eauto.
Qed.

Lemma WF_upd_value : forall h n v, WF h -> WF (upd h n (set_value v)).
Proof.
  intros h n v W. apply WF_upd; auto; cbn.
  - intros c b H1 H2. eapply wf_pinh; eauto.
  - intros c t e H1 H2. eapply wf_child; eauto.
  - intros c e H1 H2. eapply wf_vec; eauto.
Qed.
Lemma WF_upd_pinh : forall h n b, WF h -> match b with Some x => x < length h | None => True end ->
  WF (upd h n (set_pinh b)).
Proof.
  intros h n b W Hb. apply WF_upd; auto; cbn.
  - intros c b' H1 H2. subst b. exact Hb.
  - intros c t e H1 H2. eapply wf_child; eauto.
  - intros c e H1 H2. eapply wf_vec; eauto.
Qed.
Lemma WF_app : forall h p t b, WF h -> p < length h -> match b with Some x => x < length h | None => True end ->
  WF (h ++ [new_container p t b]).
Proof.
  intros h p t b W Lp Hb.
  assert (K : forall m c, nth_error (h ++ [new_container p t b]) m = Some c ->
              (m < length h /\ nth_error h m = Some c) \/ (m = length h /\ c = new_container p t b)).
  { intros m c H. destruct (lt_dec m (length h)) as [L|L].
    - rewrite nth_error_app1 in H by exact L. auto.
    - rewrite nth_error_app2 in H by lia. destruct (m - length h) as [|k] eqn:E; cbn in H.
      + inversion H. right. split; [lia|reflexivity].
      + destruct k; discriminate. }
  split.
  - rewrite app_length. cbn. lia.
  - intros m c b' H1 H2. rewrite app_length. cbn. destruct (K m c H1) as [[L E]|[-> ->]].
    + pose proof (wf_pinh h W m c b' E H2). lia.
    + cbn in H2. subst b. lia.
  - intros m c q H1 H2. destruct (K m c H1) as [[L E]|[-> ->]].
    + eapply wf_plog; eauto.
    + cbn in H2. inversion H2. subst. exact Lp.
  - intros m c k e H1 H2. destruct (K m c H1) as [[L E]|[-> ->]].
    + destruct (wf_child h W m c k e E H2) as [ce [A [B C]]]. exists ce. split; [|auto].
      rewrite nth_error_app1; auto. apply nth_error_Some. congruence.
    + cbn in H2. discriminate.
  - intros m c e H1 H2. rewrite app_length. cbn. destruct (K m c H1) as [[L E]|[-> ->]].
    + pose proof (wf_vec h W m c e E H2). lia.
    + cbn in H2. destruct H2.
Qed.

(* links of updated hosts *)
Lemma inh_of_upd_keep : forall h n f, (forall c, c_pinh (f c) = c_pinh c) -> forall y, inh_of (upd h n f) y = inh_of h y.
Proof.
  intros h n f Hf y. unfold inh_of. rewrite nth_upd. destruct (Nat.eqb y n); auto.
  destruct (nth_error h y); cbn; auto.
Qed.
Lemma inh_of_upd_pinh : forall h n b, n < length h -> forall y, inh_of (upd h n (set_pinh b)) y = updl (inh_of h) n b y.
Proof.
  intros h n b L y. unfold inh_of, updl. rewrite nth_upd. destruct (Nat.eqb_spec y n) as [->|N]; auto.
  destruct (nth_error h n) eqn:E; cbn; auto. apply nth_error_None in E. lia.
Qed.
Lemma inh_of_app : forall h c y, inh_of (h ++ [c]) y = updl (inh_of h) (length h) (c_pinh c) y.
Proof.
  intros h c y. unfold inh_of, updl. destruct (Nat.eqb_spec y (length h)) as [->|N].
  - now rewrite nth_app_last.
  - destruct (lt_dec y (length h)) as [L|L].
    + now rewrite nth_error_app1.
    + assert (E1 : nth_error (h ++ [c]) y = None) by (apply nth_error_None; rewrite app_length; cbn; lia).
      assert (E2 : nth_error h y = None) by (apply nth_error_None; lia). now rewrite E1, E2.
Qed.

Lemma Terminating_ext : forall p q, (forall y, p y = q y) -> Terminating p -> Terminating q.
Proof. intros p q E T y. destruct (T y) as [n H]. exists n. now rewrite <- (ends_ext n p q y E). Qed.

Lemma avoid_same : forall n p x b' y, hits n p y x = false -> ends n p y = true -> ends n (updl p x b') y = true.
Proof.
  induction n as [|n IH]; intros p x b' y Hh He; [discriminate|]. cbn in *. unfold updl at 1.
  destruct (Nat.eqb_spec y x); [discriminate|]. destruct (p y); auto.
Qed.
Lemma Terminating_updl_guard : forall p x b nb, Terminating p ->
  ends nb p b = true -> hits nb p b x = false -> Terminating (updl p x (Some b)).
Proof.
  intros p x b nb T Eb Hb.
  pose proof (avoid_same _ _ _ (Some b) _ Hb Eb) as Eb'.
  assert (K : forall n y, ends n p y = true -> exists m, ends m (updl p x (Some b)) y = true).
  { induction n as [|n IH]; intros y He; [discriminate|]. cbn in He.
    destruct (Nat.eqb_spec y x) as [->|Hne].
    - exists (S nb). cbn. unfold updl at 1. rewrite Nat.eqb_refl. exact Eb'.
    - destruct (p y) as [z|] eqn:Py.
      + destruct (IH z He) as [m Hm]. exists (S m). cbn. unfold updl at 1.
        destruct (Nat.eqb_spec y x); [contradiction|]. rewrite Py. exact Hm.
      + exists 1. cbn. unfold updl. destruct (Nat.eqb_spec y x); [contradiction|]. now rewrite Py. }
  intros y. destruct (T y) as [n Hn]. eauto.
Qed.
Lemma Terminating_updl_none : forall p x, Terminating p -> Terminating (updl p x None).
Proof.
  intros p x T y. destruct (T y) as [n Hn]. exists n. revert y Hn.
  induction n as [|n IH]; intros y Hn; [discriminate|]. cbn in *. unfold updl at 1.
  destruct (Nat.eqb y x); [reflexivity|]. destruct (p y); auto.
Qed.
Lemma Terminating_updl_fresh : forall p N b, in_range p N -> Terminating p ->
  match b with Some x => x < N | None => True end -> Terminating (updl p N b).
Proof.
  intros p N b R T Hb. destruct b as [b|]; [|now apply Terminating_updl_none].
  destruct (T b) as [nb Eb]. apply Terminating_updl_guard with (nb := nb); auto.
  destruct (hits nb p b N) eqn:H; [|reflexivity].
  pose proof (hits_in_range _ _ _ _ _ R Hb H). lia.
Qed.

(* the repair's test: reaches ... = Ok false means the walk from b ends without meeting x *)
Lemma reaches_false : forall f h b x, reaches f h (Some b) x = Ok false ->
  ends f (inh_of h) b = true /\ hits f (inh_of h) b x = false.
Proof.
  induction f as [|f IH]; intros h b x H; cbn in H.
  - destruct (Nat.eqb b x); discriminate.
  - cbn. destruct (Nat.eqb b x); [discriminate|]. unfold inh_of at 1 3.
    destruct (nth_error h b) as [c|]; [|discriminate].
    destruct (c_pinh c) as [z|]; [now apply IH|auto].
Qed.
Lemma reaches_total : forall f h b x, WF h -> b < length h -> ends f (inh_of h) b = true ->
  exists r, reaches f h (Some b) x = Ok r.
Proof.
  induction f as [|f IH]; intros h b x W L E; [discriminate|]. cbn in *.
  destruct (Nat.eqb b x); [eauto|]. unfold inh_of in E at 1.
  destruct (nth_error h b) as [c|] eqn:En; [|apply nth_error_None in En; lia].
  destruct (c_pinh c) as [z|] eqn:Ep; [|destruct f; cbn; eauto].
  apply IH; auto. eapply wf_pinh; eauto.
Qed.

(* lookup along the enclosing classes: terminates because a logical parent is older than its child *)
Lemma lookup_log_total : forall h t n f, WF h -> n < length h -> n < f -> exists r, lookup_log f h (Some n) t = Ok r.
Proof.
  intros h t n. induction n as [n IH] using lt_wf_ind. intros f W L Lf.
  destruct f as [|f]; [lia|]. cbn.
  destruct (nth_error h n) as [c|] eqn:En; [|apply nth_error_None in En; lia].
  destruct (mfind (c_map c) t); [eauto|].
  destruct (c_plog c) as [p|] eqn:Ep; [|destruct f; cbn; eauto].
  pose proof (wf_plog h W n c p En Ep). apply IH; auto; lia.
Qed.
Lemma lookup_log_valid : forall f h n t e, WF h -> lookup_log f h (Some n) t = Ok (Some e) -> e < length h.
Proof.
  induction f as [|f IH]; intros h n t e W H; cbn in H; [discriminate|].
  destruct (nth_error h n) as [c|] eqn:En; [|discriminate].
  destruct (mfind (c_map c) t) as [r|] eqn:Em.
  - inversion H; subst. destruct (wf_child h W n c t e En Em) as [ce [A _]]. apply nth_error_Some. congruence.
  - destruct (c_plog c) as [p|]; [eapply IH; eauto|]. destruct f; cbn in H; discriminate.
Qed.
Lemma lookup_log_app : forall f h ext n t, WF h -> n < length h ->
  lookup_log f (h ++ ext) (Some n) t = lookup_log f h (Some n) t.
Proof.
  induction f as [|f IH]; intros h ext n t W L; cbn; [reflexivity|].
  rewrite nth_error_app1 by exact L.
  destruct (nth_error h n) as [c|] eqn:En; [|reflexivity].
  destruct (mfind (c_map c) t); [reflexivity|].
  destruct (c_plog c) as [p|] eqn:Ep; [|destruct f; reflexivity].
  pose proof (wf_plog h W n c p En Ep). apply IH; auto. lia.
Qed.

Lemma lookup_log_fuel_mono : forall f h i t r, lookup_log f h i t = Ok r -> forall g, f <= g -> lookup_log g h i t = Ok r.
Proof.
  induction f as [|f IH]; intros h i t r H g L.
  - destruct i; cbn in H; [discriminate|]. destruct g; cbn; auto.
  - destruct i as [n|]; [|destruct g; cbn in *; auto]. destruct g as [|g]; [lia|]. cbn in *.
    destruct (nth_error h n) as [c|]; [|discriminate]. destruct (mfind (c_map c) t); auto. apply IH; auto. lia.
Qed.

(* the host after a child named t with base b has been created below pn *)
Definition created (d : defects) (h : host) (pn : nat) (t : str) (b : cid) : host :=
  upd (h ++ [new_container pn t b]) pn (fun c => push_back d c t (Some (length h))).

Definition valid (h : host) (b : cid) : Prop := match b with Some x => x < length h | None => True end.

Lemma create_child_ok : forall d h pn t inh h' nav, WF h -> pn < length h ->
  create_child d h pn t inh = Ok (h', nav) ->
  exists b, h' = created d h pn t b /\ nav = Some (length h) /\ valid h b /\
            (match inh with [] => b = None | _ => lookup_log (S (fuel_of h)) h (Some pn) inh = Ok b end).
Proof.
  intros d h pn t inh h' nav W L H. unfold create_child in H.
  inv_bind H. rename a into b. inv_bind H. inversion H; subst; clear H.
  exists b. rewrite upd_app_last. cbn [set_pinh new_container c_vec c_map c_value c_plog c_name].
  split; [reflexivity|]. split; [reflexivity|].
  destruct inh as [|i0 inh].
  - inversion Hb. subst. cbn. auto.
  - rewrite lookup_log_app in Hb by auto. unfold fuel_of in *. rewrite app_length in Hb. cbn [length] in Hb.
    replace (length h + 1) with (S (length h)) in Hb by lia.
    split; [|exact Hb]. destruct b as [x|]; cbn; auto. eapply lookup_log_valid; eauto.
Qed.
Lemma create_child_total : forall d h pn t inh, WF h -> pn < length h ->
  exists r, create_child d h pn t inh = Ok r.
Proof.
  intros d h pn t inh W L. unfold create_child.
  assert (B : exists b, (match inh with [] => Ok None
               | _ => lookup_log (fuel_of (h ++ [new_container pn t None])) (h ++ [new_container pn t None]) (Some pn) inh end) = Ok b).
  { destruct inh as [|i0 inh]; [eauto|]. rewrite lookup_log_app by auto.
    apply lookup_log_total; auto. unfold fuel_of. rewrite app_length. cbn. lia. }
  destruct B as [b Hb]. rewrite Hb. cbn [bind].
  rewrite upd_app_last. unfold get. rewrite nth_error_app1 by exact L.
  destruct (nth_error h pn) eqn:E; [cbn; eauto|]. apply nth_error_None in E. lia.
Qed.

Lemma created_wf : forall d h pn t b, WF h -> pn < length h -> valid h b -> WF (created d h pn t b).
Proof.
  intros d h pn t b W L Vb. unfold created.
  pose proof (WF_app h pn t b W L Vb) as W2.
  apply WF_upd; auto.
  - intros c. destruct (push_back_fields d c t (Some (length h))) as [_ [P [_ N]]]. auto.
  - intros c b' H1 H2. destruct (push_back_fields d c t (Some (length h))) as [_ [_ [P _]]]. rewrite P in H2.
    eapply wf_pinh; eauto.
  - intros c k e H1 H2. rewrite push_back_map in H2. destruct (eqs t k) eqn:E.
    + apply eqs_eq in E. subst k. inversion H2; subst.
      exists (new_container pn t b). split; [apply nth_app_last|]. cbn. auto.
    + eapply wf_child; eauto.
  - intros c e H1 H2. apply push_back_vec_in in H2. destruct H2 as [H2|H2].
    + eapply wf_vec; eauto.
    + inversion H2. rewrite app_length. cbn. lia.
Qed.
Lemma created_links : forall d h pn t b y, inh_of (created d h pn t b) y = updl (inh_of h) (length h) b y.
Proof.
  intros. unfold created. rewrite inh_of_upd_keep.
  - now rewrite inh_of_app.
  - intros c. destruct (push_back_fields d c t (Some (length h))) as [_ [_ [P _]]]. exact P.
Qed.
Lemma created_acyclic : forall d h pn t b, WF h -> Acyclic h -> valid h b -> Acyclic (created d h pn t b).
Proof.
  intros d h pn t b W A Vb. unfold Acyclic.
  apply Terminating_ext with (p := updl (inh_of h) (length h) b).
  - intro y. symmetry. apply created_links.
  - apply Terminating_updl_fresh; auto. now apply wf_in_range.
Qed.
Lemma created_length : forall d h pn t b, length (created d h pn t b) = S (length h).
Proof. intros. unfold created. rewrite upd_length, app_length. cbn. lia. Qed.
Lemma created_old : forall d h pn t b m, m < length h -> m <> pn ->
  nth_error (created d h pn t b) m = nth_error h m.
Proof. intros. unfold created. rewrite nth_upd_other by auto. now apply nth_error_app1. Qed.
Lemma created_parent : forall d h pn t b cp, nth_error h pn = Some cp ->
  nth_error (created d h pn t b) pn = Some (push_back d cp t (Some (length h))).
Proof.
  intros d h pn t b cp H. unfold created.
  apply (nth_upd_same (h ++ [new_container pn t b]) pn (fun c => push_back d c t (Some (length h))) cp).
  rewrite nth_error_app1; auto. apply nth_error_Some. congruence.
Qed.
Lemma created_new : forall d h pn t b, pn < length h ->
  nth_error (created d h pn t b) (length h) = Some (new_container pn t b).
Proof. intros. unfold created. rewrite nth_upd_other by lia. apply nth_app_last. Qed.

(* what append_or_replace does, case by case (any defect setting) *)
Inductive aor_case (d : defects) (h : host) (p : nat) (t inh : str) (h' : host) (x : nat) : Prop :=
| aor_created : forall b, h' = created d h p t b -> x = length h -> valid h b ->
    (match inh with [] => b = None | _ => lookup_log (S (fuel_of h)) h (Some p) inh = Ok b end) ->
    (forall cp, nth_error h p = Some cp ->
       mfind (c_map cp) t = None \/ (mfind (c_map cp) t = Some None /\ d_deleted_reopen d = false)) ->
    aor_case d h p t inh h' x
| aor_reopened : forall cp, nth_error h p = Some cp -> mfind (c_map cp) t = Some (Some x) -> inh = [] -> h' = h ->
    aor_case d h p t inh h' x
| aor_rebound : forall cp b, nth_error h p = Some cp -> mfind (c_map cp) t = Some (Some x) -> inh <> [] ->
    lookup_log (fuel_of h) h (Some p) inh = Ok b -> valid h b ->
    h' = upd h x (set_pinh b) ->
    (d_rebind_cycle d = false -> reaches (fuel_of h) h b x = Ok false) ->
    aor_case d h p t inh h' x
| aor_refused : forall cp b, nth_error h p = Some cp -> mfind (c_map cp) t = Some (Some x) -> inh <> [] ->
    lookup_log (fuel_of h) h (Some p) inh = Ok b -> d_rebind_cycle d = false ->
    reaches (fuel_of h) h b x = Ok true -> h' = h ->
    aor_case d h p t inh h' x.

Lemma aor_cases : forall d h p t inh h' nav, WF h -> p < length h ->
  append_or_replace d h (Some p) t inh = Ok (h', nav) ->
  exists x, nav = Some x /\ aor_case d h p t inh h' x.
Proof.
  intros d h p t inh h' nav W L H. unfold append_or_replace in H.
  inv_bind H. rename a into cp. apply get_ok in Hb.
  destruct (mfind (c_map cp) t) as [[rn|]|] eqn:Em.
  - destruct (nth_error h rn) as [cr|] eqn:Er; [|discriminate].
    destruct inh as [|i0 inh].
    + inversion H; subst. exists rn. split; auto. eapply aor_reopened; eauto.
    + inv_bind H. rename a into b.
      assert (Vb : valid h b) by (destruct b; cbn; auto; eapply lookup_log_valid; eauto).
      destruct (d_rebind_cycle d) eqn:Ed.
      * inversion H; subst. exists rn. split; auto. eapply aor_rebound; eauto; try discriminate; intro; congruence.
      * inv_bind H. destruct a; inversion H; subst; exists rn; split; auto.
        -- eapply aor_refused; eauto; discriminate.
        -- eapply aor_rebound; eauto; discriminate.
  - destruct (d_deleted_reopen d) eqn:Edel; [discriminate|].
    destruct (create_child_ok _ _ _ _ _ _ _ W L H) as [b [E1 [E2 [Vb Lb]]]].
    exists (length h). split; auto. eapply aor_created; eauto. intros cp' E. right. split; congruence.
  - destruct (create_child_ok _ _ _ _ _ _ _ W L H) as [b [E1 [E2 [Vb Lb]]]].
    exists (length h). split; auto. eapply aor_created; eauto. intros cp' E. left. congruence.
Qed.

Lemma aor_wf : forall d h p t inh h' x, WF h -> p < length h -> aor_case d h p t inh h' x ->
  WF h' /\ length h <= length h' /\ x < length h' /\
  (exists cp' cx, nth_error h' p = Some cp' /\ mfind (c_map cp') t = Some (Some x) /\
                  nth_error h' x = Some cx /\ c_plog cx = Some p /\ c_name cx = t).
Proof.
  intros d h p t inh h' x W L C.
  assert (Fin : forall h1, WF h1 -> length h <= length h1 ->
            (exists cp', nth_error h1 p = Some cp' /\ mfind (c_map cp') t = Some (Some x)) ->
            WF h1 /\ length h <= length h1 /\ x < length h1 /\
            (exists cp' cx, nth_error h1 p = Some cp' /\ mfind (c_map cp') t = Some (Some x) /\
                  nth_error h1 x = Some cx /\ c_plog cx = Some p /\ c_name cx = t)).
  { intros h1 W1 L1 [cp' [E1 E2]]. destruct (wf_child h1 W1 p cp' t x E1 E2) as [cx [A [B Cn]]].
    split; [exact W1|]. split; [exact L1|]. split.
    - apply nth_error_Some. rewrite A. discriminate.
    - exists cp', cx. auto. }
  destruct C as [b E Ex Vb Lb _|cp Ep Em Ei E|cp b Ep Em Ei Lb Vb E _|cp b Ep Em Ei Lb Ed R E]; subst.
  - apply Fin; [now apply created_wf|rewrite created_length; lia|].
    destruct (nth_error h p) as [cp|] eqn:Ep; [|apply nth_error_None in Ep; lia].
    exists (push_back d cp t (Some (length h))). split; [now apply created_parent|].
    rewrite push_back_map. now rewrite eqs_refl.
  - apply Fin; eauto.
  - apply Fin; [now apply WF_upd_pinh|rewrite upd_length; lia|].
    rewrite nth_upd. destruct (Nat.eqb p x); rewrite Ep; cbn; eauto.
  - apply Fin; eauto.
Qed.

Lemma aor_acyclic : forall d h p t inh h' x, WF h -> Acyclic h -> p < length h -> d_rebind_cycle d = false ->
  aor_case d h p t inh h' x -> Acyclic h'.
Proof.
  intros d h p t inh h' x W A L Ed C.
  destruct C as [b E Ex Vb Lb _|cp Ep Em Ei E|cp b Ep Em Ei Lb Vb E R|cp b Ep Em Ei Lb _ R E]; subst; auto.
  - now apply created_acyclic.
  - specialize (R Ed).
    assert (Lx : x < length h).
    { destruct (wf_child h W p cp t x Ep Em) as [cx [Ax _]]. apply nth_error_Some. congruence. }
    unfold Acyclic. apply Terminating_ext with (p := updl (inh_of h) x b).
    + intro y. symmetry. now apply inh_of_upd_pinh.
    + destruct b as [bb|]; [|now apply Terminating_updl_none].
      destruct (reaches_false _ _ _ _ R) as [E1 E2].
      eapply Terminating_updl_guard; eauto.
Qed.



(* ------------------------------------------------------------------ *)
(* 6. values: what is stored is what the value node denotes             *)

Fixpoint vnode_ind' (P : vnode -> Prop) (hn : forall z, P (NNum z)) (hs : forall s, P (NStr s))
  (ha : forall l, Forall P l -> P (NArr l)) (v : vnode) : P v :=
  match v with
  | NNum z => hn z
  | NStr s => hs s
  | NArr l => ha l ((fix go (l : list vnode) : Forall P l :=
                       match l with [] => Forall_nil P | x :: r => Forall_cons x (vnode_ind' P hn hs ha x) (go r) end) l)
  end.

Lemma upd_upd_value : forall h p v1 v2, upd (upd h p (set_value v1)) p (set_value v2) = upd h p (set_value v2).
Proof. induction h as [|c h IH]; intros [|p] v1 v2; cbn; auto. now rewrite IH. Qed.
Lemma nav_set_value_ok : forall h p v, p < length h -> nav_set_value h (Some p) v = Ok (upd h p (set_value v)).
Proof.
  intros h p v L. unfold nav_set_value, get. destruct (nth_error h p) eqn:E; [reflexivity|].
  apply nth_error_None in E. lia.
Qed.
Lemma nav_value_upd : forall h p v, p < length h -> nav_value (upd h p (set_value v)) (Some p) = Ok v.
Proof.
  intros h p v L. unfold nav_value, get. destruct (nth_error h p) as [c|] eqn:E; [|apply nth_error_None in E; lia].
  now rewrite (nth_upd_same h p (set_value v) c E).
Qed.

(* C15: storing a value node stores exactly its denotation (numbers, strings, arrays nested to any depth) *)
Lemma apply_value_spec : forall v h p, p < length h ->
  apply_value h (Some p) v = Ok (upd h p (set_value (eval_v v))).
Proof.
  induction v as [z|s|l IHl] using vnode_ind'; intros h p L.
  - now apply nav_set_value_ok.
  - now apply nav_set_value_ok.
  - cbn [apply_value eval_v].
    assert (K : forall l' acc h0, Forall (fun v => forall h p, p < length h ->
                   apply_value h (Some p) v = Ok (upd h p (set_value (eval_v v)))) l' -> p < length h0 ->
              (fix go (h : host) (l : list vnode) (acc : list cval) {struct l} : res host :=
                 match l with
                 | [] => nav_set_value h (Some p) (VArr (rev acc))
                 | x :: r => h1 <- apply_value h (Some p) x;; e <- nav_value h1 (Some p);; go h1 r (e :: acc)
                 end) h0 l' acc = Ok (upd h0 p (set_value (VArr (rev acc ++ map eval_v l'))))).
    { induction l' as [|x r IHr]; intros acc h0 F L0.
      - cbn [map]. rewrite app_nil_r. now apply nav_set_value_ok.
      - inversion F as [|x' r' Hx Hr]; subst.
        rewrite (Hx h0 p L0). cbn [bind]. rewrite (nav_value_upd h0 p _ L0). cbn [bind].
        rewrite IHr; [|exact Hr|rewrite upd_length; exact L0].
        rewrite upd_upd_value. cbn [rev map]. now rewrite <- app_assoc. }
    rewrite (K l [] h IHl L). reflexivity.
Qed.

(* ------------------------------------------------------------------ *)
(* 7. statements keep the invariant: no sequence of loads makes the inheritance cyclic *)

Lemma WF_upd_push_none : forall d h p t, WF h -> WF (upd h p (fun c => push_back d c t None)).
Proof.
  intros d h p t W. apply WF_upd; auto.
  - intros c. destruct (push_back_fields d c t None) as [_ [P [_ N]]]. auto.
  - intros c b H1 H2. destruct (push_back_fields d c t None) as [_ [_ [P _]]]. rewrite P in H2. eapply wf_pinh; eauto.
  - intros c k e H1 H2. rewrite push_back_map in H2. destruct (eqs t k); [discriminate|]. eapply wf_child; eauto.
  - intros c e H1 H2. apply push_back_vec_in in H2. destruct H2 as [H2|H2]; [|discriminate]. eapply wf_vec; eauto.
Qed.
Lemma acyclic_upd_keep : forall h n f, (forall c, c_pinh (f c) = c_pinh c) -> Acyclic h -> Acyclic (upd h n f).
Proof.
  intros h n f Hf A. unfold Acyclic. apply Terminating_ext with (p := inh_of h); auto.
  intro y. symmetry. now apply inh_of_upd_keep.
Qed.

Lemma delete_entry_inv : forall d h p t h', Inv h -> delete_entry d h (Some p) t = Ok h' ->
  Inv h' /\ length h' = length h /\ h' = upd h p (fun c => push_back d c t None).
Proof.
  intros d h p t h' [W A] H. unfold delete_entry in H. inv_bind H. inversion H; subst; clear H.
  split; [split|].
  - now apply WF_upd_push_none.
  - apply acyclic_upd_keep; auto. intro c. destruct (push_back_fields d c t None) as [_ [_ [P _]]]. exact P.
  - split; [apply upd_length|reflexivity].
Qed.
Lemma set_value_inv : forall h p v, Inv h -> Inv (upd h p (set_value v)).
Proof. intros h p v [W A]. split; [now apply WF_upd_value|apply acyclic_upd_keep; auto]. Qed.

Lemma append_inherited_shape : forall h2 nav n h3, append_inherited h2 nav n = Ok h3 ->
  h3 = h2 \/ exists x v, nav = Some x /\ h3 = upd h2 x (set_value v).
Proof.
  intros h2 nav n h3 H. unfold append_inherited in H.
  bind_inv H as pl Hpl. bind_inv H as pi Hpi. bind_inv H as e He. destruct e as [en|]; [|inversion H; auto].
  destruct nav as [navn|]; [|discriminate]. bind_inv H as cs Hcs. bind_inv H as ce Hce.
  destruct (c_value cs); try (inversion H; auto; fail).
  destruct (c_value ce); try (inversion H; auto; fail).
  destruct (Nat.eqb navn en); [discriminate|]. inversion H. right. eauto.
Qed.

(* own entries only grow: a position keeps its entry or becomes a delete marker, new entries go to the end *)
Inductive vext : list cid -> list cid -> Prop :=
| vext_nil : forall l, vext [] l
| vext_keep : forall x v v', vext v v' -> vext (x :: v) (x :: v')
| vext_del : forall x v v', vext v v' -> vext (x :: v) (None :: v').
Lemma vext_refl : forall v, vext v v.
Proof. induction v; constructor; auto. Qed.
Lemma vext_trans : forall a b c, vext a b -> vext b c -> vext a c.
Proof.
  intros a b c H. revert c. induction H as [l|x v v' H IH|x v v' H IH]; intros c H2.
  - constructor.
  - inversion H2; subst; constructor; auto.
  - inversion H2; subst; constructor; auto.
Qed.
Lemma vext_app : forall v e, vext v (v ++ e).
Proof. induction v; intros; cbn; constructor; auto. Qed.
Lemma vext_length : forall v v', vext v v' -> length v <= length v'.
Proof. induction 1; cbn; lia. Qed.
Lemma vext_nth : forall v v', vext v v' -> forall i x, nth_error v i = Some x ->
  nth_error v' i = Some x \/ nth_error v' i = Some None.
Proof.
  induction 1 as [l|x v v' H IH|x v v' H IH]; intros i y E.
  - destruct i; discriminate.
  - destruct i as [|i]; cbn in *; auto.
  - destruct i as [|i]; cbn in *; auto.
Qed.
Lemma vext_map_del : forall old v, vext v (map (fun x => if cid_eqb x old then None else x) v).
Proof. induction v as [|x v IH]; cbn; [constructor|]. destruct (cid_eqb x old); constructor; auto. Qed.

Lemma push_back_vext : forall d c k t,
  t = None \/ mfind (c_map c) k = None \/ (mfind (c_map c) k = Some None /\ d_deleted_reopen d = false) ->
  vext (c_vec c) (c_vec (push_back d c k t)).
Proof.
  intros d c k t H. unfold push_back. destruct (mfind (c_map c) k) as [old|] eqn:Em.
  - destruct (cid_eqb old t) eqn:Eo; [apply vext_refl|].
    destruct H as [->|[H|[H Ed]]]; [|discriminate|].
    + destruct (negb (d_deleted_reopen d) && cid_eqb old None); cbn; [apply vext_app|apply vext_map_del].
    + inversion H; subst. rewrite Ed. cbn. apply vext_app.
  - cbn. apply vext_app.
Qed.

Definition hext (h h' : host) : Prop :=
  forall k ck, nth_error h k = Some ck -> exists ck', nth_error h' k = Some ck' /\ vext (c_vec ck) (c_vec ck').
Lemma hext_refl : forall h, hext h h.
Proof. intros h k ck E. exists ck. split; auto. apply vext_refl. Qed.
Lemma hext_trans : forall a b c, hext a b -> hext b c -> hext a c.
Proof.
  intros a b c H1 H2 k ck E. destruct (H1 k ck E) as [ck1 [E1 V1]]. destruct (H2 k ck1 E1) as [ck2 [E2 V2]].
  exists ck2. split; auto. eapply vext_trans; eauto.
Qed.
Lemma hext_upd : forall h n f, (forall c, nth_error h n = Some c -> vext (c_vec c) (c_vec (f c))) -> hext h (upd h n f).
Proof.
  intros h n f Hf k ck E. rewrite nth_upd. destruct (Nat.eqb_spec k n) as [->|N]; rewrite E; cbn.
  - exists (f ck). auto.
  - exists ck. split; auto. apply vext_refl.
Qed.
Lemma hext_app : forall h e, hext h (h ++ e).
Proof.
  intros h e k ck E. exists ck. split; [|apply vext_refl]. rewrite nth_error_app1; auto. apply nth_error_Some. congruence.
Qed.

Lemma aor_hext : forall d h p t inh h' x, p < length h -> aor_case d h p t inh h' x -> hext h h'.
Proof.
  intros d h p t inh h' x L C.
  destruct C as [b E Ex Vb Lb Hm|cp Ep Em Ei E|cp b Ep Em Ei Lb Vb E _|cp b Ep Em Ei Lb Ed R E]; subst;
    try apply hext_refl.
  - unfold created. eapply hext_trans; [apply hext_app|]. apply hext_upd.
    intros c Ec. rewrite nth_error_app1 in Ec by exact L. apply push_back_vext. right. exact (Hm c Ec).
  - apply hext_upd. intros c _. apply vext_refl.
Qed.

Fixpoint node_ind' (P : node -> Prop)
  (hc : forall n b body, Forall P body -> P (NClass n b body))
  (hd : forall n, P (NDelete n)) (hf : forall n v, P (NField n v)) (ha : forall n v, P (NAppend n v))
  (x : node) : P x :=
  match x with
  | NClass n b body => hc n b body ((fix go (l : list node) : Forall P l :=
       match l with [] => Forall_nil P | y :: r => Forall_cons y (node_ind' P hc hd hf ha y) (go r) end) body)
  | NDelete n => hd n
  | NField n v => hf n v
  | NAppend n v => ha n v
  end.

Definition keeps_inv (d : defects) (n : node) : Prop :=
  forall h lg p h' lg', WF h -> p < length h -> apply_node d (h, lg) (Some p) n = Ok (h', lg') ->
    WF h' /\ length h <= length h' /\ hext h h' /\ (d_rebind_cycle d = false -> Acyclic h -> Acyclic h').

Lemma apply_node_inv : forall d n, keeps_inv d n.
Proof.
  intros d. induction n as [name base body IHb|name|name v|name v] using node_ind'; intros h lg p h' lg' W L H.
  - cbn [apply_node] in H. bind_inv H as wanted Hw. bind_inv H as r1 Haor. destruct r1 as [h1 nav].
    destruct (aor_cases _ _ _ _ _ _ _ W L Haor) as [x [-> C]].
    destruct (aor_wf _ _ _ _ _ _ _ W L C) as [W1 [L1 [Lx _]]].
    bind_inv H as w Hlog.
    assert (K : forall l st0 st1, Forall (keeps_inv d) l -> WF (fst st0) -> x < length (fst st0) ->
              (fix go (st : lstate) (l : list node) {struct l} : res lstate :=
                 match l with [] => Ok st | y :: r => st1 <- apply_node d st (Some x) y;; go st1 r end) st0 l = Ok st1 ->
              WF (fst st1) /\ length (fst st0) <= length (fst st1) /\ hext (fst st0) (fst st1) /\
              (d_rebind_cycle d = false -> Acyclic (fst st0) -> Acyclic (fst st1))).
    { induction l as [|y r IHr]; intros st0 st1 F I0 L0 G.
      - inversion G; subst. split; auto. split; auto. split; [apply hext_refl|auto].
      - inversion F as [|y' r' Hy Hr]; subst. bind_inv G as st2 Hst2. destruct st0 as [h0 lg0]. destruct st2 as [h2 lg2].
        destruct (Hy h0 lg0 x h2 lg2 I0 L0 Hst2) as [I2 [L2 [X2 A2]]]. cbn [fst] in *.
        destruct (IHr (h2, lg2) st1 Hr I2 ltac:(cbn; lia) G) as [I3 [L3 [X3 A3]]]. cbn [fst] in *.
        split; [exact I3|]. split; [lia|]. split; [eapply hext_trans; eauto|auto]. }
    destruct (K body (h1, lg ++ w) (h', lg') IHb W1 Lx H) as [I' [L' [X' A']]]. cbn [fst] in *.
    split; [exact I'|]. split; [lia|]. split; [eapply hext_trans; [exact (aor_hext _ _ _ _ _ _ _ L C)|exact X']|].
    intros Ed A. apply A'; [exact Ed|]. exact (aor_acyclic _ _ _ _ _ _ _ W A L Ed C).
  - cbn [apply_node] in H. bind_inv H as h1 Hd. inversion H; subst.
    unfold delete_entry in Hd. bind_inv Hd as c0 Hg. inversion Hd; subst.
    split; [now apply WF_upd_push_none|]. split; [rewrite upd_length; lia|].
    split; [apply hext_upd; intros c _; apply push_back_vext; auto|].
    intros _ A. apply acyclic_upd_keep; auto. intro c. destruct (push_back_fields d c name None) as [_ [_ [P _]]]. exact P.
  - cbn [apply_node] in H. bind_inv H as r1 Haor. destruct r1 as [h1 nav].
    destruct (aor_cases _ _ _ _ _ _ _ W L Haor) as [x [-> C]].
    destruct (aor_wf _ _ _ _ _ _ _ W L C) as [W1 [L1 [Lx _]]].
    bind_inv H as h2 Hv. inversion H; subst. rewrite (apply_value_spec v h1 x Lx) in Hv. inversion Hv; subst.
    split; [now apply WF_upd_value|]. split; [rewrite upd_length; lia|].
    split; [eapply hext_trans; [exact (aor_hext _ _ _ _ _ _ _ L C)|apply hext_upd; intros c _; apply vext_refl]|].
    intros Ed A. apply acyclic_upd_keep; auto. exact (aor_acyclic _ _ _ _ _ _ _ W A L Ed C).
  - cbn [apply_node] in H. bind_inv H as r1 Haor. destruct r1 as [h1 nav].
    destruct (aor_cases _ _ _ _ _ _ _ W L Haor) as [x [-> C]].
    destruct (aor_wf _ _ _ _ _ _ _ W L C) as [W1 [L1 [Lx _]]].
    bind_inv H as h2 Hv. rewrite (apply_value_spec v h1 x Lx) in Hv. inversion Hv; subst.
    bind_inv H as h3 Hai. inversion H; subst.
    assert (A2 : d_rebind_cycle d = false -> Acyclic h -> Acyclic (upd h1 x (set_value (eval_v v)))).
    { intros Ed A. apply acyclic_upd_keep; auto. exact (aor_acyclic _ _ _ _ _ _ _ W A L Ed C). }
    assert (X2 : hext h (upd h1 x (set_value (eval_v v)))).
    { eapply hext_trans; [exact (aor_hext _ _ _ _ _ _ _ L C)|apply hext_upd; intros c _; apply vext_refl]. }
    destruct (append_inherited_shape _ _ _ _ Hai) as [->|[x' [v' [_ ->]]]].
    + split; [now apply WF_upd_value|]. split; [rewrite upd_length; lia|]. split; [exact X2|exact A2].
    + split; [apply WF_upd_value; now apply WF_upd_value|]. split; [rewrite !upd_length; lia|].
      split; [eapply hext_trans; [exact X2|apply hext_upd; intros c _; apply vext_refl]|].
      intros Ed A. apply acyclic_upd_keep; auto.
Qed.

Lemma apply_nodes_inv : forall d l h lg p h' lg',
  WF h -> p < length h -> apply_nodes d (h, lg) (Some p) l = Ok (h', lg') ->
  WF h' /\ length h <= length h' /\ hext h h' /\ (d_rebind_cycle d = false -> Acyclic h -> Acyclic h').
Proof.
  intros d. induction l as [|x r IH]; intros h lg p h' lg' I L H; cbn in H.
  - inversion H; subst. split; auto. split; auto. split; [apply hext_refl|auto].
  - bind_inv H as st1 Hb. destruct st1 as [h1 lg1].
    destruct (apply_node_inv d x h lg p h1 lg1 I L Hb) as [I1 [L1 [X1 A1]]].
    destruct (IH h1 lg1 p h' lg' I1 ltac:(lia) H) as [I2 [L2 [X2 A2]]]. split; [exact I2|]. split; [lia|].
    split; [eapply hext_trans; eauto|auto].
Qed.

(* for every defect setting the host stays well-formed (no dangling ids) and own entries keep their
   positions; with the rebind guard the inherited-parent relation also stays acyclic *)
Lemma loads_inv : forall d ls h lg h' lg', WF h -> loads d (h, lg) ls = Ok (h', lg') ->
  WF h' /\ hext h h' /\ (d_rebind_cycle d = false -> Acyclic h -> Acyclic h').
Proof.
  intros d ls. induction ls as [|l r IH]; intros h lg h' lg' W H; cbn in H.
  - inversion H; subst. split; auto. split; [apply hext_refl|auto].
  - bind_inv H as st1 Hb. destruct st1 as [h1 lg1]. unfold load in Hb.
    destruct (apply_nodes_inv d l h lg 0 h1 lg1 W (wf_root h W) Hb) as [W1 [_ [X1 A1]]].
    destruct (IH h1 lg1 h' lg' W1 H) as [W2 [X2 A2]]. split; auto. split; [eapply hext_trans; eauto|auto].
Qed.
(* C15: every sequence of loads keeps the host well-formed and the inherited-parent relation acyclic *)
Lemma acyclic_preserved : forall d ls h lg h' lg', d_rebind_cycle d = false -> Inv h ->
  loads d (h, lg) ls = Ok (h', lg') -> Inv h'.
Proof.
  intros d ls h lg h' lg' Ed [W A] H. destruct (loads_inv d ls h lg h' lg' W H) as [W' [_ A']]. split; auto.
Qed.
(* C15: across any loads a class's own entries keep their positions (declaration order): count never
   shrinks, select i keeps answering the same entry unless it was deleted *)
Lemma declaration_order_stable : forall d ls h lg h' lg' k ck, WF h -> loads d (h, lg) ls = Ok (h', lg') ->
  nth_error h k = Some ck ->
  exists ck', nth_error h' k = Some ck' /\ length (c_vec ck) <= length (c_vec ck') /\
    forall i e, nth_error (c_vec ck) i = Some e ->
      nth_error (c_vec ck') i = Some e \/ nth_error (c_vec ck') i = Some None.
Proof.
  intros d ls h lg h' lg' k ck W H E. destruct (loads_inv d ls h lg h' lg' W H) as [_ [X _]].
  destruct (X k ck E) as [ck' [E' V]]. exists ck'. split; auto. split; [now apply vext_length|].
  intros i e Hi. eapply vext_nth; eauto.
Qed.

(* ------------------------------------------------------------------ *)
(* 8. what single statements do                                         *)

Definition no_marker (d : defects) (h : host) (p : nat) (t : str) : Prop :=
  d_deleted_reopen d = true -> forall cp, nth_error h p = Some cp -> mfind (c_map cp) t <> Some None.

Lemma aor_total_nobase : forall d h p t, WF h -> p < length h -> no_marker d h p t ->
  exists h1 nav, append_or_replace d h (Some p) t [] = Ok (h1, nav).
Proof.
  intros d h p t W L NM. unfold append_or_replace, get.
  destruct (nth_error h p) as [cp|] eqn:Ep; [|apply nth_error_None in Ep; lia]. cbn [bind].
  destruct (mfind (c_map cp) t) as [[rn|]|] eqn:Em.
  - destruct (wf_child h W p cp t rn Ep Em) as [cr [Er _]]. rewrite Er. eauto.
  - destruct (d_deleted_reopen d) eqn:Ed.
    + exfalso. exact (NM Ed cp Ep Em).
    + destruct (create_child_total d h p t [] W L) as [[h1 nav] E]. rewrite E. eauto.
  - destruct (create_child_total d h p t [] W L) as [[h1 nav] E]. rewrite E. eauto.
Qed.

(* with no base given, append_or_replace never touches an inherited-parent link of an existing container *)
Lemma aor_nobase_keeps : forall d h p t h1 x, WF h -> p < length h -> aor_case d h p t [] h1 x ->
  forall n c, nth_error h n = Some c ->
    exists c', nth_error h1 n = Some c' /\ c_pinh c' = c_pinh c /\ c_value c' = c_value c /\ c_plog c' = c_plog c /\
               c_name c' = c_name c /\ (n <> p -> c_map c' = c_map c /\ c_vec c' = c_vec c).
Proof.
  intros d h p t h1 x W L C n c En.
  destruct C as [b E Ex Vb Lb _|cp Ep Em Ei E|cp b Ep Em Ei Lb Vb E _|cp b Ep Em Ei Lb Ed R E]; subst; try congruence.
  - assert (Ln : n < length h) by (apply nth_error_Some; congruence).
    destruct (Nat.eq_dec n p) as [->|N].
    + exists (push_back d c t (Some (length h))). split; [now apply created_parent|].
      destruct (push_back_fields d c t (Some (length h))) as [A [B [C D]]]. repeat split; auto; contradiction.
    + exists c. rewrite created_old by auto. repeat split; auto.
  - exists c. repeat split; auto.
Qed.
Lemma aor_nobase_acyclic : forall d h p t h1 x, WF h -> Acyclic h -> p < length h -> aor_case d h p t [] h1 x -> Acyclic h1.
Proof.
  intros d h p t h1 x W A L C.
  destruct C as [b E Ex Vb Lb _|cp Ep Em Ei E|cp b Ep Em Ei Lb Vb E _|cp b Ep Em Ei Lb Ed R E]; subst; try congruence; auto.
  now apply created_acyclic.
Qed.

(* C15: a field statement makes the entry read back the value written *)
Lemma field_readback : forall d h lg p name v, WF h -> p < length h -> no_marker d h p name ->
  exists h' e ce, apply_node d (h, lg) (Some p) (NField name v) = Ok (h', lg) /\
    lookup_inh (fuel_of h') h' (Some p) name = Ok (Some e) /\
    nth_error h' e = Some ce /\ c_value ce = eval_v v /\ c_name ce = name /\ c_plog ce = Some p.
Proof.
  intros d h lg p name v W L NM.
  destruct (aor_total_nobase d h p name W L NM) as [h1 [nav E]].
  destruct (aor_cases _ _ _ _ _ _ _ W L E) as [x [-> C]].
  destruct (aor_wf _ _ _ _ _ _ _ W L C) as [W1 [L1 [Lx [cp' [cx [Ep [Em [Ex [Pl Nm]]]]]]]]].
  exists (upd h1 x (set_value (eval_v v))), x, (set_value (eval_v v) cx).
  cbn [apply_node]. rewrite E. cbn [bind]. rewrite (apply_value_spec v h1 x Lx). cbn [bind].
  split; [reflexivity|].
  assert (Npx : p <> x) by (pose proof (wf_plog h1 W1 x cx p Ex Pl); lia).
  split.
  - unfold fuel_of. cbn [lookup_inh]. rewrite nth_upd_other by exact Npx. rewrite Ep, Em. reflexivity.
  - split; [now apply nth_upd_same|]. cbn. auto.
Qed.

(* what the value observers return, in terms of the stored value *)
Lemma getters_spec : forall h e ce, nth_error h e = Some ce ->
  op_getNumber h (Some e) = Ok (match c_value ce with VNum z => z | _ => 0%Z end, []) /\
  op_getText h (Some e) = Ok (match c_value ce with VStr s => s | _ => [] end, []) /\
  op_getArray h (Some e) = Ok (match c_value ce with VArr l => l | _ => [] end, []) /\
  op_isNumber h (Some e) = Ok (is_num (c_value ce), []) /\
  op_isText h (Some e) = Ok (is_str (c_value ce), []) /\
  op_isArray h (Some e) = Ok (is_arr (c_value ce), []) /\
  op_isClass h (Some e) = Ok (class_like ce, []) /\
  op_configName h (Some e) = Ok (c_name ce, []) /\
  op_count h (Some e) = Ok (length (c_vec ce), []).
Proof.
  intros h e ce E. unfold op_getNumber, op_getText, op_getArray, op_isNumber, op_isText, op_isArray, op_isClass, op_is,
    op_configName, op_count, get. rewrite E. cbn. repeat split.
Qed.

(* C15: delete hides the entry - in the class itself and in a class deriving from it that does not declare the name *)
Lemma delete_hides : forall d h lg p name, WF h -> p < length h ->
  exists h', apply_node d (h, lg) (Some p) (NDelete name) = Ok (h', lg) /\
    lookup_inh (fuel_of h') h' (Some p) name = Ok None /\
    (forall q cq, nth_error h' q = Some cq -> c_pinh cq = Some p -> mfind (c_map cq) name = None ->
                  lookup_inh (fuel_of h') h' (Some q) name = Ok None).
Proof.
  intros d h lg p name W L.
  destruct (nth_error h p) as [cp|] eqn:Ep; [|apply nth_error_None in Ep; lia].
  exists (upd h p (fun c => push_back d c name None)).
  cbn [apply_node delete_entry]. unfold get. rewrite Ep. cbn [bind].
  split; [reflexivity|].
  assert (Hp : nth_error (upd h p (fun c => push_back d c name None)) p = Some (push_back d cp name None))
    by (apply (nth_upd_same h p (fun c => push_back d c name None) cp Ep)).
  assert (Hm : mfind (c_map (push_back d cp name None)) name = Some None) by (rewrite push_back_map; now rewrite eqs_refl).
  split.
  - unfold fuel_of. cbn [lookup_inh]. now rewrite Hp, Hm.
  - intros q cq Eq Pq Mq. unfold fuel_of. rewrite upd_length.
    destruct (length h) as [|k] eqn:Lh; [lia|]. cbn [lookup_inh]. now rewrite Eq, Mq, Pq, Hp, Hm.
Qed.

(* C15: re-opening a class merges: the existing container is returned, nothing is created or removed *)
Lemma reopen_merges : forall d h p cp name x, WF h -> nth_error h p = Some cp ->
  mfind (c_map cp) name = Some (Some x) -> append_or_replace d h (Some p) name [] = Ok (h, Some x).
Proof.
  intros d h p cp name x W Ep Em. unfold append_or_replace, get. rewrite Ep. cbn [bind]. rewrite Em.
  destruct (wf_child h W p cp name x Ep Em) as [cx [Ex _]]. now rewrite Ex.
Qed.

(* C15: a first declaration goes to the end of the class's own entries; count/select read that vector *)
Lemma first_declaration_appends : forall d h p cp name inh h' nav, WF h -> nth_error h p = Some cp ->
  mfind (c_map cp) name = None -> append_or_replace d h (Some p) name inh = Ok (h', nav) ->
  exists cp', nth_error h' p = Some cp' /\ c_vec cp' = c_vec cp ++ [Some (length h)] /\ nav = Some (length h).
Proof.
  intros d h p cp name inh h' nav W Ep Em H.
  assert (L : p < length h) by (apply nth_error_Some; congruence).
  unfold append_or_replace, get in H. rewrite Ep in H. cbn [bind] in H. rewrite Em in H.
  destruct (create_child_ok _ _ _ _ _ _ _ W L H) as [b [-> [-> _]]].
  exists (push_back d cp name (Some (length h))). split; [now apply created_parent|].
  split; [|reflexivity]. unfold push_back. now rewrite Em.
Qed.
Lemma select_spec : forall h n c i, nth_error h n = Some c -> (0 <= i < Z.of_nat (length (c_vec c)))%Z ->
  exists e, nth_error (c_vec c) (Z.to_nat i) = Some e /\ op_select h (Some n) i = Ok (e, []).
Proof.
  intros h n c i E [I0 I1]. unfold op_select, get. rewrite E. cbn [bind].
  destruct (i <? 0)%Z eqn:A; [apply Z.ltb_lt in A; lia|].
  destruct (Z.of_nat (length (c_vec c)) <=? i)%Z eqn:B; [apply Z.leb_le in B; lia|]. cbn [orb].
  destruct (nth_error (c_vec c) (Z.to_nat i)) as [e|] eqn:F; [eauto|].
  apply nth_error_None in F. lia.
Qed.

(* C15: inheritsFrom (repaired) returns the base class bound by the class statement *)
Lemma inheritsFrom_is_base : forall d h p name base h' x, WF h -> p < length h -> base <> [] ->
  d_inherits_logical d = false ->
  aor_case d h p name base h' x ->
  (exists b, lookup_log (S (fuel_of h)) h (Some p) base = Ok b /\
     (op_inheritsFrom d h' (Some x) = Ok (b, []) \/
      (* ... unless that base would have closed a cycle: then the class keeps the base it had *)
      (d_rebind_cycle d = false /\ reaches (fuel_of h) h b x = Ok true /\ h' = h))).
Proof.
  intros d h p name base h' x W L Nb Ed C.
  destruct C as [b E Ex Vb Lb _|cp Ep Em Ei E|cp b Ep Em Ei Lb Vb E _|cp b Ep Em Ei Lb Edr R E]; subst; try congruence.
  - exists b. destruct base as [|b0 base]; [congruence|]. split; [exact Lb|]. left.
    unfold op_inheritsFrom, get. rewrite (created_new d h p name b L). cbn. now rewrite Ed.
  - exists b. split; [apply lookup_log_fuel_mono with (f := fuel_of h); auto|]. left.
    destruct (wf_child h W p cp name x Ep Em) as [cx [Ex _]].
    unfold op_inheritsFrom, get. rewrite (nth_upd_same h x (set_pinh b) cx Ex). cbn. now rewrite Ed.
  - exists b. split; [apply lookup_log_fuel_mono with (f := fuel_of h); auto|]. right. auto.
Qed.

(* C15: configHierarchy (repaired) lists the enclosing classes from the root down to the class itself *)
Inductive Enclosing (h : host) : nat -> list nat -> Prop :=
| Encl_root : forall n c, nth_error h n = Some c -> c_plog c = None -> Enclosing h n [n]
| Encl_step : forall n c p l, nth_error h n = Some c -> c_plog c = Some p -> Enclosing h p l -> Enclosing h n (l ++ [n]).

Lemma encl_loop_spec : forall h n f, WF h -> n < length h -> n < f ->
  exists l, encl_loop f h (Some n) = Ok l /\ Enclosing h n (rev l).
Proof.
  intros h n. induction n as [n IH] using lt_wf_ind. intros f W L Lf.
  destruct f as [|f]; [lia|]. cbn [encl_loop]. unfold get.
  destruct (nth_error h n) as [c|] eqn:En; [|apply nth_error_None in En; lia]. cbn [bind].
  destruct (c_plog c) as [p|] eqn:Ep.
  - pose proof (wf_plog h W n c p En Ep) as Lp.
    destruct (IH p Lp f W ltac:(lia) ltac:(lia)) as [l [E1 E2]]. rewrite E1. cbn [bind].
    exists (n :: l). split; [reflexivity|]. cbn [rev]. eapply Encl_step; eauto.
  - destruct f; cbn; exists [n]; (split; [reflexivity|]); cbn; eapply Encl_root; eauto.
Qed.
Lemma hierarchy_spec : forall d h n, WF h -> n < length h -> d_hierarchy_shape d = false ->
  exists l, op_hierarchy d h (Some n) = Ok (HConfigs l, []) /\ Enclosing h n l.
Proof.
  intros d h n W L Ed. unfold op_hierarchy. rewrite Ed.
  destruct (encl_loop_spec h n (fuel_of h) W L ltac:(unfold fuel_of; lia)) as [l [E1 E2]].
  rewrite E1. cbn. eauto.
Qed.

(* ------------------------------------------------------------------ *)
(* 9. += : the inherited array is prepended                             *)

Lemma not_reachable_from_base : forall p x b, Terminating p -> p x = Some b -> forall k, hits k p b x = false.
Proof.
  intros p x b T Px k. destruct (hits k p b x) eqn:H; [|reflexivity]. exfalso.
  destruct (hits_iter _ _ _ _ H) as [j [_ Ej]].
  apply (cyclic_not_terminating p); [|exact T]. exists x, j. cbn. now rewrite Px.
Qed.
Lemma nearest_definer : forall h t b r, Nearest h t b r -> forall e, r = Some e ->
  exists a ca k, hits k (inh_of h) b a = true /\ nth_error h a = Some ca /\ mfind (c_map ca) t = Some (Some e).
Proof.
  intros h t b r N. induction N as [n c e0 Hn Hm|n c b' r Hn Hm Hp Hb IH|n c Hn Hm Hp]; intros e E; subst.
  - exists n, c, 0. split; [apply hits_self|auto].
  - destruct (IH e eq_refl) as [a [ca [k [H1 [H2 H3]]]]]. exists a, ca, (S k). split; [|auto].
    cbn. destruct (Nat.eqb n a); [reflexivity|]. unfold inh_of at 1. now rewrite Hn, Hp.
  - discriminate.
Qed.
(* a lookup that starts at b and cannot reach p does not notice changes confined to p (and to values) *)
Lemma nearest_frame : forall h h2 t p,
  (forall n c, n <> p -> nth_error h n = Some c ->
     exists c', nth_error h2 n = Some c' /\ c_map c' = c_map c /\ c_pinh c' = c_pinh c) ->
  forall b r, Nearest h t b r -> (forall k, hits k (inh_of h) b p = false) -> Nearest h2 t b r.
Proof.
  intros h h2 t p F b r N. induction N as [n c e0 Hn Hm|n c b' r Hn Hm Hp Hb IH|n c Hn Hm Hp]; intros NR.
  - assert (Np : n <> p) by (intro E; subst; specialize (NR 0); rewrite hits_self in NR; discriminate).
    destruct (F n c Np Hn) as [c' [A [B C]]]. eapply Near_here; eauto. congruence.
  - assert (Np : n <> p) by (intro E; subst; specialize (NR 0); rewrite hits_self in NR; discriminate).
    destruct (F n c Np Hn) as [c' [A [B C]]]. apply (Near_base h2 t n c' b' r A); try congruence.
    apply IH. intro k. specialize (NR (S k)). cbn in NR. destruct (Nat.eqb_spec n p); [contradiction|].
    unfold inh_of in NR at 1. now rewrite Hn, Hp in NR.
  - assert (Np : n <> p) by (intro E; subst; specialize (NR 0); rewrite hits_self in NR; discriminate).
    destruct (F n c Np Hn) as [c' [A [B C]]]. eapply Near_none; eauto; congruence.
Qed.

Lemma append_inherited_total : forall h2 p x name cp cx, Inv h2 ->
  nth_error h2 p = Some cp -> nth_error h2 x = Some cx -> c_plog cx = Some p ->
  exists h3, append_inherited h2 (Some x) name = Ok h3 /\
    (h3 = h2 \/ exists v, h3 = upd h2 x (set_value v)) /\
    (forall b e0 c0 a0 self, c_pinh cp = Some b -> Nearest h2 name b (Some e0) -> nth_error h2 e0 = Some c0 ->
        c_value c0 = VArr a0 -> c_value cx = VArr self -> h3 = upd h2 x (set_value (VArr (a0 ++ self)))).
Proof.
  intros h2 p x name cp cx [W A] Ep Ex Pl.
  unfold append_inherited, parent_logical, parent_inherited, get. rewrite Ex. cbn [bind]. rewrite Pl, Ep. cbn [bind].
  destruct (c_pinh cp) as [b|] eqn:Pi.
  2:{ exists h2. split; [unfold fuel_of; reflexivity|]. split; [left; reflexivity|]. intros b e0 c0 a0 self Hx. discriminate Hx. }
  assert (Lb : b < length h2) by (exact (wf_pinh h2 W p cp b Ep Pi)).
  destruct (lookup_terminates_under_acyclic h2 b name W A Lb) as [r [Hr Nr]]. rewrite Hr. cbn [bind].
  destruct r as [en|].
  2:{ exists h2. split; [reflexivity|]. split; [auto|]. intros b' e0 c0 a0 self Eb N0. inversion Eb; subst.
      pose proof (nearest_deterministic _ _ _ _ _ Nr N0). discriminate. }
  destruct (nearest_definer _ _ _ _ Nr en eq_refl) as [a [ca [k [Hk [Ea Ma]]]]].
  destruct (wf_child h2 W a ca name en Ea Ma) as [ce [Ee [Pe _]]].
  assert (Nx : x <> en).
  { intro E. subst en. assert (a = p) by congruence. subst a.
    assert (IP : inh_of h2 p = Some b) by (unfold inh_of; now rewrite Ep).
    pose proof (not_reachable_from_base _ _ _ A IP k). congruence. }
  rewrite Ee. cbn [bind].
  assert (Spec : forall h3, (match c_value cx, c_value ce with
                             | VArr self, VArr inhv => h3 = upd h2 x (set_value (VArr (inhv ++ self)))
                             | _, _ => h3 = h2 end) ->
     forall b' e0 c0 a0 self, Some b = Some b' -> Nearest h2 name b' (Some e0) -> nth_error h2 e0 = Some c0 ->
        c_value c0 = VArr a0 -> c_value cx = VArr self -> h3 = upd h2 x (set_value (VArr (a0 ++ self)))).
  { intros h3 H3 b' e0 c0 a0 self Eb N0 E0 V0 Vx. inversion Eb; subst b'.
    pose proof (nearest_deterministic _ _ _ _ _ Nr N0) as En. inversion En; subst e0.
    assert (c0 = ce) by congruence. subst c0. rewrite Vx, V0 in H3. exact H3. }
  destruct (c_value cx) as [|z|s|self] eqn:Vx;
    try (exists h2; split; [reflexivity|]; split; [auto|]; apply Spec; reflexivity).
  destruct (c_value ce) as [|z|s|inhv] eqn:Ve;
    try (exists h2; split; [reflexivity|]; split; [auto|]; apply Spec; reflexivity).
  destruct (Nat.eqb_spec x en); [contradiction|].
  exists (upd h2 x (set_value (VArr (inhv ++ self)))). split; [reflexivity|]. split; [eauto|]. apply Spec. reflexivity.
Qed.

(* C15: `name[] += {vs}` in a class whose base chain yields an array entry: the entry reads inherited ++ vs *)
Lemma append_appends_inherited : forall d h lg p name vs cp b e0 c0 a0, Inv h -> p < length h -> no_marker d h p name ->
  nth_error h p = Some cp -> c_pinh cp = Some b ->
  Nearest h name b (Some e0) -> nth_error h e0 = Some c0 -> c_value c0 = VArr a0 ->
  exists h' e ce, apply_node d (h, lg) (Some p) (NAppend name (NArr vs)) = Ok (h', lg) /\
    lookup_inh (fuel_of h') h' (Some p) name = Ok (Some e) /\ nth_error h' e = Some ce /\
    c_value ce = VArr (a0 ++ map eval_v vs).
Proof.
  intros d h lg p name vs cp b e0 c0 a0 [W A] L NM Ep Pi N0 E0 V0.
  destruct (aor_total_nobase d h p name W L NM) as [h1 [nav E]].
  destruct (aor_cases _ _ _ _ _ _ _ W L E) as [x [-> C]].
  destruct (aor_wf _ _ _ _ _ _ _ W L C) as [W1 [L1 [Lx [cp' [cx [Ep1 [Em1 [Ex1 [Pl Nm]]]]]]]]].
  pose proof (aor_nobase_acyclic _ _ _ _ _ _ W A L C) as A1.
  pose proof (aor_nobase_keeps _ _ _ _ _ _ W L C) as Keep.
  set (own := VArr (map eval_v vs)).
  set (h2 := upd h1 x (set_value own)).
  assert (I2 : Inv h2) by (apply set_value_inv; split; auto).
  assert (Npx : p <> x) by (pose proof (wf_plog h1 W1 x cx p Ex1 Pl); lia).
  assert (Ep2 : nth_error h2 p = Some cp') by (unfold h2; now rewrite nth_upd_other).
  assert (Ex2 : nth_error h2 x = Some (set_value own cx)) by (unfold h2; now apply nth_upd_same).
  destruct (Keep p cp Ep) as [cp1 [Ep1' [Pi1 _]]]. assert (cp1 = cp') by congruence. subst cp1.
  assert (Pi2 : c_pinh cp' = Some b) by congruence.
  destruct (append_inherited_total h2 p x name cp' (set_value own cx) I2 Ep2 Ex2 Pl) as [h3 [H3 [_ Spec]]].
  (* the inherited entry is still found from b, and is not the entry being written *)
  assert (NR : forall k, hits k (inh_of h) b p = false).
  { apply not_reachable_from_base; auto. unfold inh_of. now rewrite Ep. }
  assert (N2 : Nearest h2 name b (Some e0)).
  { apply (nearest_frame h h2 name p); auto. intros n c Nn En.
    destruct (Keep n c En) as [c1 [En1 [P1 [_ [_ [_ M1]]]]]]. destruct (M1 Nn) as [M1a _].
    unfold h2. rewrite nth_upd. destruct (Nat.eqb n x); rewrite En1; cbn; eauto. }
  assert (Le0 : e0 < length h) by (apply nth_error_Some; congruence).
  destruct (Keep e0 c0 E0) as [c01 [E01 [_ [V01 _]]]].
  (* e0 <> x: x is either new, or the entry of p under this name, which b's chain cannot reach *)
  assert (Ne : e0 <> x).
  { intro Ee. subst e0.
    destruct (nearest_definer _ _ _ _ N0 x eq_refl) as [a [ca [k [Hk [Ea Ma]]]]].
    destruct (wf_child h W a ca name x Ea Ma) as [cx0 [Ex0 [Px0 _]]].
    destruct (Keep x cx0 Ex0) as [cx1 [Ex1' [_ [_ [Pl1 _]]]]].
    assert (a = p) by congruence. subst a. rewrite NR in Hk. discriminate. }
  assert (E02 : nth_error h2 e0 = Some c01) by (unfold h2; now rewrite nth_upd_other).
  assert (V02 : c_value c01 = VArr a0) by congruence.
  pose proof (Spec b e0 c01 a0 (map eval_v vs) Pi2 N2 E02 V02 eq_refl) as R3.
  exists h3, x, (set_value (VArr (a0 ++ map eval_v vs)) (set_value own cx)).
  cbn [apply_node]. rewrite E. cbn [bind]. rewrite (apply_value_spec (NArr vs) h1 x Lx). cbn [bind eval_v].
  fold own. fold h2. rewrite H3. cbn [bind]. split; [reflexivity|]. subst h3.
  split.
  - unfold fuel_of. cbn [lookup_inh]. rewrite nth_upd_other by exact Npx. rewrite Ep2, Em1. reflexivity.
  - split; [now apply nth_upd_same|reflexivity].
Qed.

(* ------------------------------------------------------------------ *)
(* 10. with the repairs, loading never faults and never hangs           *)

Definition safe_setting (d : defects) : Prop := d_rebind_cycle d = false /\ d_deleted_reopen d = false.

Lemma aor_total : forall d h p t inh, safe_setting d -> Inv h -> p < length h ->
  exists r, append_or_replace d h (Some p) t inh = Ok r.
Proof.
  intros d h p t inh [Ed Edel] [W A] L. unfold append_or_replace, get.
  destruct (nth_error h p) as [cp|] eqn:Ep; [|apply nth_error_None in Ep; lia]. cbn [bind].
  destruct (mfind (c_map cp) t) as [[rn|]|] eqn:Em.
  - destruct (wf_child h W p cp t rn Ep Em) as [cr [Er _]]. rewrite Er.
    destruct inh as [|i0 inh]; [eauto|].
    destruct (lookup_log_total h (i0 :: inh) p (fuel_of h) W L ltac:(unfold fuel_of; lia)) as [b Hb].
    rewrite Hb. cbn [bind]. rewrite Ed.
    assert (R : exists c, reaches (fuel_of h) h b rn = Ok c).
    { destruct b as [bb|]; [|unfold fuel_of; cbn; eauto].
      assert (Lb : bb < length h) by (eapply lookup_log_valid; eauto).
      destruct (A bb) as [k Ek]. pose proof (ends_bound _ _ _ _ (wf_in_range h W) Ek) as E.
      now apply reaches_total. }
    destruct R as [c Hc]. rewrite Hc. cbn [bind]. destruct c; eauto.
  - rewrite Edel. now apply create_child_total.
  - now apply create_child_total.
Qed.

Definition total_at (d : defects) (n : node) : Prop :=
  forall h lg p, Inv h -> p < length h -> exists st', apply_node d (h, lg) (Some p) n = Ok st'.

Lemma apply_node_total : forall d, safe_setting d -> forall n, total_at d n.
Proof.
  intros d S. pose proof S as [Ed Edel].
  induction n as [name base body IHb|name|name v|name v] using node_ind'; intros h lg p [W A] L.
  - cbn [apply_node].
    assert (Hw : exists wanted, (match base with [] => Ok None | _ => lookup_log (fuel_of h) h (Some p) base end) = Ok wanted).
    { destruct base as [|b0 base]; [eauto|]. apply lookup_log_total; auto. unfold fuel_of. lia. }
    destruct Hw as [wanted Hw]. rewrite Hw. cbn [bind].
    destruct (aor_total d h p name base S (conj W A) L) as [[h1 nav] E]. rewrite E. cbn [bind].
    destruct (aor_cases _ _ _ _ _ _ _ W L E) as [x [-> C]].
    destruct (aor_wf _ _ _ _ _ _ _ W L C) as [W1 [L1 [Lx [cp' [cx [_ [_ [Ex _]]]]]]]].
    pose proof (aor_acyclic _ _ _ _ _ _ _ W A L Ed C) as A1.
    assert (Hl : exists w, (match base with [] => Ok [] | _ => class_ext_log d wanted h1 (Some x) end) = Ok w).
    { destruct base as [|b0 base]; [eauto|]. unfold class_ext_log, parent_inherited, get. rewrite Ex. cbn [bind].
      rewrite Ed. eauto. }
    destruct Hl as [w Hl]. rewrite Hl. cbn [bind].
    assert (K : forall l st0, Forall (total_at d) l -> Inv (fst st0) -> x < length (fst st0) ->
              exists st1, (fix go (st : lstate) (l : list node) {struct l} : res lstate :=
                 match l with [] => Ok st | y :: r => st1 <- apply_node d st (Some x) y;; go st1 r end) st0 l = Ok st1).
    { induction l as [|y r IHr]; intros st0 F I0 L0; [eauto|].
      inversion F as [|y' r' Hy Hr]; subst. destruct st0 as [h0 lg0]. cbn [fst] in *.
      destruct (Hy h0 lg0 x I0 L0) as [[h2 lg2] E2]. rewrite E2. cbn [bind].
      destruct I0 as [W0 A0].
      destruct (apply_node_inv d y h0 lg0 x h2 lg2 W0 L0 E2) as [W2 [L2 [_ A2]]].
      apply IHr; auto; cbn [fst]; [split; auto|lia]. }
    apply K; auto. split; auto.
  - cbn [apply_node delete_entry]. unfold get.
    destruct (nth_error h p) eqn:Ep; [cbn; eauto|apply nth_error_None in Ep; lia].
  - destruct (field_readback d h lg p name v W L) as [h' [e [ce [E _]]]]; [intros E0; congruence|eauto].
  - cbn [apply_node].
    destruct (aor_total d h p name [] S (conj W A) L) as [[h1 nav] E]. rewrite E. cbn [bind].
    destruct (aor_cases _ _ _ _ _ _ _ W L E) as [x [-> C]].
    destruct (aor_wf _ _ _ _ _ _ _ W L C) as [W1 [L1 [Lx [cp' [cx [Ep [_ [Ex [Pl _]]]]]]]]].
    pose proof (aor_acyclic _ _ _ _ _ _ _ W A L Ed C) as A1.
    rewrite (apply_value_spec v h1 x Lx). cbn [bind].
    assert (Npx : p <> x) by (pose proof (wf_plog h1 W1 x cx p Ex Pl); lia).
    set (h2 := upd h1 x (set_value (eval_v v))).
    assert (I2 : Inv h2) by (apply set_value_inv; split; auto).
    assert (Ep2 : nth_error h2 p = Some cp') by (unfold h2; now rewrite nth_upd_other).
    assert (Ex2 : nth_error h2 x = Some (set_value (eval_v v) cx)) by (unfold h2; now apply nth_upd_same).
    destruct (append_inherited_total h2 p x name cp' _ I2 Ep2 Ex2 Pl) as [h3 [H3 _]]. rewrite H3. cbn [bind]. eauto.
Qed.

Lemma apply_nodes_total : forall d, safe_setting d -> forall l h lg p, Inv h -> p < length h ->
  exists st', apply_nodes d (h, lg) (Some p) l = Ok st'.
Proof.
  intros d S. induction l as [|x r IH]; intros h lg p I L; cbn; [eauto|].
  destruct (apply_node_total d S x h lg p I L) as [[h1 lg1] E]. rewrite E. cbn [bind].
  destruct I as [W A]. destruct S as [Ed Edel].
  destruct (apply_node_inv d x h lg p h1 lg1 W L E) as [W1 [L1 [_ A1]]].
  apply IH; [split; auto|lia].
Qed.

(* C15: with the repairs every sequence of loads returns (no fault, no divergence) *)
Lemma loads_total : forall d, safe_setting d -> forall ls h lg, Inv h -> exists st', loads d (h, lg) ls = Ok st'.
Proof.
  intros d S ls. induction ls as [|l r IH]; intros h lg I; cbn; [eauto|].
  destruct I as [W A]. unfold load.
  destruct (apply_nodes_total d S l h lg 0 (conj W A) (wf_root h W)) as [[h1 lg1] E]. rewrite E. cbn [bind].
  destruct S as [Ed Edel].
  destruct (apply_nodes_inv d l h lg 0 h1 lg1 W (wf_root h W) E) as [W1 [_ [_ A1]]].
  apply IH. split; auto.
Qed.

(* ------------------------------------------------------------------ *)
(* 11. the observing operators return on every well-formed acyclic host *)

Lemma path_loop_total : forall h n f, WF h -> n < length h -> n < f -> exists l, path_loop f h n = Ok l.
Proof.
  intros h n. induction n as [n IH] using lt_wf_ind. intros f W L Lf.
  destruct f as [|f]; [lia|]. cbn [path_loop]. unfold get.
  destruct (nth_error h n) as [c|] eqn:En; [|apply nth_error_None in En; lia]. cbn [bind].
  destruct (c_plog c) as [p|] eqn:Ep; [|eauto].
  pose proof (wf_plog h W n c p En Ep) as Lp.
  destruct (IH p Lp f W ltac:(lia) ltac:(lia)) as [l E]. rewrite E. cbn. eauto.
Qed.
Lemma message_path_total : forall h n, WF h -> n < length h -> exists l, message_path h n = Ok l.
Proof.
  intros h n W L. unfold message_path, get.
  destruct (nth_error h n) as [c|] eqn:En; [|apply nth_error_None in En; lia]. cbn [bind].
  destruct (path_loop_total h n (fuel_of h) W L ltac:(unfold fuel_of; lia)) as [l E]. rewrite E. cbn. eauto.
Qed.
Lemma nearest_valid : forall h t n r, WF h -> Nearest h t n r -> valid h r.
Proof.
  intros h t n r W N. induction N as [n c e Hn Hm|n c b r Hn Hm Hp Hb IH|n c Hn Hm Hp]; auto; [|exact I].
  destruct e as [e|]; [|exact I]. destruct (wf_child h W n c t e Hn Hm) as [ce [A _]]. cbn. apply nth_error_Some. congruence.
Qed.
Lemma op_lookup_total : forall h c t, Inv h -> valid h c -> exists r w, op_lookup h c t = Ok (r, w) /\ valid h r.
Proof.
  intros h c t [W A] V. destruct c as [n|]; [|cbn; exists None, [W_NONNULL]; split; [reflexivity|exact I]].
  cbn in V. unfold op_lookup.
  destruct (lookup_terminates_under_acyclic h n t W A V) as [r [Hr Nr]]. rewrite Hr. cbn [bind].
  pose proof (nearest_valid _ _ _ _ W Nr) as Vr.
  destruct r as [e|].
  - cbn in Vr. unfold get. destruct (nth_error h e) eqn:Ee; [|apply nth_error_None in Ee; lia]. cbn. eauto.
  - destruct (message_path_total h n W V) as [l E]. rewrite E. cbn. exists None, [W_NOTFOUND]. split; [reflexivity|exact I].
Qed.
(* C15: every lookup path, existing or not, evaluates (no fault, no divergence) on a well-formed acyclic host *)
Lemma op_path_total : forall h p c, Inv h -> valid h c -> exists r w, op_path h c p = Ok (r, w) /\ valid h r.
Proof.
  intros h p. induction p as [|t p IH]; intros c I V; cbn [op_path].
  - exists c, []. auto.
  - destruct (op_lookup_total h c t I V) as [r1 [w1 [E1 V1]]]. rewrite E1. cbn [bind].
    destruct (IH r1 I V1) as [r2 [w2 [E2 V2]]]. rewrite E2. cbn [bind]. eauto.
Qed.
Lemma op_select_total : forall h n i, WF h -> n < length h -> exists r w, op_select h (Some n) i = Ok (r, w) /\ valid h r.
Proof.
  intros h n i W L. unfold op_select, get.
  destruct (nth_error h n) as [c|] eqn:En; [|apply nth_error_None in En; lia]. cbn [bind].
  destruct ((i <? 0)%Z || (Z.of_nat (length (c_vec c)) <=? i)%Z) eqn:B.
  - exists None, [W_INDEX]. split; [reflexivity|exact I].
  - apply orb_false_iff in B. destruct B as [B1 B2]. apply Z.ltb_ge in B1. apply Z.leb_gt in B2.
    destruct (nth_error (c_vec c) (Z.to_nat i)) as [e|] eqn:F; [|apply nth_error_None in F; lia].
    exists e, []. split; [reflexivity|]. destruct e as [e|]; [|exact I]. cbn. eapply wf_vec; eauto.
    eapply nth_error_In; eauto.
Qed.

(* ------------------------------------------------------------------ *)
(* 12. the code before the repairs: witnesses                           *)

Local Open Scope Z_scope.
Definition nA : str := [65]. Definition nB : str := [66]. Definition nx : str := [120].
Definition nBase : str := [66;97;115;101]. Definition nDerived : str := [68;101;114;105;118;101;100].
(* class A {}; class B : A {}; class A : B {}; *)
Definition cycle_witness : list (list node) := [[NClass nA [] []; NClass nB nA []; NClass nA nB []]].
Local Close Scope Z_scope.

Definition cycle_host : host :=
  Eval vm_compute in match loads original (init_host, []) cycle_witness with Ok (h, _) => h | _ => [] end.

Lemma acyclic_preserved_refuted : loads original (init_host, []) cycle_witness = Ok (cycle_host, []) /\
  Inv init_host /\ ~ Acyclic cycle_host /\ (forall f, lookup_inh f cycle_host (Some 1) nx = OutOfFuel).
Proof.
  split; [vm_compute; reflexivity|]. split; [split; [apply init_wf|apply init_acyclic]|].
  assert (C : Cyclic (inh_of cycle_host)) by (exists 1, 1; vm_compute; reflexivity).
  split; [intro A; exact (cyclic_not_terminating _ C A)|].
  assert (K : forall f, lookup_inh f cycle_host (Some 1) nx = OutOfFuel /\ lookup_inh f cycle_host (Some 2) nx = OutOfFuel).
  { induction f as [|f [IH1 IH2]]; [split; reflexivity|]. split.
    - unfold cycle_host in *. cbn [lookup_inh nth_error c_map mfind c_pinh]. exact IH2.
    - unfold cycle_host in *. cbn [lookup_inh nth_error c_map mfind c_pinh]. exact IH1. }
  intro f. apply (K f).
Qed.

Definition inh_witness : list (list node) := [[NClass nBase [] []; NClass nDerived nBase []]].
Definition inh_host : host :=
  Eval vm_compute in match loads original (init_host, []) inh_witness with Ok (h, _) => h | _ => [] end.
(* class Base {}; class Derived : Base {};  inheritsFrom (configFile >> "Derived") is configFile, not Base *)
Lemma inheritsFrom_refuted :
  loads original (init_host, []) inh_witness = Ok (inh_host, []) /\
  op_path inh_host (Some 0) [nDerived] = Ok (Some 2, []) /\ op_path inh_host (Some 0) [nBase] = Ok (Some 1, []) /\
  parent_inherited inh_host (Some 2) = Ok (Some 1) /\
  op_inheritsFrom original inh_host (Some 2) = Ok (Some 0, []).
Proof. repeat split; vm_compute; reflexivity. Qed.

Definition hier_witness : list (list node) := [[NClass nA [] [NClass nB [] []]]].
Definition hier_host : host :=
  Eval vm_compute in match loads original (init_host, []) hier_witness with Ok (h, _) => h | _ => [] end.
(* class A { class B {}; };  configHierarchy (configFile >> "A" >> "B") is ["A","B","B"] *)
Lemma hierarchy_refuted :
  loads original (init_host, []) hier_witness = Ok (hier_host, []) /\
  op_path hier_host (Some 0) [nA; nB] = Ok (Some 2, []) /\
  Enclosing hier_host 2 [0; 1; 2] /\
  op_hierarchy original hier_host (Some 2) = Ok (HNames [nA; nB; nB], []).
Proof.
  split; [vm_compute; reflexivity|]. split; [vm_compute; reflexivity|]. split; [|vm_compute; reflexivity].
  change [0; 1; 2] with ([0; 1] ++ [2]).
  eapply Encl_step with (p := 1); [reflexivity|reflexivity|].
  change [0; 1] with ([0] ++ [1]).
  eapply Encl_step with (p := 0); [reflexivity|reflexivity|].
  eapply Encl_root; reflexivity.
Qed.

Lemma redefine_after_delete_refuted :
  loads original (init_host, []) [[NClass nA [] [NField nx (NNum 1); NDelete nx; NField nx (NNum 2)]]] = UB DeletedDeref.
Proof. vm_compute. reflexivity. Qed.

(* ------------------------------------------------------------------ *)
(* 13. statements of Properties_C15.v that combine the lemmas above     *)

Lemma p15_field_readback : forall d h lg p name v, WF h -> p < length h -> no_marker d h p name ->
  exists h' e ce, apply_node d (h, lg) (Some p) (NField name v) = Ok (h', lg) /\
    lookup_inh (fuel_of h') h' (Some p) name = Ok (Some e) /\
    nth_error h' e = Some ce /\ c_name ce = name /\ c_plog ce = Some p /\
    op_getNumber h' (Some e) = Ok (match v with NNum z => z | _ => 0%Z end, []) /\
    op_getText h' (Some e) = Ok (match v with NStr s => s | _ => [] end, []) /\
    op_getArray h' (Some e) = Ok (match v with NArr l => map eval_v l | _ => [] end, []) /\
    op_isNumber h' (Some e) = Ok (match v with NNum _ => true | _ => false end, []) /\
    op_isText h' (Some e) = Ok (match v with NStr _ => true | _ => false end, []) /\
    op_isArray h' (Some e) = Ok (match v with NArr _ => true | _ => false end, []).
Proof.
  intros d h lg p name v W L NM.
  destruct (field_readback d h lg p name v W L NM) as [h' [e [ce [E [Lk [Ee [V [Nm Pl]]]]]]]].
  exists h', e, ce. destruct (getters_spec h' e ce Ee) as [G1 [G2 [G3 [G4 [G5 [G6 _]]]]]].
  rewrite V in *. repeat split; auto; destruct v; assumption.
Qed.

Lemma p15_acyclic_iff_no_cycle : forall h, WF h -> (Acyclic h <-> ~ Cyclic (inh_of h)).
Proof. intros h W. apply (terminating_iff_not_cyclic (inh_of h) (length h)). now apply wf_in_range. Qed.

Lemma p15_loads_and_lookups_total : forall ls, exists h lg,
  loads as_is (init_host, []) ls = Ok (h, lg) /\ WF h /\ Acyclic h /\
  forall path, exists c w, op_path h (Some 0) path = Ok (c, w).
Proof.
  intros ls.
  assert (S : safe_setting as_is) by (split; reflexivity).
  destruct (loads_total as_is S ls init_host [] (conj init_wf init_acyclic)) as [[h lg] E].
  pose proof (acyclic_preserved as_is ls init_host [] h lg eq_refl (conj init_wf init_acyclic) E) as [W A].
  exists h, lg. split; [exact E|]. split; [exact W|]. split; [exact A|].
  intro path. destruct (op_path_total h path (Some 0) (conj W A) (wf_root h W)) as [c [w [E2 _]]]. eauto.
Qed.

Lemma p15_count_select_declaration_order : forall d h p cp name inh h' nav, WF h -> nth_error h p = Some cp ->
  mfind (c_map cp) name = None -> append_or_replace d h (Some p) name inh = Ok (h', nav) ->
  exists cp', nth_error h' p = Some cp' /\ c_vec cp' = c_vec cp ++ [nav] /\ nav = Some (length h) /\
    op_count h' (Some p) = Ok (S (length (c_vec cp)), []) /\
    op_select h' (Some p) (Z.of_nat (length (c_vec cp))) = Ok (nav, []) /\
    (forall i, (0 <= i < Z.of_nat (length (c_vec cp)))%Z -> op_select h' (Some p) i = op_select h (Some p) i).
Proof.
  intros d h p cp name inh h' nav W Ep Em H.
  destruct (first_declaration_appends d h p cp name inh h' nav W Ep Em H) as [cp' [Ep' [V ->]]].
  exists cp'. split; [exact Ep'|]. split; [exact V|]. split; [reflexivity|].
  unfold op_count, op_select, get. rewrite Ep', Ep. cbn [bind]. rewrite V, app_length. cbn [length].
  split; [f_equal; f_equal; lia|]. split.
  - destruct (Z.of_nat (length (c_vec cp)) <? 0)%Z eqn:A; [apply Z.ltb_lt in A; lia|].
    destruct (Z.of_nat (length (c_vec cp) + 1) <=? Z.of_nat (length (c_vec cp)))%Z eqn:B; [apply Z.leb_le in B; lia|].
    cbn [orb]. rewrite Nat2Z.id. rewrite nth_error_app2 by lia. now rewrite PeanoNat.Nat.sub_diag.
  - intros i [I0 I1].
    destruct (i <? 0)%Z eqn:A; [apply Z.ltb_lt in A; lia|].
    destruct (Z.of_nat (length (c_vec cp) + 1) <=? i)%Z eqn:B; [apply Z.leb_le in B; lia|].
    destruct (Z.of_nat (length (c_vec cp)) <=? i)%Z eqn:C; [apply Z.leb_le in C; lia|].
    cbn [orb]. rewrite nth_error_app1 by lia. reflexivity.
Qed.

Lemma p15_append_appends_inherited : forall d h lg p name vs cp b e0 c0 a0,
  WF h -> Acyclic h -> p < length h -> no_marker d h p name ->
  nth_error h p = Some cp -> c_pinh cp = Some b ->
  Nearest h name b (Some e0) -> nth_error h e0 = Some c0 -> c_value c0 = VArr a0 ->
  exists h' e, apply_node d (h, lg) (Some p) (NAppend name (NArr vs)) = Ok (h', lg) /\
    lookup_inh (fuel_of h') h' (Some p) name = Ok (Some e) /\
    op_getArray h' (Some e) = Ok (a0 ++ map eval_v vs, []).
Proof.
  intros d h lg p name vs cp b e0 c0 a0 W A L NM Ep Pi N0 E0 V0.
  destruct (append_appends_inherited d h lg p name vs cp b e0 c0 a0 (conj W A) L NM Ep Pi N0 E0 V0)
    as [h' [e [ce [E [Lk [Ee V]]]]]].
  exists h', e. split; [exact E|]. split; [exact Lk|].
  destruct (getters_spec h' e ce Ee) as [_ [_ [G _]]]. now rewrite V in G.
Qed.

Lemma p15_inheritsFrom_is_base : forall d h p name base h' nav, WF h -> p < length h -> base <> [] ->
  d_inherits_logical d = false ->
  append_or_replace d h (Some p) name base = Ok (h', nav) ->
  exists x b, nav = Some x /\ lookup_log (S (fuel_of h)) h (Some p) base = Ok b /\
     (op_inheritsFrom d h' (Some x) = Ok (b, []) \/
      (d_rebind_cycle d = false /\ reaches (fuel_of h) h b x = Ok true /\ h' = h)).
Proof.
  intros d h p name base h' nav W L Nb Ed H.
  destruct (aor_cases _ _ _ _ _ _ _ W L H) as [x [-> C]].
  destruct (inheritsFrom_is_base d h p name base h' x W L Nb Ed C) as [b [Hb R]]. eauto.
Qed.

(* ------------------------------------------------------------------ *)
(* 14. the lookup specification in chain form                           *)

(* the inheritance chain of a class: the class, its base, the base's base, ... *)
Inductive Chain (h : host) : nat -> list nat -> Prop :=
| Chain_end : forall n c, nth_error h n = Some c -> c_pinh c = None -> Chain h n [n]
| Chain_cons : forall n c b l, nth_error h n = Some c -> c_pinh c = Some b -> Chain h b l -> Chain h n (n :: l).
(* the own entry of class k under name t: None = not declared, Some None = delete marker, Some (Some e) = entry e *)
Definition own (h : host) (k : nat) (t : str) : option cid :=
  match nth_error h k with Some c => mfind (c_map c) t | None => None end.
(* r is what the first class of the chain that declares t says - nothing if none does *)
Definition first_declared (h : host) (t : str) (l : list nat) (r : cid) : Prop :=
  (exists pre k post, l = pre ++ k :: post /\ (forall j, In j pre -> own h j t = None) /\ own h k t = Some r) \/
  ((forall j, In j l -> own h j t = None) /\ r = None).

Lemma chain_exists : forall f h n, WF h -> n < length h -> ends f (inh_of h) n = true -> exists l, Chain h n l.
Proof.
  induction f as [|f IH]; intros h n W L E; [discriminate|]. cbn in E. unfold inh_of in E at 1.
  destruct (nth_error h n) as [c|] eqn:En; [|apply nth_error_None in En; lia].
  destruct (c_pinh c) as [b|] eqn:Ep.
  - destruct (IH h b W (wf_pinh h W n c b En Ep) E) as [l Hl]. exists (n :: l). eapply Chain_cons; eauto.
  - exists [n]. eapply Chain_end; eauto.
Qed.
Lemma nearest_chain : forall h t n l, Chain h n l -> forall r, Nearest h t n r <-> first_declared h t l r.
Proof.
  intros h t n l C. induction C as [n c En Ep|n c b l En Ep C IH]; intros r.
  - split.
    + intro N. inversion N; subst; try congruence.
      * left. exists [], n, []. split; [reflexivity|]. split; [intros j []|]. unfold own. rewrite H. assert (c0 = c) by congruence. now subst.
      * right. split; [|reflexivity]. intros j [<-|[]]. unfold own. rewrite H. assert (c0 = c) by congruence. now subst.
    + intros [[pre [k [post [E [Hpre Hk]]]]]|[Hall ->]].
      * destruct pre as [|p0 pre]; cbn in E; inversion E; subst.
        -- unfold own in Hk. rewrite En in Hk. eapply Near_here; eauto.
        -- destruct pre; discriminate.
      * specialize (Hall n (or_introl eq_refl)). unfold own in Hall. rewrite En in Hall. eapply Near_none; eauto.
  - split.
    + intro N. inversion N; subst; try congruence.
      * left. exists [], n, l. split; [reflexivity|]. split; [intros j []|]. unfold own. rewrite H. assert (c0 = c) by congruence. now subst.
      * assert (c0 = c) by congruence. subst c0. assert (b0 = b) by congruence. subst b0.
        apply IH in H2. destruct H2 as [[pre [k [post [E [Hpre Hk]]]]]|[Hall ->]].
        -- left. exists (n :: pre), k, post. split; [cbn; now rewrite E|]. split; [|exact Hk].
           intros j [<-|Hj]; [unfold own; now rewrite En|auto].
        -- right. split; [|reflexivity]. intros j [<-|Hj]; [unfold own; now rewrite En|auto].
    + intros [[pre [k [post [E [Hpre Hk]]]]]|[Hall ->]].
      * destruct pre as [|p0 pre]; cbn in E; inversion E; subst.
        -- unfold own in Hk. rewrite En in Hk. eapply Near_here; eauto.
        -- assert (Hn : own h p0 t = None) by (apply Hpre; now left). unfold own in Hn. rewrite En in Hn.
           eapply Near_base; eauto. apply IH. left. exists pre, k, post. split; [reflexivity|]. split; [|exact Hk].
           intros j Hj. apply Hpre. now right.
      * assert (Hn : own h n t = None) by (apply Hall; now left). unfold own in Hn. rewrite En in Hn.
        eapply Near_base; eauto. apply IH. right. split; [|reflexivity]. intros j Hj. apply Hall. now right.
Qed.

(* C15: on a well-formed acyclic host every class has a (finite) inheritance chain, and a lookup returns what
   the first class along it that declares the name says: its entry, or nothing when that declaration is a
   delete marker or when no class of the chain declares the name *)
Lemma lookup_chain_spec : forall h n t, WF h -> Acyclic h -> n < length h ->
  exists l, Chain h n l /\ forall r, lookup_inh (fuel_of h) h (Some n) t = Ok r <-> first_declared h t l r.
Proof.
  intros h n t W A L. destruct (A n) as [f Ef]. destruct (chain_exists f h n W L Ef) as [l C].
  exists l. split; [exact C|]. intro r. rewrite (lookup_spec h n t r W A L). now apply nearest_chain.
Qed.
