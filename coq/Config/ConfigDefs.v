(* M5 - config host: executable model of sqf::runtime::confighost / confignav
   (src/runtime/confighost.h), of the way sqf::parser::config::parser::apply_to_confighost
   (src/parser/config/config_parser.cpp:21-152) applies a parsed config to it, and of the
   observing operators of src/operators/ops_config.cpp.

   Input of the model is the config AST (what the bison parser hands to apply_to_confighost),
   not text: the tokenizer and the generated parser are tied in only by the correspondence
   run (checks/C15.py renders the same AST to text for the implementation).

   Every loop of the C++ that walks parent ids takes explicit fuel here and answers
   OutOfFuel when it runs out; every vector access that C++ leaves unchecked answers UB.
   No proofs in this file. *)
From Coq Require Import ZArith List Bool Arith.
Import ListNotations.

Notation str := (list Z) (only parsing).        (* bytes of a std::string *)
Notation cid := (option nat) (only parsing).    (* a container id; None = config::invalid_id (confighost.h:21) *)

Fixpoint eqs (a b : str) : bool :=
  match a, b with
  | [], [] => true
  | x :: a', y :: b' => Z.eqb x y && eqs a' b'
  | _, _ => false
  end.
Definition cid_eqb (a b : cid) : bool :=
  match a, b with None, None => true | Some x, Some y => Nat.eqb x y | _, _ => false end.

(* ---- defect switches (DESIGN.md 2.1a).  true = the code of the pinned tree before the
   repairs of /verif/proposed_fixes/C15-*.diff, false = the repaired code. ---- *)
Record defects := {
  d_rebind_cycle : bool;      (* confighost.h:322-327: re-opening `class X : B` binds id_parent_inherited
                                 without testing that B's chain avoids X *)
  d_inherits_logical : bool;  (* ops_config.cpp:139: inheritsFrom returns parent_logical() *)
  d_hierarchy_shape : bool;   (* ops_config.cpp:118-127: configHierarchy pushes the leaf twice, stops below the root *)
  d_deleted_reopen : bool     (* confighost.h:291-292,319: a delete marker (invalid_id) found under the name is
                                 treated as an existing container: m_containers[invalid_id] *)
}.
Definition original : defects :=
  {| d_rebind_cycle := true; d_inherits_logical := true; d_hierarchy_shape := true; d_deleted_reopen := true |}.
Definition repaired : defects :=
  {| d_rebind_cycle := false; d_inherits_logical := false; d_hierarchy_shape := false; d_deleted_reopen := false |}.
(* the code as it stands once the four proposed fixes are applied; the correspondence runs against this *)
Definition as_is : defects := repaired.

(* ---- outcomes ---- *)
Inductive fault :=
| OutOfRange     (* vector::at throws / vector::operator[] outside the vector *)
| DeletedDeref   (* m_containers[config::invalid_id], confighost.h:319 *)
| NullNav        (* confignav::operator-> of an empty nav returns nullptr and is dereferenced *)
| SelfInsert.    (* vector::insert(begin, first, last) with [first,last) inside the same vector *)
Inductive res (A : Type) := Ok (a : A) | UB (w : fault) | OutOfFuel.
Arguments Ok {A} a. Arguments UB {A} w. Arguments OutOfFuel {A}.
Definition bind {A B} (r : res A) (f : A -> res B) : res B :=
  match r with Ok a => f a | UB w => UB w | OutOfFuel => OutOfFuel end.
Notation "x <- r ;; k" := (bind r (fun x => k)) (at level 61, r at next level, right associativity).
Notation "' pat <- r ;; k" := (bind r (fun x => match x with pat => k end))
  (at level 61, pat pattern, r at next level, right associativity).

(* ---- values held by an entry (sqf::runtime::value restricted to what the config parser stores) ---- *)
Inductive cval := VNil (* empty value: a class *) | VNum (z : Z) | VStr (s : str) | VArr (l : list cval).

(* ---- config::container, confighost.h:22-78.  The `id` member always equals the position in
   m_containers (emplace_back(m_containers.size(), ...), confighost.h:118,295) and is not stored. ---- *)
Record container := mkC {
  c_vec : list cid;              (* m_children_vec: own entries in declaration order *)
  c_map : list (str * cid);      (* m_children: name -> id (unique keys; iteration order is never observed) *)
  c_value : cval;
  c_plog : cid;                  (* id_parent_logical *)
  c_pinh : cid;                  (* id_parent_inherited *)
  c_name : str }.
Definition host := list container.          (* confighost::m_containers *)
Definition root_name : str := [99;111;110;102;105;103;47;98;105;110]%Z.   (* "config/bin", confighost.h:118 *)
Definition init_host : host :=
  [ {| c_vec := []; c_map := []; c_value := VNil; c_plog := None; c_pinh := None; c_name := root_name |} ].

Definition set_vecmap (c : container) (v : list cid) (m : list (str * cid)) : container :=
  {| c_vec := v; c_map := m; c_value := c_value c; c_plog := c_plog c; c_pinh := c_pinh c; c_name := c_name c |}.
Definition set_value (v : cval) (c : container) : container :=
  {| c_vec := c_vec c; c_map := c_map c; c_value := v; c_plog := c_plog c; c_pinh := c_pinh c; c_name := c_name c |}.
Definition set_pinh (b : cid) (c : container) : container :=
  {| c_vec := c_vec c; c_map := c_map c; c_value := c_value c; c_plog := c_plog c; c_pinh := b; c_name := c_name c |}.

(* unordered_map find / operator[]= *)
Fixpoint mfind (m : list (str * cid)) (k : str) : option cid :=
  match m with [] => None | (k', v) :: r => if eqs k' k then Some v else mfind r k end.
Fixpoint mset (m : list (str * cid)) (k : str) (v : cid) : list (str * cid) :=
  match m with
  | [] => [(k, v)]
  | (k', v') :: r => if eqs k' k then (k', v) :: r else (k', v') :: mset r k v
  end.

(* container::push_back(key, target_id), confighost.h:55-77.
   The branch for a deleted key is the repair C15-04-redefine-after-delete. *)
Definition push_back (d : defects) (c : container) (k : str) (t : cid) : container :=
  match mfind (c_map c) k with
  | None => set_vecmap c (c_vec c ++ [t]) (mset (c_map c) k t)                       (* :58-61,76 *)
  | Some old =>
      if cid_eqb old t then c                                                         (* :62-65 *)
      else if negb (d_deleted_reopen d) && cid_eqb old None
      then set_vecmap c (c_vec c ++ [t]) (mset (c_map c) k t)                         (* repaired: marker stays, entry appended *)
      else set_vecmap c (map (fun x => if cid_eqb x old then t else x) (c_vec c))     (* :66-75 *)
                      (mset (c_map c) k t)
  end.

(* m_containers.at(i) *)
Definition get (h : host) (n : nat) : res container :=
  match nth_error h n with Some c => Ok c | None => UB OutOfRange end.
Fixpoint upd (h : host) (n : nat) (f : container -> container) : host :=
  match h, n with
  | [], _ => []
  | c :: r, O => f c :: r
  | c :: r, S n' => c :: upd r n' f
  end.

(* confignav::lookup_in_inherited, confighost.h:238-256 *)
Fixpoint lookup_inh (f : nat) (h : host) (i : cid) (t : str) : res cid :=
  match i with
  | None => Ok None
  | Some n =>
    match f with
    | O => OutOfFuel
    | S f' =>
      match nth_error h n with
      | None => UB OutOfRange
      | Some c => match mfind (c_map c) t with
                  | Some r => Ok r
                  | None => lookup_inh f' h (c_pinh c) t
                  end
      end
    end
  end.
(* confignav::lookup_in_logical, confighost.h:257-275 *)
Fixpoint lookup_log (f : nat) (h : host) (i : cid) (t : str) : res cid :=
  match i with
  | None => Ok None
  | Some n =>
    match f with
    | O => OutOfFuel
    | S f' =>
      match nth_error h n with
      | None => UB OutOfRange
      | Some c => match mfind (c_map c) t with
                  | Some r => Ok r
                  | None => lookup_log f' h (c_plog c) t
                  end
      end
    end
  end.
(* confignav::inherits_from_id (added by the repair C15-01-inheritance-cycle): does the
   id_parent_inherited walk from i meet x? *)
Fixpoint reaches (f : nat) (h : host) (i : cid) (x : nat) : res bool :=
  match i with
  | None => Ok false
  | Some n =>
    if Nat.eqb n x then Ok true else
    match f with
    | O => OutOfFuel
    | S f' => match nth_error h n with
              | None => UB OutOfRange
              | Some c => reaches f' h (c_pinh c) x
              end
    end
  end.

(* fuel handed to the walks: by ConfigProofs.ends_bound it is enough whenever the walk ends at
   all, so OutOfFuel at this fuel means the C++ loop does not terminate *)
Definition fuel_of (h : host) : nat := S (length h).

Definition new_container (p : nat) (name : str) (b : cid) : container :=
  {| c_vec := []; c_map := []; c_value := VNil; c_plog := Some p; c_pinh := b; c_name := name |}.

(* confignav::append_or_replace(target, inherited), confighost.h:282-334.  inherited = [] is the
   empty std::string (no base given). *)
Definition create_child (d : defects) (h : host) (pn : nat) (t inh : str) : res (host * cid) :=
  (* :295-298 emplace_back; the lookup of :304 runs on the grown vector *)
  let id := length h in
  let h1 := h ++ [new_container pn t None] in
  b <- (match inh with [] => Ok None | _ => lookup_log (fuel_of h1) h1 (Some pn) inh end) ;;
  let h2 := upd h1 id (set_pinh b) in                                                  (* :307 *)
  _ <- get h2 pn ;;
  Ok (upd h2 pn (fun c => push_back d c t (Some id)), Some id).                        (* :311-314 *)

Definition append_or_replace (d : defects) (h : host) (p : cid) (t inh : str) : res (host * cid) :=
  match p with
  | None => Ok (h, None)                                                                (* :284,333 *)
  | Some pn =>
    c <- get h pn ;;                                                                    (* :287 *)
    match mfind (c_map c) t with
    | None => create_child d h pn t inh                                                 (* :292-315 *)
    | Some None =>
        if d_deleted_reopen d then UB DeletedDeref                                      (* :319 m_containers[invalid_id] *)
        else create_child d h pn t inh                                                  (* repaired: a marker is "not found" *)
    | Some (Some rn) =>
        match nth_error h rn with
        | None => UB OutOfRange                                                         (* :319 operator[] *)
        | Some _ =>
          match inh with
          | [] => Ok (h, Some rn)                                                       (* :322,330 *)
          | _ =>
            b <- lookup_log (fuel_of h) h (Some pn) inh ;;                              (* :325 *)
            if d_rebind_cycle d then Ok (upd h rn (set_pinh b), Some rn)                (* :326 *)
            else
              cyc <- reaches (fuel_of h) h b rn ;;                                      (* repaired: inherits_from_id *)
              if cyc then Ok (h, Some rn) else Ok (upd h rn (set_pinh b), Some rn)
          end
        end
    end
  end.

(* confignav::delete_inherited_or_replace, confighost.h:340-347 *)
Definition delete_entry (d : defects) (h : host) (p : cid) (t : str) : res host :=
  match p with
  | None => Ok h
  | Some pn => _ <- get h pn ;; Ok (upd h pn (fun c => push_back d c t None))
  end.

(* confignav::value(val), :405-413, and the read `parent->value` through operator->, :207-214 *)
Definition nav_set_value (h : host) (p : cid) (v : cval) : res host :=
  match p with None => Ok h | Some pn => _ <- get h pn ;; Ok (upd h pn (set_value v)) end.
Definition nav_value (h : host) (p : cid) : res cval :=
  match p with None => UB NullNav | Some pn => c <- get h pn ;; Ok (c_value c) end.
Definition parent_logical (h : host) (p : cid) : res cid :=
  match p with None => Ok None | Some pn => c <- get h pn ;; Ok (c_plog c) end.       (* :395-404 *)
Definition parent_inherited (h : host) (p : cid) : res cid :=
  match p with None => Ok None | Some pn => c <- get h pn ;; Ok (c_pinh c) end.       (* :385-394 *)

(* ---- the config AST as apply_to_confighost sees it ----
   NClass n b body : CLASS_DEF / CLASS_DEF_EXT (body = [], `class n;` `class n : b;`), CLASS / CLASS_EXT;
                     b = [] when no base is given (the C++ passes an empty std::string, :30,40).
   NField          : FIELD and FIELD_ARRAY (same code, :60-67).
   values          : NUMBER_DECIMAL / NUMBER_HEXADECIMAL -> NNum (conversion by stod/stol is outside the model:
                     the generator writes integers that binary32 holds exactly), STRING / IDENT / ANY / ANYSTRING -> NStr. *)
Inductive vnode := NNum (z : Z) | NStr (s : str) | NArr (l : list vnode).
Inductive node :=
| NClass (n b : str) (body : list node)
| NDelete (n : str)
| NField (n : str) (v : vnode)
| NAppend (n : str) (v : vnode).

(* what a value node denotes *)
Fixpoint eval_v (v : vnode) : cval :=
  match v with NNum z => VNum z | NStr s => VStr s | NArr l => VArr (map eval_v l) end.

(* config_parser.cpp:84-122: scalar nodes store into the nav; ARRAY stores every element into the
   nav in turn, reads it back (`parent->value`) and finally stores the collected vector *)
Fixpoint apply_value (h : host) (p : cid) (v : vnode) : res host :=
  match v with
  | NNum z => nav_set_value h p (VNum z)
  | NStr s => nav_set_value h p (VStr s)
  | NArr l =>
      (fix go (h : host) (l : list vnode) (acc : list cval) : res host :=
         match l with
         | [] => nav_set_value h p (VArr (rev acc))
         | x :: r => h1 <- apply_value h p x ;; e <- nav_value h1 p ;; go h1 r (e :: acc)
         end) h l []
  end.

Definition W_INHERITED_NOT_FOUND : Z := 40014.   (* logmessage::config::InheritedParentNotFound *)
Definition W_CYCLE_REFUSED : Z := 40015.         (* logmessage::config::InheritanceCycleRefused (added by the repair) *)

(* host plus the warning codes logged so far *)
Definition lstate := (host * list Z)%type.

(* diagnostics of CLASS_DEF_EXT / CLASS_EXT, config_parser.cpp:33-37,47-51 *)
Definition class_ext_log (d : defects) (wanted : cid) (h1 : host) (nav : cid) : res (list Z) :=
  pi <- parent_inherited h1 nav ;;
  if d_rebind_cycle d
  then Ok (match pi with None => [W_INHERITED_NOT_FOUND] | Some _ => [] end)
  else Ok (match wanted with
           | None => [W_INHERITED_NOT_FOUND]
           | Some _ => if cid_eqb pi wanted then [] else [W_CYCLE_REFUSED]
           end).

(* FIELD_ARRAY_APPEND after the field's own array is stored, config_parser.cpp:72-82 *)
Definition append_inherited (h2 : host) (nav : cid) (n : str) : res host :=
  pl <- parent_logical h2 nav ;;
  pi <- parent_inherited h2 pl ;;
  e <- lookup_inh (fuel_of h2) h2 pi n ;;
  match e with
  | None => Ok h2
  | Some en =>
    match nav with
    | None => UB NullNav
    | Some navn =>
      cs <- get h2 navn ;; ce <- get h2 en ;;
      match c_value cs, c_value ce with
      | VArr self, VArr inhv =>
          if Nat.eqb navn en then UB SelfInsert
          else Ok (upd h2 navn (set_value (VArr (inhv ++ self))))
      | _, _ => Ok h2
      end
    end
  end.

(* apply_to_confighost, config_parser.cpp:21-152 *)
Fixpoint apply_node (d : defects) (st : lstate) (p : cid) (n : node) : res lstate :=
  let '(h, lg) := st in
  match n with
  | NClass name base body =>
      wanted <- (match base with [] => Ok None | _ => lookup_log (fuel_of h) h p base end) ;;
      '(h1, nav) <- append_or_replace d h p name base ;;
      w <- (match base with [] => Ok [] | _ => class_ext_log d wanted h1 nav end) ;;
      (fix go (st : lstate) (l : list node) : res lstate :=
         match l with
         | [] => Ok st
         | x :: r => st1 <- apply_node d st nav x ;; go st1 r
         end) (h1, lg ++ w) body
  | NDelete name => h1 <- delete_entry d h p name ;; Ok (h1, lg)
  | NField name v =>
      '(h1, nav) <- append_or_replace d h p name [] ;;
      h2 <- apply_value h1 nav v ;; Ok (h2, lg)
  | NAppend name v =>
      '(h1, nav) <- append_or_replace d h p name [] ;;
      h2 <- apply_value h1 nav v ;;
      h3 <- append_inherited h2 nav name ;; Ok (h3, lg)
  end.
Fixpoint apply_nodes (d : defects) (st : lstate) (p : cid) (l : list node) : res lstate :=
  match l with [] => Ok st | x :: r => st1 <- apply_node d st p x ;; apply_nodes d st1 p r end.
(* parser::parse applies the statements of one text to confighost::root() = container 0 (:176-177) *)
Definition load (d : defects) (st : lstate) (l : list node) : res lstate := apply_nodes d st (Some 0) l.
Fixpoint loads (d : defects) (st : lstate) (ls : list (list node)) : res lstate :=
  match ls with [] => Ok st | l :: r => st1 <- load d st l ;; loads d st1 r end.

(* ---- operators of ops_config.cpp on config values (a config value holds a container id) ---- *)
Definition E_NONNULL : Z := 60058.        (* ExpectedNonNullValue (error level: the script halts) *)
Definition W_NONNULL : Z := 60059.        (* ExpectedNonNullValueWeak *)
Definition W_NOTFOUND : Z := 60061.       (* ConfigEntryNotFoundWeak *)
Definition W_INDEX : Z := 60010.          (* IndexOutOfRangeWeak *)

(* the loop building the path of a message / of configHierarchy, ops_config.cpp:42-48,118-124:
   push name; while (nav->id_parent_logical != invalid) { push name; nav = parent_logical } *)
Fixpoint path_loop (f : nat) (h : host) (n : nat) : res (list str) :=
  match f with
  | O => OutOfFuel
  | S f' =>
    c <- get h n ;;
    match c_plog c with
    | None => Ok []
    | Some p => r <- path_loop f' h p ;; Ok (c_name c :: r)
    end
  end.
Definition message_path (h : host) (n : nat) : res (list str) :=
  c <- get h n ;; r <- path_loop (fuel_of h) h n ;; Ok (rev (c_name c :: r)).
(* the repaired loop: while (!nav.empty()) { push *nav; nav = parent_logical } *)
Fixpoint encl_loop (f : nat) (h : host) (i : cid) : res (list nat) :=
  match i with
  | None => Ok []
  | Some n =>
    match f with
    | O => OutOfFuel
    | S f' => c <- get h n ;; r <- encl_loop f' h (c_plog c) ;; Ok (n :: r)
    end
  end.

(* >> , ops_config.cpp:22-55 *)
Definition op_lookup (h : host) (c : cid) (t : str) : res (cid * list Z) :=
  match c with
  | None => Ok (None, [W_NONNULL])
  | Some n =>
    r <- lookup_inh (fuel_of h) h (Some n) t ;;
    match r with
    | Some e => _ <- get h e ;; Ok (Some e, [])                 (* *opt: m_containers.at *)
    | None => _ <- message_path h n ;; Ok (None, [W_NOTFOUND])
    end
  end.
Fixpoint op_path (h : host) (c : cid) (p : list str) : res (cid * list Z) :=
  match p with
  | [] => Ok (c, [])
  | t :: r => '(c1, w1) <- op_lookup h c t ;; '(c2, w2) <- op_path h c1 r ;; Ok (c2, w1 ++ w2)
  end.
(* str / configName of a config value: the container's name, "" for configNull (:64-74, d_config.h:37-44) *)
Definition op_name (h : host) (c : cid) : res str :=
  match c with None => Ok [] | Some n => k <- get h n ;; Ok (c_name k) end.
Definition op_configName (h : host) (c : cid) : res (str * list Z) :=
  match c with None => Ok ([], [E_NONNULL]) | Some n => k <- get h n ;; Ok (c_name k, []) end.
(* count, :95-106 *)
Definition op_count (h : host) (c : cid) : res (nat * list Z) :=
  match c with None => Ok (0, [E_NONNULL]) | Some n => k <- get h n ;; Ok (length (c_vec k), []) end.
(* select, :75-94 and confignav::at :226-237; the index is an int *)
Definition op_select (h : host) (c : cid) (i : Z) : res (cid * list Z) :=
  match c with
  | None => Ok (None, [E_NONNULL])
  | Some n =>
    k <- get h n ;;
    if (i <? 0)%Z || (Z.of_nat (length (c_vec k)) <=? i)%Z then Ok (None, [W_INDEX])
    else match nth_error (c_vec k) (Z.to_nat i) with
         | Some e => Ok (e, [])          (* a delete marker yields configNull *)
         | None => UB OutOfRange
         end
  end.
(* inheritsFrom, :129-140 *)
Definition op_inheritsFrom (d : defects) (h : host) (c : cid) : res (cid * list Z) :=
  match c with
  | None => Ok (None, [E_NONNULL])
  | Some n => k <- get h n ;; Ok (if d_inherits_logical d then c_plog k else c_pinh k, [])
  end.
(* configHierarchy, :107-128: names (strings) in the original, config values root-first in the repair *)
Inductive hier := HNames (l : list str) | HConfigs (l : list nat).
Definition op_hierarchy (d : defects) (h : host) (c : cid) : res (hier * list Z) :=
  match c with
  | None => Ok (HNames [], [E_NONNULL])
  | Some n =>
    if d_hierarchy_shape d then p <- message_path h n ;; Ok (HNames p, [])
    else r <- encl_loop (fuel_of h) h (Some n) ;; Ok (HConfigs (rev r), [])
  end.
(* isNumber isText isArray isClass getNumber getText getArray, :141-232 *)
Definition is_num (v : cval) := match v with VNum _ => true | _ => false end.
Definition is_str (v : cval) := match v with VStr _ => true | _ => false end.
Definition is_arr (v : cval) := match v with VArr _ => true | _ => false end.
Definition is_nil (v : cval) := match v with VNil => true | _ => false end.
Definition class_like (k : container) : bool :=
  (0 <? length (c_vec k)) || (Nat.eqb (length (c_vec k)) 0 && is_nil (c_value k)).      (* :175 *)
Definition op_is (sel : container -> bool) (h : host) (c : cid) : res (bool * list Z) :=
  match c with None => Ok (false, [W_NONNULL]) | Some n => k <- get h n ;; Ok (sel k, []) end.
Definition op_isNumber := op_is (fun k => is_num (c_value k)).
Definition op_isText := op_is (fun k => is_str (c_value k)).
Definition op_isArray := op_is (fun k => is_arr (c_value k)).
Definition op_isClass := op_is class_like.
Definition op_getNumber (h : host) (c : cid) : res (Z * list Z) :=
  match c with None => Ok (0%Z, [W_NONNULL])
  | Some n => k <- get h n ;; Ok (match c_value k with VNum z => z | _ => 0%Z end, []) end.
Definition op_getText (h : host) (c : cid) : res (str * list Z) :=
  match c with None => Ok ([], [W_NONNULL])
  | Some n => k <- get h n ;; Ok (match c_value k with VStr s => s | _ => [] end, []) end.
Definition op_getArray (h : host) (c : cid) : res (list cval * list Z) :=
  match c with None => Ok ([], [W_NONNULL])
  | Some n => k <- get h n ;; Ok (match c_value k with VArr l => l | _ => [] end, []) end.
(* "true" configClasses c, :238-312 with confignav::iterator :150-189: own entries that are classes;
   the iterator's nav()->size() on a delete marker dereferences a null pointer *)
Fixpoint classes_of (h : host) (l : list cid) : res (list nat) :=
  match l with
  | [] => Ok []
  | None :: _ => UB NullNav
  | Some e :: r => k <- get h e ;; rest <- classes_of h r ;; Ok (if class_like k then e :: rest else rest)
  end.
Definition op_configClasses (h : host) (c : cid) : res (list nat * list Z) :=
  match c with
  | None => Ok ([], [E_NONNULL])
  | Some n => k <- get h n ;; r <- classes_of h (c_vec k) ;; Ok (r, [])
  end.
