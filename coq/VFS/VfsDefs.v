(* M6 - virtual file system: executable model of sqf::fileio::impl_default
   (src/fileio/default.cpp, src/fileio/default.h), of the three script operators that go
   through it (src/operators/ops_generic.cpp: loadFile, preprocessFile(LineNumbers), execVM),
   of the #include handling of the preprocessor as far as path resolution is concerned
   (src/parser/preprocessor/default.cpp:688-750) and of the PBO branch of cli.cpp:564-578.

   Strings are byte lists. The operating system's file system is a parameter
   (fsk : path -> kind); the part of std::filesystem::path that the code uses
   (iteration, lexically_normal, operator/, parent_path, relative_path, extension,
   is_relative) is modelled below on strings, for the POSIX flavour of libstdc++ only
   (the WIN32 branches of default.cpp:55-57 are outside the model).

   Every place where the C++ can dereference an end iterator, call back() on an empty
   vector or dereference an empty optional yields an explicit UB outcome with the line of
   default.cpp as its tag.

   Defect switches: the record [defects] has one boolean per way in which the code as
   found differs from the proposed repairs (proposed_fixes/C16-*.diff, C17-*.diff);
   [as_is] = the unchanged code, [repaired] = all patches applied. *)
From Coq Require Import ZArith List Bool.
Import ListNotations.
Local Open Scope Z_scope.

Notation byte := Z (only parsing).
Notation str := (list Z) (only parsing).

Definition SL : Z := 47.   (* '/'  *)
Definition BS : Z := 92.   (* '\\' *)
Definition DOT : Z := 46.
Definition SP : Z := 32.
Definition TB : Z := 9.
Definition NL : Z := 10.
Definition QT : Z := 34.   (* double quote *)
Definition dot : str := [46].
Definition dotdot : str := [46; 46].

Fixpoint eqs (a b : str) : bool :=
  match a, b with
  | [], [] => true
  | x :: a', y :: b' => (x =? y) && eqs a' b'
  | _, _ => false
  end.
Definition is_nil {A} (l : list A) : bool := match l with [] => true | _ => false end.
Definition nonempty (s : str) : bool := negb (is_nil s).
Definition notdotdot (s : str) : bool := negb (eqs s dotdot).

(* ---------------------------------------------------------------- strings *)
(* split at every occurrence of c; always at least one piece *)
Fixpoint split_on (c : Z) (s : str) : list str :=
  match s with
  | [] => [[]]
  | x :: r => if x =? c then [] :: split_on c r
              else match split_on c r with
                   | p :: ps => (x :: p) :: ps
                   | [] => [[x]]
                   end
  end.
(* std::istream_iterator<StringDelimiter<'/'>> (default.cpp:18-26): getline pieces; a
   last piece that is empty is not produced (getline extracts nothing and fails) *)
Definition gsplit (s : str) : list str :=
  let ps := split_on SL s in
  match rev ps with
  | [] :: r => rev r
  | _ => ps
  end.
Definition segs_of (s : str) : list str := filter nonempty (gsplit s).
(* "/" << el for every el (default.cpp:323-327, and the rebuilt request) *)
Definition vfull_of (path : list str) : str := concat (map (fun s => SL :: s) path).
(* std::replace(..., '\\', '/') *)
Definition cleanse (s : str) : str := map (fun c => if c =? BS then SL else c) s.
Definition isblank (c : Z) : bool := (c =? SP) || (c =? TB).
Fixpoint ltrim (s : str) : str :=
  match s with c :: r => if isblank c then ltrim r else s | [] => [] end.
Definition rtrim (s : str) : str := rev (ltrim (rev s)).
(* sqf::runtime::util::trim (src/runtime/util.h:52-67), chars " \t" *)
Definition trim (s : str) : str := ltrim (rtrim s).
Definition len (s : str) : Z := Z.of_nat (length s).

(* ---------------------------------------------------------------- std::filesystem::path, POSIX *)
Definition all_slash (s : str) : bool := forallb (fun c => c =? SL) s.
Definition has_root (s : str) : bool := match s with c :: _ => c =? SL | [] => false end.
Definition ends_sl (s : str) : bool := match rev s with c :: _ => c =? SL | [] => false end.
Definition pieces (s : str) : list str := filter nonempty (split_on SL s).
(* the elements path::begin()..end() yields; a path of slashes only is one root-directory
   element (it compares equal to "/"), a trailing separator yields a last empty element *)
Definition pcomps (s : str) : list str :=
  if is_nil s then [] else
  if all_slash s then [[SL]] else
  (if has_root s then [[SL]] else []) ++ pieces s ++ (if ends_sl s then [[]] else []).
Definition is_rel (s : str) : bool := negb (has_root s).

Inductive lastk := LNone | LNormal | LDot | LPop | LPushDD | LDropDD.
Fixpoint ln_go (names : list str) (root : bool) (stack : list str) (lk : lastk) : list str * lastk :=
  match names with
  | [] => (stack, lk)
  | n :: r =>
    if eqs n dot then ln_go r root stack LDot
    else if eqs n dotdot then
      match stack with
      | a :: st' => if eqs a dotdot then ln_go r root (n :: stack) LPushDD else ln_go r root st' LPop
      | [] => if root then ln_go r root [] LDropDD else ln_go r root [n] LPushDD
      end
    else ln_go r root (n :: stack) LNormal
  end.
Fixpoint join (c : Z) (l : list str) : str :=
  match l with [] => [] | [a] => a | a :: r => a ++ c :: join c r end.
(* path::lexically_normal *)
Definition lexnorm (s : str) : str :=
  if is_nil s then [] else
  if all_slash s then s else
  let root := has_root s in
  let '(st, lk) := ln_go (pieces s) root [] LNone in
  let ts := match lk with LNormal => ends_sl s | LDot => true | LPop => true | _ => false end in
  let ts' := ts && negb (is_nil st) && match st with a :: _ => notdotdot a | [] => false end in
  let r := (if root then [SL] else []) ++ join SL (rev st) ++ (if ts' then [SL] else []) in
  if is_nil r then dot else r.
(* operator/ *)
Definition pjoin (a b : str) : str :=
  if has_root b then b else
  if is_nil a then b else
  if ends_sl a then a ++ b else a ++ SL :: b.
Fixpoint drop_while (f : Z -> bool) (s : str) : str :=
  match s with c :: r => if f c then drop_while f r else s | [] => [] end.
Definition strip_slashes_r (s : str) : str := rev (drop_while (fun c => c =? SL) (rev s)).
Definition strip_name_r (s : str) : str := rev (drop_while (fun c => negb (c =? SL)) (rev s)).
(* path::parent_path *)
Definition parent_path (s : str) : str :=
  if is_nil s then [] else
  if all_slash s then s else
  let s1 := if ends_sl s then strip_slashes_r s else strip_slashes_r (strip_name_r s) in
  if is_nil s1 then (if has_root s then [SL] else []) else s1.
(* path::relative_path (used on lexically normal paths only) *)
Definition relative_path (s : str) : str := drop_while (fun c => c =? SL) s.
Definition filename (s : str) : str := rev (let r := rev s in
  (fix tk (l : str) : str := match l with c :: r' => if c =? SL then [] else c :: tk r' | [] => [] end) r).
Fixpoint ext_go (l : str) (acc : str) : option str :=   (* l = reversed file name *)
  match l with
  | [] => None
  | c :: r => if c =? DOT then (if is_nil r then None else Some (DOT :: acc)) else ext_go r (c :: acc)
  end.
(* path::extension *)
Definition extension (s : str) : str :=
  let f := filename s in
  if eqs f dot || eqs f dotdot then [] else
  match ext_go (rev f) [] with Some e => e | None => [] end.
Definition pbo_ext : str := [46; 112; 98; 111].

(* ---------------------------------------------------------------- the operating system (parameter) *)
Inductive kind := KAbsent | KFile | KDir.

(* POSIX path lookup in a symlink-free tree given as (absolute path segments, is_dir);
   used by the driver to instantiate fsk from the directory tree of a test case *)
Definition tree := list (list str * bool).
Fixpoint seqs (a b : list str) : bool :=
  match a, b with
  | [], [] => true
  | x :: a', y :: b' => eqs x y && seqs a' b'
  | _, _ => false
  end.
Definition tree_kind (t : tree) (p : list str) : kind :=
  match p with
  | [] => KDir
  | _ => match find (fun e => seqs (fst e) p) t with
         | Some (_, true) => KDir
         | Some (_, false) => KFile
         | None => KAbsent
         end
  end.
(* cur = reversed list of segments of the directory reached so far *)
Fixpoint os_walk (t : tree) (segs : list str) (cur : list str) : option (list str) :=
  match segs with
  | [] => Some cur
  | s :: r =>
    match tree_kind t (rev cur) with
    | KDir =>
      if is_nil s || eqs s dot then os_walk t r cur
      else if eqs s dotdot then os_walk t r (tl cur)
      else os_walk t r (s :: cur)
    | _ => None
    end
  end.
Definition os_kind (t : tree) (cwd : list str) (p : str) : kind :=
  if is_nil p then KAbsent else
  let start := if has_root p then [] else rev cwd in
  match os_walk t (split_on SL p) start with
  | Some cur => tree_kind t (rev cur)
  | None => KAbsent
  end.

(* ---------------------------------------------------------------- outcomes *)
Inductive res (A : Type) :=
| Ok (a : A)
| UB (line : Z)       (* undefined behaviour at default.cpp:<line> *)
| Throw (line : Z).   (* a C++ exception leaves the function at default.cpp:<line> *)
Arguments Ok {A} _.
Arguments UB {A} _.
Arguments Throw {A} _.

Record defects := {
  d_root_trailing : bool; (* default.cpp:339    a physical root given as "dir/" keeps its empty last path element *)
  d_dir_is_file : bool;   (* default.cpp:28-32  ifstream(dir).good() holds: a directory "exists" as a file *)
  d_drop_dotdot : bool;   (* default.cpp:131-136 a dir-up met after the walk left the mapped nodes is dropped *)
  d_no_fallback : bool;   (* default.cpp:140     the deepest node is used even when nothing is mapped onto it *)
  d_mismatch3 : bool;     (* default.cpp:183     std::mismatch without the end of the second range *)
  d_phys_raw : bool;      (* default.cpp:161     the physical route uses the request as given (backslashes, blanks) *)
  d_clobber : bool;       (* default.cpp:189     the path searched for is overwritten inside the loop *)
  d_substr : bool;        (* default.cpp:189     the part below the root is cut out by string length (root "/" loses a character, "//" throws) *)
  d_root_first : bool;    (* default.h:66        relative request from a file without virtual path: virtual root first *)
  d_execvm_path : bool;   (* ops_generic.cpp:2057-2059 execVM parses its argument, not the file *)
  d_pbo_native : bool;    (* default.cpp:220,227 prefix/name joined as native paths: '\\' is no separator on POSIX *)
  d_pbo_end_deref : bool; (* default.cpp:250     find(path_iter->string()) evaluated before path_iter != end() *)
  d_pbo_by_ext : bool;    (* default.cpp:345-352 any path ending in .pbo is taken for a mounted archive, even when it is none *)
  d_pbo_substr : bool;    (* default.cpp:362-368 in-archive name = virtual path minus |prefix|+1 characters *)
  d_cli_reserve : bool    (* cli.cpp:573-575     reserve() + read into data(): the string stays empty *)
}.
Definition as_is : defects :=
  {| d_root_trailing := true; d_dir_is_file := true; d_drop_dotdot := true; d_no_fallback := true; d_mismatch3 := true;
     d_phys_raw := true; d_clobber := true; d_substr := true; d_root_first := true; d_execvm_path := true;
     d_pbo_native := true; d_pbo_end_deref := true; d_pbo_by_ext := true; d_pbo_substr := true; d_cli_reserve := true |}.
Definition repaired : defects :=
  {| d_root_trailing := false; d_dir_is_file := false; d_drop_dotdot := false; d_no_fallback := false; d_mismatch3 := false;
     d_phys_raw := false; d_clobber := false; d_substr := false; d_root_first := false; d_execvm_path := false;
     d_pbo_native := false; d_pbo_end_deref := false; d_pbo_by_ext := false; d_pbo_substr := false; d_cli_reserve := false |}.

(* ---------------------------------------------------------------- the virtual tree *)
(* impl_default::path_element (default.h:16-21): next (unordered_map, used by find/emplace
   only: modelled as association list with unique keys), physical, virtual_full *)
Inductive node : Type := Node (next : list (str * node)) (physical : list str) (vfull : str).
Definition n_next (n : node) := match n with Node x _ _ => x end.
Definition n_phys (n : node) := match n with Node _ p _ => p end.
Definition n_vfull (n : node) := match n with Node _ _ v => v end.

Fixpoint find_child (k : str) (l : list (str * node)) : option node :=
  match l with
  | [] => None
  | (k', c) :: r => if eqs k' k then Some c else find_child k r
  end.
Fixpoint set_child (k : str) (c : node) (l : list (str * node)) : list (str * node) :=
  match l with
  | [] => [(k, c)]
  | (k', c') :: r => if eqs k' k then (k', c) :: r else (k', c') :: set_child k c r
  end.
Fixpoint node_at (path : list str) (n : node) : option node :=
  match path with
  | [] => Some n
  | s :: r => match find_child s (n_next n) with Some c => node_at r c | None => None end
  end.

(* an archive as add_pbo_mapping sees it: path, attribute("prefix"), names of files() *)
Record pbo := { pbo_path : str; pbo_prefix : option str; pbo_names : list str }.

(* m_virtual_file_root, m_path_elements (as paths from the root, in creation order), m_pbos *)
Record vfs := { v_root : node; v_elems : list (list str); v_pbos : list (str * pbo) }.
(* impl_default::impl_default (default.h:55-61) *)
Definition vfs_empty : vfs := {| v_root := Node [] [] [SL]; v_elems := [[]]; v_pbos := [] |}.

Section Model.
Variable d : defects.
Variable fsk : str -> kind.

(* add_mapping, default.cpp:302-340 *)
Fixpoint add_at (segs : list str) (pre : list str) (phys : str) (n : node) : node * list (list str) :=
  match segs with
  | [] => (Node (n_next n) (n_phys n ++ [phys]) (n_vfull n), [])        (* :339 *)
  | s :: rest =>
    let pre' := pre ++ [s] in
    match find_child s (n_next n) with
    | Some c =>                                                           (* :332-335 *)
      let '(c', cr) := add_at rest pre' phys c in
      (Node (set_child s c' (n_next n)) (n_phys n) (n_vfull n), cr)
    | None =>                                                             (* :321-331 *)
      let '(c', cr) := add_at rest pre' phys (Node [] [] (vfull_of pre')) in
      (Node (set_child s c' (n_next n)) (n_phys n) (n_vfull n), pre' :: cr)
    end
  end.
(* :339 and its repair: the root without trailing separator *)
Definition root_of (phys : str) : str :=
  let n := lexnorm (cleanse phys) in
  if d_root_trailing d then n else
  if ends_sl n && negb (all_slash n) then parent_path n else n.
Definition add_mapping (t : vfs) (phys virt : str) : vfs :=
  let '(r, cr) := add_at (segs_of (cleanse virt)) [] (root_of phys) (v_root t) in
  {| v_root := r; v_elems := v_elems t ++ cr; v_pbos := v_pbos t |}.


(* file_exists, default.cpp:28-32 *)
Definition file_exists (p : str) : bool :=
  match fsk p with KFile => true | KDir => d_dir_is_file d | KAbsent => false end.
Definition is_regular (p : str) : bool := match fsk p with KFile => true | _ => false end.

(* ---------------------------------------------------------------- get_info_virtual, default.cpp:34-156 *)
(* :63-85 navigate the current virtual path; None = "Dead-End. File Not Found." *)
Fixpoint walk_cur (segs : list str) (nodes : list node) (names : list str) : res (option (list node * list str)) :=
  match segs with
  | [] => Ok (Some (nodes, names))
  | s :: r =>
    if is_nil s then walk_cur r nodes names else
    match nodes with
    | [] => UB 74                      (* nodes.back() of an empty vector *)
    | n :: _ => match find_child s (n_next n) with
                | Some c => walk_cur r (c :: nodes) (s :: names)
                | None => Ok None
                end
    end
  end.
(* :88-119 the main walk; returns the node stack (back() first), the names the nodes were
   reached by, and the segments from the one that stopped the walk on *)
Fixpoint walk (segs : list str) (nodes : list node) (names : list str) : list node * list str * list str :=
  match segs with
  | [] => (nodes, names, [])
  | s :: r =>
    if is_nil s then walk r nodes names else
    match nodes with
    | [] => (nodes, names, s :: r)                                    (* :95 fails, :103 break *)
    | n :: up =>
      if eqs s dotdot then walk r up (tl names)                      (* :95-100 *)
      else match find_child s (n_next n) with
           | None => (nodes, names, s :: r)                          (* :108-112 *)
           | Some c => walk r (c :: nodes) (s :: names)              (* :113-117 *)
           end
    end
  end.
(* repair of :131-136: every dir-up is resolved against the segment before it *)
Fixpoint ddnorm_go (segs : list str) (acc : list str) : list str :=
  match segs with
  | [] => rev acc
  | s :: r =>
    if eqs s dotdot then
      match acc with
      | a :: acc' => if eqs a dotdot then ddnorm_go r (s :: acc) else ddnorm_go r acc'
      | [] => ddnorm_go r (s :: acc)
      end
    else ddnorm_go r (s :: acc)
  end.
Definition ddnorm (segs : list str) : list str := ddnorm_go segs [].
(* repair of :140: go back up to the deepest node that has a physical path *)
Fixpoint fallback (nodes : list node) (names : list str) (acc : str) : option (list node * str) :=
  match nodes with
  | [] => None                         (* nodes.back() of an empty vector *)
  | n :: up =>
    match names with
    | nm :: names' => if is_nil (n_phys n) && notdotdot nm then fallback up names' (SL :: nm ++ acc) else Some (nodes, acc)
    | [] => Some (nodes, acc)
    end
  end.
(* :140-151 *)
Fixpoint try_roots (roots : list str) (rem : str) : option str :=
  match roots with
  | [] => None
  | p :: r => let cand := p ++ rem in if file_exists cand then Some cand else try_roots r rem
  end.

Definition giv (t : vfs) (req curv : str) : res (option (str * str)) :=
  let virt := trim (cleanse req) in                                    (* :37-39 *)
  match virt with
  | [] => Ok None                                                      (* :45-49 *)
  | c0 :: _ =>
    let start : res (option (list node * list str * str)) :=
      if negb (c0 =? SL) && negb (is_nil curv) then                    (* :58, :63 *)
        match walk_cur (gsplit curv) [v_root t] [] with
        | Ok (Some (ns, nm)) => Ok (Some (ns, nm, curv ++ SL :: virt))   (* :65 *)
        | Ok None => Ok None
        | UB l => UB l
        | Throw l => Throw l
        end
      else Ok (Some ([v_root t], [], virt)) in
    match start with
    | UB l => UB l
    | Throw l => Throw l
    | Ok None => Ok None
    | Ok (Some (ns, nm, vfullreq)) =>
      let virt1 := if d_drop_dotdot d then virt else vfull_of (ddnorm (segs_of virt)) in
      let '(ns1, nm1, rem) := walk (gsplit virt1) ns nm in
      match ns1 with
      | [] => Ok None                                                  (* :122-127 *)
      | _ =>
        match (if d_no_fallback d then Some (ns1, []) else fallback ns1 nm1 []) with
        | None => UB 140
        | Some (ns2, pre) =>
          match ns2 with
          | [] => UB 140
          | n :: _ =>
            let remstr := pre ++ vfull_of (filter notdotdot rem) in   (* :130-136 *)
            match try_roots (n_phys n) remstr with
            | Some p => Ok (Some (p, vfullreq))                        (* :149 *)
            | None => Ok None
            end
          end
        end
      end
    end
  end.

(* ---------------------------------------------------------------- get_info_physical, default.cpp:157-203 *)
Inductive ptest := PMatch (rest : list str) | PNo | PUB.
(* std::mismatch(phys.begin(), phys.end(), toFindPath.begin()[, toFindPath.end()]) followed by
   rootEnd == phys.end() && !std::equal(...): phys is a proper prefix of toFindPath;
   rest = the elements of toFindPath from std::get<1>(pair) on *)
Fixpoint prefix_test (a b : list str) : ptest :=
  match a, b with
  | [], [] => PNo
  | [], _ :: _ => PMatch b
  | _ :: _, [] => if d_mismatch3 d then PUB else PNo
  | x :: a', y :: b' => if eqs x y then prefix_test a' b' else PNo
  end.
Definition substr_from (n : nat) (s : str) : option str :=
  if (n <=? length s)%nat then Some (skipn n s) else None.
(* :163 second disjunct *)
Definition dotdot_prefix (v : str) : bool :=
  (3 <? len v) && (eqs (firstn 3 v) [46; 46; 47] || eqs (firstn 3 v) [46; 46; 92]).

(* (virtual_full, physical) of every root of every element, in the order of :178-180 *)
Definition cands (t : vfs) : list (str * str) :=
  flat_map (fun path => match node_at path (v_root t) with
                        | Some n => map (fun p => (n_vfull n, p)) (n_phys n)
                        | None => []
                        end) (v_elems t).

Fixpoint gip_loop (t : vfs) (cs : list (str * str)) (tf curv : str) : res (option (str * str)) :=
  match cs with
  | [] => Ok None
  | (vf, phys) :: r =>
    match prefix_test (pcomps phys) (pcomps tf) with
    | PUB => UB 183
    | PNo => gip_loop t r tf curv
    | PMatch restc =>
      match (if d_substr d then substr_from (S (length phys)) tf                (* :189 *)
             else Some (fold_left pjoin restc [])) with
      | None => Throw 189                                              (* std::out_of_range *)
      | Some rest =>
        let tv := lexnorm (vf ++ SL :: rest) in                        (* :189-190 *)
        match giv t (cleanse tv) curv with                             (* :191-193 *)
        | Ok (Some x) => Ok (Some x)
        | Ok None => gip_loop t r (if d_clobber d then tv else tf) curv
        | UB l => UB l
        | Throw l => Throw l
        end
      end
    end
  end.

(* :161-176 the lexically normal physical path the request is read as *)
Definition gip_target (req curp : str) : str :=
  let view := if d_phys_raw d then req else trim (cleanse req) in
  let tf0 := lexnorm view in                                           (* :161-162 *)
  if is_rel tf0 || dotdot_prefix view then                             (* :163 *)
    lexnorm (if is_regular curp then pjoin (parent_path curp) tf0      (* :165-170 *)
             else pjoin curp tf0)                                      (* :173 *)
  else tf0.
Definition gip (t : vfs) (req curp curv : str) : res (option (str * str)) :=
  gip_loop t (cands t) (gip_target req curp) curv.

(* get_info, default.h:64-72 *)
Definition rel_first (req curp curv : str) : bool :=
  negb (d_root_first d) &&
  match ltrim req with c :: _ => negb (c =? SL) && negb (c =? BS) | [] => false end &&
  is_nil curv && negb (is_nil curp).
Definition get_info_std (t : vfs) (req curp curv : str) : res (option (str * str)) :=
  match giv t req curv with
  | Ok None => gip t req curp curv
  | x => x
  end.
Definition get_info (t : vfs) (req curp curv : str) : res (option (str * str)) :=
  if rel_first req curp curv then
    match gip t req curp curv with
    | Ok None => get_info_std t req curp curv
    | x => x
    end
  else get_info_std t req curp curv.

(* ---------------------------------------------------------------- add_pbo_mapping, default.cpp:205-280 *)
Definition entry_path (prefix name : str) : str :=
  if d_pbo_native d then lexnorm (pjoin prefix name)                   (* :220, :227 *)
  else relative_path (lexnorm (SL :: cleanse prefix ++ SL :: cleanse name)).
(* :265-278 a chain of fresh nodes, each carrying the archive's path *)
Fixpoint fresh_chain (comps : list str) (acc : str) (pbop : str) : node :=
  Node (match comps with [] => [] | c :: r => [(c, fresh_chain r (pjoin acc c) pbop)] end) [pbop] acc.
(* :231-278 *)
Fixpoint pbo_ins (comps : list str) (acc : str) (pbop : str) (n : node) : res node :=
  match comps with
  | [] => if d_pbo_end_deref d then UB 250 else Ok n                   (* :250 / :258-262 *)
  | c :: r =>
    let acc' := pjoin acc c in
    match find_child c (n_next n) with
    | Some ch =>
      match pbo_ins r acc' pbop ch with
      | Ok ch' => Ok (Node (set_child c ch' (n_next n)) (n_phys n) (n_vfull n))
      | UB l => UB l
      | Throw l => Throw l
      end
    | None => Ok (Node (set_child c (fresh_chain r acc' pbop) (n_next n)) (n_phys n) (n_vfull n))
    end
  end.
Fixpoint pbo_find (k : str) (l : list (str * pbo)) : option pbo :=
  match l with [] => None | (k', p) :: r => if eqs k' k then Some p else pbo_find k r end.
Fixpoint pbo_set (k : str) (p : pbo) (l : list (str * pbo)) : list (str * pbo) :=
  match l with [] => [(k, p)] | (k', p') :: r => if eqs k' k then (k', p) :: r else (k', p') :: pbo_set k p r end.
Fixpoint pbo_files (names : list str) (prefix pbop : str) (root : node) : res node :=
  match names with
  | [] => Ok root
  | nm :: r =>
    let fp := entry_path prefix nm in
    match pcomps fp with
    | [] => if d_pbo_native d then UB 231 else pbo_files r prefix pbop root   (* *begin() of an empty path / skipped *)
    | c :: cs =>
      (* :231-278; a first element that is new is inserted without reaching :250 *)
      match pbo_ins (c :: cs) [] pbop root with
      | Ok root' => pbo_files r prefix pbop root'
      | UB l => UB l
      | Throw l => Throw l
      end
    end
  end.
Definition add_pbo (t : vfs) (p : pbo) : res vfs :=
  match pbo_find (pbo_path p) (v_pbos t) with                          (* :207-211 *)
  | Some _ => Ok t
  | None =>
    match pbo_prefix p with
    | None => Ok t                                                     (* :213-217 *)
    | Some prefix =>
      match pbo_files (pbo_names p) prefix (pbo_path p) (v_root t) with
      | Ok r => Ok {| v_root := r; v_elems := v_elems t; v_pbos := pbo_set (lexnorm (pbo_path p)) p (v_pbos t) |}
      | UB l => UB l
      | Throw l => Throw l
      end
    end
  end.

(* ---------------------------------------------------------------- read_file, default.cpp:342-390 *)
Inductive rd :=
| RdDisk (p : str)                 (* the bytes of the regular file p *)
| RdDirThrow                       (* read_file_from_disk on a directory: vector(tellg()) throws *)
| RdPbo (key : str) (idx : nat)    (* the bytes of entry idx of the archive registered under key *)
| RdEmpty.                         (* logged, {} returned *)
Fixpoint index_of (k : str) (l : list str) (i : nat) : option nat :=
  match l with [] => None | x :: r => if eqs x k then Some i else index_of k r (S i) end.
(* the entry path a virtual path asks for (repaired read_file) *)
Definition pbo_wanted (v : str) : str :=
  let w := relative_path (lexnorm (SL :: v)) in
  if ends_sl w then parent_path w else w.
Definition pbo_entry_name (prefix v : str) (names : list str) : str :=
  if d_pbo_substr d then
    let pp := if (length prefix + 1 <? length v)%nat then skipn (length prefix + 1) v else v in   (* :364-367 *)
    map (fun c => if c =? SL then BS else c) pp                        (* :368 *)
  else
    let wanted := pbo_wanted v in
    match find (fun nm => eqs (entry_path prefix nm) wanted) names with
    | Some nm => nm
    | None => v
    end.
Definition read_disk (p : str) : res rd :=
  match fsk p with
  | KFile => Ok (RdDisk p)
  | KDir => if d_dir_is_file d then Ok RdDirThrow else UB 388
  | KAbsent => UB 388                                                  (* *res of an empty optional *)
  end.
Definition read_file (t : vfs) (p v : str) : res rd :=
  match (if eqs (extension p) pbo_ext then                             (* :345 *)
           match pbo_find (lexnorm p) (v_pbos t) with
           | Some pb => Some (Some pb)
           | None => if d_pbo_by_ext d then Some None else None        (* :348-352 *)
           end
         else None) with
  | Some None => Ok RdEmpty
  | Some (Some pb) =>
    match pbo_prefix pb with
    | None => Ok RdEmpty                                               (* :356-360 *)
    | Some prefix =>
      match index_of (pbo_entry_name prefix v (pbo_names pb)) (pbo_names pb) 0 with
      | Some i => Ok (RdPbo (lexnorm p) i)                             (* :371-377 *)
      | None => Ok RdEmpty                                             (* :378-382 *)
      end
    end
  | None => read_disk p                                                (* :387-388 *)
  end.

(* ---------------------------------------------------------------- preprocessor #include and the operators *)
Variable cont : rd -> str.   (* the bytes behind a read *)

(* a line `#include "req"`: default.cpp(preprocessor):685-703, for lines of exactly this shape *)
Definition inc_kw : str := [35; 105; 110; 99; 108; 117; 100; 101].
Fixpoint strip_prefix (p s : str) : option str :=
  match p, s with
  | [], _ => Some s
  | x :: p', y :: s' => if x =? y then strip_prefix p' s' else None
  | _ :: _, [] => None
  end.
Fixpoint take_until (c : Z) (s : str) : str :=
  match s with x :: r => if x =? c then [] else x :: take_until c r | [] => [] end.
Definition parse_include (line : str) : option str :=
  match strip_prefix inc_kw (ltrim line) with
  | Some r => Some (take_until QT (drop_while (fun c => c =? QT) (trim r)))
  | None => None
  end.

Inductive pp :=
| PPOk (payload : list str)      (* the lines that are not directives, in order *)
| PPFail                         (* errflag: include not found (10004) or recursive (10003) *)
| PPThrow                        (* reading a directory *)
| PPUB (line : Z)
| PPFuel.
Fixpoint expand (fuel : nat) (t : vfs) (stack : list str) (curp curv : str) (text : str) : pp :=
  match fuel with
  | O => PPFuel
  | S f =>
    (fix lines (ls : list str) : pp :=
       match ls with
       | [] => PPOk []
       | l :: r =>
         let here : pp :=
           match parse_include l with
           | None => if is_nil (trim l) then PPOk [] else PPOk [l]
           | Some req =>
             match get_info t req curp curv with                       (* preprocessor default.cpp:706 *)
             | Ok None => PPFail                                       (* :707-712 *)
             | Ok (Some (p, v)) =>
               if existsb (eqs p) stack then PPFail                    (* :713-726 *)
               else match read_file t p v with                         (* :728 *)
                    | Ok RdDirThrow => PPThrow
                    | Ok rdv => expand f t (p :: stack) p v (cont rdv)
                    | UB ln => PPUB ln
                    | Throw ln => PPThrow
                    end
             | UB ln => PPUB ln
             | Throw ln => PPThrow
             end
           end in
         match here with
         | PPOk a => match lines r with PPOk b => PPOk (a ++ b) | x => x end
         | x => x
         end
       end) (split_on NL text)
  end.

Inductive opres :=
| ONotFound                       (* FileNotFound logged, "" / empty script handle returned *)
| OText (t : str)                 (* loadFile: the string returned *)
| OPre (p : pp)                   (* preprocessFile(LineNumbers): what the preprocessor produced *)
| ORun (p : pp)                   (* execVM: the preprocessed text that is compiled and scheduled *)
| ORunArg (a : str)               (* execVM: its own argument is compiled and scheduled *)
| OThrow
| OUB (line : Z).

(* loadfile_string, ops_generic.cpp:1883-1897 *)
Definition op_loadfile (t : vfs) (req : str) : opres :=
  match get_info t req [] [] with
  | Ok None => ONotFound
  | Ok (Some (p, v)) =>
    match read_file t p v with
    | Ok RdDirThrow => OThrow
    | Ok r => OText (cont r)
    | UB l => OUB l
    | Throw _ => OThrow
    end
  | UB l => OUB l
  | Throw _ => OThrow
  end.
(* preprocess(runtime, pathinfo): src/runtime/parser/preprocessor.cpp:9-13 *)
Definition pre_file (fuel : nat) (t : vfs) (p v : str) : pp :=
  match read_file t p v with
  | Ok RdDirThrow => PPThrow
  | Ok r => expand fuel t [p] p v (cont r)
  | UB l => PPUB l
  | Throw _ => PPThrow
  end.
(* preprocessfile_string, ops_generic.cpp:1898-1914 *)
Definition op_preprocess (fuel : nat) (t : vfs) (req : str) : opres :=
  match get_info t req [] [] with
  | Ok None => ONotFound
  | Ok (Some (p, v)) => OPre (pre_file fuel t p v)
  | UB l => OUB l
  | Throw _ => OThrow
  end.
(* execvm_any_string, ops_generic.cpp:2047-2089 *)
Definition op_execvm (fuel : nat) (t : vfs) (req : str) : opres :=
  match get_info t req [] [] with
  | Ok None => ONotFound
  | Ok (Some (p, v)) =>
    match pre_file fuel t p v with
    | PPOk lines => if d_execvm_path d then ORunArg req else ORun (PPOk lines)   (* :2057-2059 *)
    | x => ORun x                                                      (* :2077-2081 empty script handle *)
    end
  | UB l => OUB l
  | Throw _ => OThrow
  end.
(* a file given to the preprocessor with pathinfo {curp, curv} whose text is `text` *)
Definition op_include (fuel : nat) (t : vfs) (curp curv text : str) : pp :=
  expand fuel t [curp] curp curv text.

(* cli.cpp:564-578: what the config parser receives for a config.cpp of these bytes *)
Definition cli_pbo_config (bytes : str) : str := if d_cli_reserve d then [] else bytes.

End Model.

(* ---------------------------------------------------------------- specification of the virtual route
   (stated on the list of mappings, not on the tree; used by the theorems only) *)
Definition vsegs (virt : str) : list str := segs_of (cleanse virt).
(* the state after add_mapping(phys, virt) for every (phys, virt) of ms, in order *)
Definition build (d : defects) (ms : list (str * str)) : vfs :=
  fold_left (fun t m => add_mapping d t (fst m) (snd m)) ms vfs_empty.
(* the physical roots mapped onto exactly the virtual prefix pre, in mapping order *)
Definition roots_at (d : defects) (ms : list (str * str)) (pre : list str) : list str :=
  map (fun m => root_of d (fst m)) (filter (fun m => seqs pre (vsegs (snd m))) ms).
(* the longest prefix pre ++ p of pre ++ rest that has a root, with what follows it;
   ([], rest) when no prefix has one *)
Fixpoint deepest (d : defects) (ms : list (str * str)) (pre rest : list str) : list str * list str :=
  match rest with
  | [] => (roots_at d ms pre, [])
  | s :: r => let '(rs, rem) := deepest d ms (pre ++ [s]) r in
              if is_nil rs then (roots_at d ms pre, s :: r) else (rs, rem)
  end.
Definition starts_dd (L : list str) : bool := match L with s :: _ => eqs s dotdot | [] => false end.
(* L: the segments of the request, dir-ups resolved. A path that still starts with a dir-up
   leaves the virtual root: not found. Otherwise the deepest mapped prefix decides, and among
   its roots the first that contains the file. *)
Definition spec_virtual (d : defects) (fsk : str -> kind) (ms : list (str * str)) (L : list str) : option str :=
  if starts_dd L then None
  else let '(rs, rest) := deepest d ms [] L in try_roots d fsk rs (vfull_of rest).
