(* Proofs about the VFS model (VFS/VfsDefs.v). Statements used by Properties_C16.v. *)
From Coq Require Import ZArith List Bool Lia.
Import ListNotations.
From SqfVerif Require Import VFS.VfsDefs.
Local Open Scope Z_scope.

(* ---------------------------------------------------------------- strings *)
Lemma eqs_refl : forall a, eqs a a = true.
Proof. induction a as [|x a IH]; cbn; [reflexivity|]. rewrite Z.eqb_refl, IH. reflexivity. Qed.

Lemma eqs_eq : forall a b, eqs a b = true <-> a = b.
Proof.
  induction a as [|x a IH]; destruct b as [|y b]; cbn; split; intro H; try reflexivity; try discriminate.
  - apply andb_true_iff in H. destruct H as [H1 H2]. apply Z.eqb_eq in H1. apply IH in H2. subst. reflexivity.
  - inversion H; subst. rewrite Z.eqb_refl. cbn. apply eqs_refl.
Qed.

Lemma eqs_neq : forall a b, eqs a b = false <-> a <> b.
Proof.
  intros a b. split; intro H.
  - intro E. apply eqs_eq in E. congruence.
  - destruct (eqs a b) eqn:E; [|reflexivity]. apply eqs_eq in E. contradiction.
Qed.

Lemma eqs_sym : forall a b, eqs a b = eqs b a.
Proof.
  intros a b. destruct (eqs a b) eqn:E1, (eqs b a) eqn:E2; try reflexivity.
  - apply eqs_eq in E1. subst. rewrite eqs_refl in E2. discriminate.
  - apply eqs_eq in E2. subst. rewrite eqs_refl in E1. discriminate.
Qed.

Lemma seqs_eq : forall a b, seqs a b = true <-> a = b.
Proof.
  induction a as [|x a IH]; destruct b as [|y b]; cbn; split; intro H; try reflexivity; try discriminate.
  - apply andb_true_iff in H. destruct H as [H1 H2]. apply eqs_eq in H1. apply IH in H2. subst. reflexivity.
  - inversion H; subst. rewrite eqs_refl. cbn. apply IH. reflexivity.
Qed.

(* ---------------------------------------------------------------- splitting *)
Lemma split_on_nonnil : forall c s, split_on c s <> [].
Proof.
  intros c s. induction s as [|x r IH]; cbn; [discriminate|].
  destruct (x =? c); [discriminate|]. destruct (split_on c r); [contradiction|discriminate].
Qed.

Lemma split_on_nosep : forall c s p, In p (split_on c s) -> ~ In c p.
Proof.
  intros c s. induction s as [|x r IH]; cbn; intros p Hp.
  - destruct Hp as [<-|[]]. intros [].
  - destruct (x =? c) eqn:E.
    + destruct Hp as [<-|Hp]; [intros []|]. apply IH. exact Hp.
    + destruct (split_on c r) as [|q qs] eqn:Es.
      * destruct Hp as [<-|[]]. intros [H|[]]. apply Z.eqb_neq in E. congruence.
      * destruct Hp as [<-|Hp].
        -- intros [H|H]; [apply Z.eqb_neq in E; congruence|]. apply (IH q); [left; reflexivity|exact H].
        -- apply IH. right. exact Hp.
Qed.

Lemma gsplit_incl : forall s p, In p (gsplit s) -> In p (split_on SL s).
Proof.
  intros s p. unfold gsplit. destruct (rev (split_on SL s)) as [|q r] eqn:E; [tauto|].
  destruct q; [|tauto]. intro H.
  assert (Hs : split_on SL s = rev r ++ [[]]).
  { rewrite <- (rev_involutive (split_on SL s)), E. reflexivity. }
  rewrite Hs. apply in_or_app. left. exact H.
Qed.

Lemma gsplit_nosep : forall s p, In p (gsplit s) -> ~ In SL p.
Proof. intros s p H. apply (split_on_nosep SL s). apply gsplit_incl. exact H. Qed.

Lemma vfull_of_app : forall a b, vfull_of (a ++ b) = vfull_of a ++ vfull_of b.
Proof. intros a b. unfold vfull_of. rewrite map_app, concat_app. reflexivity. Qed.

(* ---------------------------------------------------------------- the tree: physical roots reachable from a node *)
Fixpoint all_phys (n : node) : list (list Z) :=
  match n with
  | Node nx ph _ =>
    ph ++ (fix go (l : list (list Z * node)) : list (list Z) :=
             match l with [] => [] | (_, c) :: r => all_phys c ++ go r end) nx
  end.
Definition vroots (t : vfs) : list (list Z) := all_phys (v_root t).

Lemma all_phys_self : forall n r, In r (n_phys n) -> In r (all_phys n).
Proof. intros [nx ph vf] r H. cbn in *. apply in_or_app. left. exact H. Qed.

Lemma all_phys_child : forall n k c r, find_child k (n_next n) = Some c -> In r (all_phys c) -> In r (all_phys n).
Proof.
  intros [nx ph vf] k c r Hf Hr. cbn in *. apply in_or_app. right.
  induction nx as [|[k' c'] nx IH]; cbn in *; [discriminate|].
  destruct (eqs k' k).
  - inversion Hf; subst. apply in_or_app. left. exact Hr.
  - apply in_or_app. right. apply IH. exact Hf.
Qed.

Definition under (root : node) (m : node) : Prop := forall r, In r (all_phys m) -> In r (all_phys root).

(* ---------------------------------------------------------------- containment (every setting of the switches, every tree) *)
Definition nosl (s : list Z) : Prop := ~ In SL s.
Definition okseg (s : list Z) : Prop := s <> dotdot /\ ~ In SL s.
(* p lies lexically inside one of the roots: root, then segments none of which is a dir-up *)
Definition inside (roots : list (list Z)) (p : list Z) : Prop :=
  exists root rem, In root roots /\ p = root ++ vfull_of rem /\ Forall okseg rem.

Lemma notdotdot_true : forall s, notdotdot s = true -> s <> dotdot.
Proof. intros s H. unfold notdotdot in H. apply negb_true_iff in H. apply eqs_neq in H. exact H. Qed.

Lemma under_child : forall root n k c, under root n -> find_child k (n_next n) = Some c -> under root c.
Proof. intros root n k c Hu Hf r Hr. apply Hu. eapply all_phys_child; eauto. Qed.

Lemma walk_cur_inv : forall segs nodes names ns nm root,
  Forall (under root) nodes -> Forall nosl names -> Forall nosl segs ->
  walk_cur segs nodes names = Ok (Some (ns, nm)) ->
  Forall (under root) ns /\ Forall nosl nm.
Proof.
  induction segs as [|s r IH]; cbn; intros nodes names ns nm root Hn Hnm Hs H.
  - inversion H; subst. split; assumption.
  - inversion Hs as [|? ? Hs1 Hs2]; subst.
    destruct (is_nil s); [exact (IH _ _ _ _ _ Hn Hnm Hs2 H)|].
    destruct nodes as [|n up]; [discriminate|].
    destruct (find_child s (n_next n)) as [c|] eqn:Ef; [|discriminate].
    eapply IH; [| | |exact H]; auto.
    constructor; [|assumption]. inversion Hn; subst. eapply under_child; eauto.
Qed.

Lemma walk_inv : forall segs nodes names ns nm rem root,
  Forall (under root) nodes -> Forall nosl names -> Forall nosl segs ->
  walk segs nodes names = (ns, nm, rem) ->
  Forall (under root) ns /\ Forall nosl nm /\ Forall nosl rem.
Proof.
  induction segs as [|s r IH]; cbn; intros nodes names ns nm rem root Hn Hnm Hs H.
  - inversion H; subst. repeat split; auto.
  - inversion Hs as [|? ? Hs1 Hs2]; subst.
    destruct (is_nil s); [exact (IH _ _ _ _ _ _ Hn Hnm Hs2 H)|].
    destruct nodes as [|n up].
    + inversion H; subst. repeat split; auto.
    + inversion Hn as [|? ? Hn1 Hn2]; subst.
      destruct (eqs s dotdot).
      * eapply IH; [| | |exact H]; auto. destruct names; cbn; [constructor|]. inversion Hnm; assumption.
      * destruct (find_child s (n_next n)) as [c|] eqn:Ef.
        -- eapply IH; [| | |exact H]; auto. constructor; [eapply under_child; eauto|]. constructor; assumption.
        -- inversion H; subst. repeat split; auto.
Qed.

Lemma fallback_inv : forall nodes names acc ns2 pre root,
  Forall (under root) nodes -> Forall nosl names ->
  fallback nodes names acc = Some (ns2, pre) ->
  Forall (under root) ns2 /\ ns2 <> [] /\
  exists popped, pre = vfull_of popped ++ acc /\ Forall okseg popped.
Proof.
  induction nodes as [|n up IH]; cbn; intros names acc ns2 pre root Hn Hnm H; [discriminate|].
  destruct names as [|nm names'].
  - inversion H; subst. repeat split; auto; [discriminate|]. exists []. split; [reflexivity|constructor].
  - destruct (is_nil (n_phys n) && notdotdot nm) eqn:Ec.
    + inversion Hn as [|? ? Hn1 Hn2]; subst. inversion Hnm as [|? ? Hm1 Hm2]; subst.
      destruct (IH names' (SL :: nm ++ acc) ns2 pre root Hn2 Hm2 H) as (Hu & Hne & popped & Hp & Hok).
      repeat split; auto. exists (popped ++ [nm]). split.
      * rewrite vfull_of_app. rewrite Hp. rewrite <- app_assoc. f_equal. unfold vfull_of. cbn. rewrite app_nil_r. reflexivity.
      * apply Forall_app. split; [assumption|]. constructor; [|constructor].
        apply andb_true_iff in Ec. destruct Ec as [_ Ec]. split; [apply notdotdot_true; assumption|assumption].
    + inversion H; subst. repeat split; auto; [discriminate|]. exists []. split; [reflexivity|constructor].
Qed.

Section Contain.
Variable d : defects.
Variable fsk : list Z -> kind.

Lemma try_roots_some : forall roots rem p, try_roots d fsk roots rem = Some p ->
  exists r, In r roots /\ p = r ++ rem /\ file_exists d fsk p = true.
Proof.
  induction roots as [|r0 rs IH]; cbn; intros rem p H; [discriminate|].
  destruct (file_exists d fsk (r0 ++ rem)) eqn:E.
  - inversion H; subst. exists r0. auto.
  - destruct (IH rem p H) as (r & Hi & Hp & He). exists r. auto.
Qed.

Lemma under_refl : forall n, under n n.
Proof. intros n r H. exact H. Qed.

Lemma giv_inside : forall t req curv p v,
  giv d fsk t req curv = Ok (Some (p, v)) ->
  inside (vroots t) p /\ file_exists d fsk p = true.
Proof.
  intros t req curv p v H. unfold giv in H.
  destruct (trim (cleanse req)) as [|c0 virt'] eqn:Ev; [discriminate|].
  set (virt := c0 :: virt') in *.
  (* the start of the walk *)
  assert (Hstart : forall ns nm vf,
     (if negb (c0 =? SL) && negb (is_nil curv)
      then match walk_cur (gsplit curv) [v_root t] [] with
           | Ok (Some (ns, nm)) => Ok (Some (ns, nm, curv ++ SL :: virt))
           | Ok None => Ok None | UB l => UB l | Throw l => Throw l end
      else Ok (Some ([v_root t], [], virt))) = Ok (Some (ns, nm, vf)) ->
     Forall (under (v_root t)) ns /\ Forall nosl nm).
  { intros ns nm vf Hs. destruct (negb (c0 =? SL) && negb (is_nil curv)).
    - destruct (walk_cur (gsplit curv) [v_root t] []) as [[[ns' nm']|]|l|l] eqn:Ew; try discriminate.
      inversion Hs; subst. eapply walk_cur_inv; [| | |exact Ew].
      + constructor; [apply under_refl|constructor].
      + constructor.
      + apply Forall_forall. intros x Hx. apply (gsplit_nosep curv). exact Hx.
    - inversion Hs; subst. split; [constructor; [apply under_refl|constructor]|constructor]. }
  match type of H with match ?S with _ => _ end = _ => destruct S as [[[[ns nm] vfr]|]|l|l] eqn:Es end; try discriminate.
  destruct (Hstart ns nm vfr eq_refl) as [Hns Hnm].
  set (virt1 := if d_drop_dotdot d then virt else vfull_of (ddnorm (segs_of virt))) in *.
  destruct (walk (gsplit virt1) ns nm) as [[ns1 nm1] rem] eqn:Ew.
  assert (Hw : Forall (under (v_root t)) ns1 /\ Forall nosl nm1 /\ Forall nosl rem).
  { eapply walk_inv; [| | |exact Ew]; auto. apply Forall_forall. intros x Hx. apply (gsplit_nosep virt1). exact Hx. }
  destruct Hw as (Hns1 & Hnm1 & Hrem).
  destruct ns1 as [|n1 ns1']; [discriminate|].
  assert (Hfb : forall ns2 pre,
     (if d_no_fallback d then Some (n1 :: ns1', []) else fallback (n1 :: ns1') nm1 []) = Some (ns2, pre) ->
     Forall (under (v_root t)) ns2 /\ exists popped, pre = vfull_of popped /\ Forall okseg popped).
  { intros ns2 pre Hf. destruct (d_no_fallback d).
    - inversion Hf; subst. split; [assumption|]. exists []. split; [reflexivity|constructor].
    - destruct (fallback_inv _ _ _ _ _ _ Hns1 Hnm1 Hf) as (Hu & _ & popped & Hp & Hok).
      split; [assumption|]. exists popped. rewrite app_nil_r in Hp. auto. }
  destruct (if d_no_fallback d then Some (n1 :: ns1', []) else fallback (n1 :: ns1') nm1 []) as [[ns2 pre]|] eqn:Ef; [|discriminate].
  destruct (Hfb ns2 pre eq_refl) as (Hns2 & popped & Hpre & Hpop).
  destruct ns2 as [|n2 ns2']; [discriminate|].
  destruct (try_roots d fsk (n_phys n2) (pre ++ vfull_of (filter notdotdot rem))) as [p'|] eqn:Et; [|discriminate].
  inversion H; subst p' v.
  destruct (try_roots_some _ _ _ Et) as (r & Hr & Hp & He).
  split; [|exact He].
  exists r, (popped ++ filter notdotdot rem). split; [|split].
  - inversion Hns2 as [|? ? Hu _]; subst. apply Hu. apply all_phys_self. exact Hr.
  - rewrite Hp, Hpre, vfull_of_app. reflexivity.
  - apply Forall_app. split; [assumption|]. apply Forall_forall. intros x Hx. apply filter_In in Hx.
    destruct Hx as [Hx1 Hx2]. split; [apply notdotdot_true; assumption|].
    rewrite Forall_forall in Hrem. apply Hrem. assumption.
Qed.

Lemma gip_loop_inside : forall t cs tf curv p v,
  gip_loop d fsk t cs tf curv = Ok (Some (p, v)) ->
  inside (vroots t) p /\ file_exists d fsk p = true.
Proof.
  intros t cs. induction cs as [|[vf phys] r IH]; cbn; intros tf curv p v H; [discriminate|].
  destruct (prefix_test d (pcomps phys) (pcomps tf)) as [restc| |]; [|eapply IH; eauto|discriminate].
  destruct (if d_substr d then substr_from (S (length phys)) tf else Some (fold_left pjoin restc [])) as [rest|]; [|discriminate].
  destruct (giv d fsk t (cleanse (lexnorm (vf ++ SL :: rest))) curv) as [[[p' v']|]|l|l] eqn:Eg; try discriminate.
  - inversion H; subst. eapply giv_inside; eauto.
  - eapply IH; eauto.
Qed.

(* C16 containment: whatever the request, the current file and the tree *)
Theorem get_info_inside : forall t req curp curv p v,
  get_info d fsk t req curp curv = Ok (Some (p, v)) ->
  inside (vroots t) p /\ file_exists d fsk p = true.
Proof.
  intros t req curp curv p v H.
  assert (Hstd : forall q w, get_info_std d fsk t req curp curv = Ok (Some (q, w)) ->
                 inside (vroots t) q /\ file_exists d fsk q = true).
  { intros q w Hs. unfold get_info_std in Hs.
    destruct (giv d fsk t req curv) as [[[p' v']|]|l|l] eqn:Eg; try discriminate.
    - inversion Hs; subst. eapply giv_inside; eauto.
    - unfold gip in Hs. eapply gip_loop_inside; eauto. }
  unfold get_info in H. destruct (rel_first d req curp curv).
  - destruct (gip d fsk t req curp curv) as [[[p' v']|]|l|l] eqn:Eg; try discriminate.
    + inversion H; subst. unfold gip in Eg. eapply gip_loop_inside; eauto.
    + eapply Hstd; eauto.
  - eapply Hstd; eauto.
Qed.

End Contain.

(* ---------------------------------------------------------------- no undefined behaviour, no exception (repaired, every tree) *)
Definition is_ok {A} (r : res A) : Prop := match r with Ok _ => True | _ => False end.

Lemma walk_cur_ok : forall segs nodes names, nodes <> [] -> is_ok (walk_cur segs nodes names).
Proof.
  induction segs as [|s r IH]; cbn; intros nodes names Hn; [exact I|].
  destruct (is_nil s); [apply IH; assumption|].
  destruct nodes as [|n up]; [contradiction|].
  destruct (find_child s (n_next n)); [apply IH; discriminate|exact I].
Qed.

Definition balanced (nodes : list node) (names : list (list Z)) : Prop :=
  nodes = [] \/ length nodes = S (length names).

Lemma walk_cur_balanced : forall segs nodes names ns nm,
  length nodes = S (length names) -> walk_cur segs nodes names = Ok (Some (ns, nm)) ->
  length ns = S (length nm).
Proof.
  induction segs as [|s r IH]; cbn; intros nodes names ns nm Hb H.
  - inversion H; subst. assumption.
  - destruct (is_nil s); [eapply IH; eauto|].
    destruct nodes as [|n up]; [discriminate|].
    destruct (find_child s (n_next n)); [|discriminate].
    eapply IH; [|exact H]. cbn in *. lia.
Qed.

Lemma walk_balanced : forall segs nodes names ns nm rem,
  balanced nodes names -> walk segs nodes names = (ns, nm, rem) -> balanced ns nm.
Proof.
  induction segs as [|s r IH]; cbn; intros nodes names ns nm rem Hb H.
  - inversion H; subst. assumption.
  - destruct (is_nil s); [eapply IH; eauto|].
    destruct nodes as [|n up].
    + inversion H; subst. left. reflexivity.
    + destruct Hb as [Hb|Hb]; [discriminate|].
      destruct (eqs s dotdot).
      * eapply IH; [|exact H]. destruct names as [|nm0 names']; cbn in *.
        -- left. destruct up; [reflexivity|cbn in Hb; lia].
        -- right. lia.
      * destruct (find_child s (n_next n)).
        -- eapply IH; [|exact H]. right. cbn in *. lia.
        -- inversion H; subst. right. assumption.
Qed.

Lemma fallback_some : forall nodes names acc, length nodes = S (length names) ->
  exists ns2 pre, fallback nodes names acc = Some (ns2, pre) /\ ns2 <> [].
Proof.
  induction nodes as [|n up IH]; intros names acc Hb; [cbn in Hb; lia|]. cbn.
  destruct names as [|nm names']; [eexists; eexists; split; [reflexivity|discriminate]|].
  destruct (is_nil (n_phys n) && notdotdot nm).
  - apply IH. cbn in Hb. lia.
  - eexists; eexists; split; [reflexivity|discriminate].
Qed.

Section NoUB.
Variable d : defects.
Variable fsk : list Z -> kind.
Hypothesis Hmm : d_mismatch3 d = false.
Hypothesis Hsub : d_substr d = false.

Lemma giv_ok : forall t req curv, is_ok (giv d fsk t req curv).
Proof.
  intros t req curv. unfold giv.
  destruct (trim (cleanse req)) as [|c0 virt']; [exact I|].
  set (virt := c0 :: virt').
  assert (Hst : forall S0, S0 = (if negb (c0 =? SL) && negb (is_nil curv)
      then match walk_cur (gsplit curv) [v_root t] [] with
           | Ok (Some (ns, nm)) => Ok (Some (ns, nm, curv ++ SL :: virt))
           | Ok None => Ok None | UB l => UB l | Throw l => Throw l end
      else Ok (Some ([v_root t], [], virt))) ->
      is_ok S0 /\ forall ns nm vf, S0 = Ok (Some (ns, nm, vf)) -> length ns = S (length nm)).
  { intros S0 ->. destruct (negb (c0 =? SL) && negb (is_nil curv)).
    - pose proof (walk_cur_ok (gsplit curv) [v_root t] []) as Hk.
      destruct (walk_cur (gsplit curv) [v_root t] []) as [[[ns' nm']|]|l|l] eqn:Ew;
        try (exfalso; apply Hk; discriminate).
      + split; [exact I|]. intros ns nm vf E. inversion E; subst.
        eapply walk_cur_balanced; [|exact Ew]. reflexivity.
      + split; [exact I|]. intros; discriminate.
    - split; [exact I|]. intros ns nm vf E. inversion E; subst. reflexivity. }
  match goal with |- is_ok (match ?S with _ => _ end) => destruct (Hst S eq_refl) as [Hok Hbal]; destruct S as [[[[ns nm] vfr]|]|l|l] end;
    try exact I; try contradiction.
  specialize (Hbal ns nm vfr eq_refl).
  set (virt1 := if d_drop_dotdot d then virt else vfull_of (ddnorm (segs_of virt))).
  destruct (walk (gsplit virt1) ns nm) as [[ns1 nm1] rem] eqn:Ew.
  pose proof (walk_balanced _ _ _ _ _ _ (or_intror Hbal) Ew) as Hb1.
  destruct ns1 as [|n1 ns1']; [exact I|].
  destruct Hb1 as [Hb1|Hb1]; [discriminate|].
  destruct (d_no_fallback d).
  - destruct (try_roots d fsk (n_phys n1) _); exact I.
  - destruct (fallback_some (n1 :: ns1') nm1 [] Hb1) as (ns2 & pre & Hf & Hne). rewrite Hf.
    destruct ns2 as [|n2 ns2']; [contradiction|].
    destruct (try_roots d fsk (n_phys n2) _); exact I.
Qed.

Lemma prefix_test_noub : forall a b, prefix_test d a b <> PUB.
Proof.
  induction a as [|x a IH]; destruct b as [|y b]; cbn; try discriminate.
  - rewrite Hmm. discriminate.
  - destruct (eqs x y); [apply IH|discriminate].
Qed.

Lemma gip_loop_ok : forall t cs tf curv, is_ok (gip_loop d fsk t cs tf curv).
Proof.
  intros t cs. induction cs as [|[vf phys] r IH]; cbn; intros tf curv; [exact I|].
  pose proof (prefix_test_noub (pcomps phys) (pcomps tf)) as Hp.
  destruct (prefix_test d (pcomps phys) (pcomps tf)) as [restc| |]; [|apply IH|contradiction].
  rewrite Hsub.
  pose proof (giv_ok t (cleanse (lexnorm (vf ++ SL :: fold_left pjoin restc []))) curv) as Hg.
  destruct (giv d fsk t (cleanse (lexnorm (vf ++ SL :: fold_left pjoin restc []))) curv) as [[[p v]|]|l|l];
    try exact I; try contradiction. apply IH.
Qed.

Theorem get_info_ok : forall t req curp curv, is_ok (get_info d fsk t req curp curv).
Proof.
  intros t req curp curv.
  assert (Hstd : is_ok (get_info_std d fsk t req curp curv)).
  { unfold get_info_std. pose proof (giv_ok t req curv) as Hg.
    destruct (giv d fsk t req curv) as [[[p v]|]|l|l]; try exact I; try contradiction.
    unfold gip. apply gip_loop_ok. }
  unfold get_info. destruct (rel_first d req curp curv); [|exact Hstd].
  pose proof (gip_loop_ok t (cands t)) as Hg. unfold gip.
  match goal with |- is_ok (match gip_loop d fsk t (cands t) ?tf ?cv with _ => _ end) =>
    specialize (Hg tf cv); destruct (gip_loop d fsk t (cands t) tf cv) as [[[p v]|]|l|l] end;
    try exact I; try contradiction. exact Hstd.
Qed.

End NoUB.

(* ---------------------------------------------------------------- gsplit of a rebuilt request, shape of ddnorm *)
Definition goodseg (s : list Z) : Prop := s <> [] /\ ~ In SL s.

Lemma split_on_single : forall c s, ~ In c s -> split_on c s = [s].
Proof.
  intros c s. induction s as [|x r IH]; cbn; intro H; [reflexivity|].
  destruct (x =? c) eqn:E; [apply Z.eqb_eq in E; exfalso; apply H; left; exact E|].
  rewrite IH; [reflexivity|]. intro Hin. apply H. right. exact Hin.
Qed.

Lemma split_on_app : forall c s t, ~ In c s -> split_on c (s ++ c :: t) = s :: split_on c t.
Proof.
  intros c s t. induction s as [|x r IH]; cbn; intro H.
  - rewrite Z.eqb_refl. reflexivity.
  - destruct (x =? c) eqn:E; [apply Z.eqb_eq in E; exfalso; apply H; left; exact E|].
    rewrite IH; [reflexivity|]. intro Hin. apply H. right. exact Hin.
Qed.

Lemma split_vfull : forall L, Forall goodseg L -> L <> [] -> split_on SL (vfull_of L) = [] :: L.
Proof.
  induction L as [|s L IH]; intros HL Hne; [contradiction|].
  inversion HL as [|? ? [Hs1 Hs2] HL']; subst.
  unfold vfull_of. cbn. fold (vfull_of L). f_equal.
  destruct L as [|s' L'].
  - cbn. rewrite app_nil_r. apply split_on_single. exact Hs2.
  - specialize (IH HL' ltac:(discriminate)).
    unfold vfull_of in *. cbn in *. rewrite split_on_app by exact Hs2.
    f_equal. inversion IH. reflexivity.
Qed.

Lemma last_good : forall L (s : list Z), Forall goodseg (s :: L) -> exists r x, rev (s :: L) = x :: r /\ x <> [].
Proof.
  intros L s H. destruct (rev (s :: L)) as [|x r] eqn:E.
  - apply (f_equal (@rev _)) in E. rewrite rev_involutive in E. discriminate.
  - exists r, x. split; [reflexivity|].
    assert (Hin : In x (s :: L)). { apply in_rev. rewrite E. left. reflexivity. }
    rewrite Forall_forall in H. destruct (H x Hin) as [Hx _]. exact Hx.
Qed.

Lemma gsplit_vfull : forall L, Forall goodseg L -> gsplit (vfull_of L) = match L with [] => [] | _ => [] :: L end.
Proof.
  intros L HL. destruct L as [|s L']; [reflexivity|].
  unfold gsplit. rewrite split_vfull by (auto; discriminate).
  destruct (last_good L' s HL) as (r & x & Hr & Hx).
  change ([] :: s :: L') with ([[]] ++ (s :: L')). rewrite rev_app_distr, Hr. cbn.
  destruct x; [contradiction|reflexivity].
Qed.

Lemma segs_of_good : forall s, Forall goodseg (segs_of s).
Proof.
  intros s. apply Forall_forall. intros x Hx. unfold segs_of in Hx. apply filter_In in Hx.
  destruct Hx as [H1 H2]. split.
  - destruct x; [discriminate|discriminate].
  - apply (gsplit_nosep s). exact H1.
Qed.

(* acc (top first) = clean segments on top of a block of dir-ups *)
Definition dshape (acc : list (list Z)) : Prop :=
  exists c k, acc = c ++ repeat dotdot k /\ Forall (fun s => s <> dotdot) c.

Lemma ddnorm_go_shape : forall segs acc, dshape acc -> dshape (rev (ddnorm_go segs acc)).
Proof.
  induction segs as [|s r IH]; cbn; intros acc Hs.
  - rewrite rev_involutive. exact Hs.
  - destruct (eqs s dotdot) eqn:E.
    + apply eqs_eq in E. subst s. destruct acc as [|a acc'].
      * apply IH. exists [], 1%nat. split; [reflexivity|constructor].
      * destruct (eqs a dotdot) eqn:Ea.
        -- apply eqs_eq in Ea. subst a. apply IH. destruct Hs as (c & k & Hc & Hf).
           destruct c as [|c0 c'].
           ++ exists [], (S k). cbn in *. rewrite <- Hc. split; [reflexivity|constructor].
           ++ cbn in Hc. inversion Hc; subst. inversion Hf; subst. contradiction.
        -- apply IH. destruct Hs as (c & k & Hc & Hf). destruct c as [|c0 c'].
           ++ cbn in Hc. destruct k; cbn in Hc; [discriminate|]. inversion Hc; subst. rewrite eqs_refl in Ea. discriminate.
           ++ cbn in Hc. inversion Hc; subst. exists c', k. split; [reflexivity|]. inversion Hf; assumption.
    + apply IH. destruct Hs as (c & k & Hc & Hf). exists (s :: c), k. subst. split; [reflexivity|].
      constructor; [apply eqs_neq; exact E|assumption].
Qed.

Lemma rev_repeat_dd : forall k, rev (repeat dotdot k) = repeat dotdot k.
Proof.
  induction k as [|k IH]; [reflexivity|]. cbn. rewrite IH.
  clear IH. induction k as [|k IH]; [reflexivity|]. cbn. rewrite IH. reflexivity.
Qed.

(* after ddnorm: a block of dir-ups, then none *)
Lemma ddnorm_shape : forall l, exists k c, ddnorm l = repeat dotdot k ++ c /\ Forall (fun s => s <> dotdot) c.
Proof.
  intros l. unfold ddnorm.
  destruct (ddnorm_go_shape l [] (ex_intro _ [] (ex_intro _ 0%nat (conj eq_refl (Forall_nil _))))) as (c & k & Hc & Hf).
  exists k, (rev c). split.
  - rewrite <- (rev_involutive (ddnorm_go l [])), Hc, rev_app_distr, rev_repeat_dd. reflexivity.
  - apply Forall_rev. exact Hf.
Qed.

Lemma ddnorm_go_in : forall segs acc x, In x (ddnorm_go segs acc) -> In x segs \/ In x acc.
Proof.
  induction segs as [|s r IH]; cbn; intros acc x H.
  - right. apply in_rev. exact H.
  - destruct (eqs s dotdot).
    + destruct acc as [|a acc'].
      * destruct (IH _ _ H) as [H1|[H1|[]]]; [left; right; exact H1|left; left; exact H1].
      * destruct (eqs a dotdot).
        -- destruct (IH _ _ H) as [H1|[H1|H1]]; [left; right; exact H1|left; left; exact H1|right; exact H1].
        -- destruct (IH _ _ H) as [H1|H1]; [left; right; exact H1|right; right; exact H1].
    + destruct (IH _ _ H) as [H1|[H1|H1]]; [left; right; exact H1|left; left; exact H1|right; exact H1].
Qed.

Lemma ddnorm_good : forall l, Forall goodseg l -> Forall goodseg (ddnorm l).
Proof.
  intros l H. apply Forall_forall. intros x Hx. unfold ddnorm in Hx.
  destruct (ddnorm_go_in _ _ _ Hx) as [H1|[]]. rewrite Forall_forall in H. apply H. exact H1.
Qed.

Lemma nodd_of_start : forall l, starts_dd (ddnorm l) = false -> Forall (fun s => s <> dotdot) (ddnorm l).
Proof.
  intros l H. destruct (ddnorm_shape l) as (k & c & Hc & Hf). rewrite Hc in *.
  destruct k; [exact Hf|]. cbn in H. discriminate.
Qed.

(* ---------------------------------------------------------------- the tree built by add_mapping represents the list of mappings *)
Fixpoint prefixb (p l : list (list Z)) : bool :=
  match p, l with
  | [], _ => true
  | a :: p', b :: l' => eqs a b && prefixb p' l'
  | _ :: _, [] => false
  end.
Definition is_some {A} (o : option A) : bool := match o with Some _ => true | None => false end.
Definition phys_at (q : list (list Z)) (n : node) : list (list Z) :=
  match node_at q n with Some m => n_phys m | None => [] end.

Lemma find_set_same : forall k c l, find_child k (set_child k c l) = Some c.
Proof.
  intros k c l. induction l as [|[k' c'] l IH]; cbn.
  - rewrite eqs_refl. reflexivity.
  - destruct (eqs k' k) eqn:E; cbn; rewrite E; [reflexivity|exact IH].
Qed.

Lemma find_set_other : forall s k c l, eqs s k = false -> find_child k (set_child s c l) = find_child k l.
Proof.
  intros s k c l Hn. induction l as [|[k' c'] l IH]; cbn.
  - rewrite Hn. reflexivity.
  - destruct (eqs k' s) eqn:E; cbn.
    + apply eqs_eq in E. subst k'. rewrite Hn. reflexivity.
    + destruct (eqs k' k); [reflexivity|exact IH].
Qed.

Lemma add_at_node : forall segs pre phys n q,
  let n' := fst (add_at segs pre phys n) in
  is_some (node_at q n') = is_some (node_at q n) || prefixb q segs /\
  phys_at q n' = phys_at q n ++ (if seqs q segs then [phys] else []).
Proof.
  induction segs as [|s rest IH]; intros pre phys n q; cbn.
  - destruct q as [|k q']; unfold phys_at; cbn.
    + split; reflexivity.
    + destruct (find_child k (n_next n)) as [c|]; cbn.
      * rewrite orb_false_r, app_nil_r. split; reflexivity.
      * split; reflexivity.
  - destruct (find_child s (n_next n)) as [c|] eqn:Ef.
    + destruct (add_at rest (pre ++ [s]) phys c) as [c' cr] eqn:Ea. cbn.
      destruct q as [|k q']; unfold phys_at; cbn.
      * rewrite app_nil_r. split; reflexivity.
      * destruct (eqs k s) eqn:Eks.
        -- apply eqs_eq in Eks. subst k. rewrite find_set_same, Ef.
           specialize (IH (pre ++ [s]) phys c q'). rewrite Ea in IH. cbn in IH. unfold phys_at in IH. exact IH.
        -- rewrite find_set_other by (rewrite eqs_sym; exact Eks). cbn.
           destruct (find_child k (n_next n)) as [ck|]; cbn.
           ++ rewrite orb_false_r, app_nil_r. split; reflexivity.
           ++ split; reflexivity.
    + destruct (add_at rest (pre ++ [s]) phys (Node [] [] (vfull_of (pre ++ [s])))) as [c' cr] eqn:Ea. cbn.
      destruct q as [|k q']; unfold phys_at; cbn.
      * rewrite app_nil_r. split; reflexivity.
      * destruct (eqs k s) eqn:Eks.
        -- apply eqs_eq in Eks. subst k. rewrite find_set_same, Ef.
           specialize (IH (pre ++ [s]) phys (Node [] [] (vfull_of (pre ++ [s]))) q'). rewrite Ea in IH. cbn in IH.
           unfold phys_at in IH. destruct IH as [IH1 IH2]. destruct q' as [|k2 q2]; cbn in *.
           ++ split; [destruct (node_at [] c'); [reflexivity|exact IH1]|exact IH2].
           ++ split; [exact IH1|exact IH2].
        -- rewrite find_set_other by (rewrite eqs_sym; exact Eks). cbn.
           destruct (find_child k (n_next n)) as [ck|]; cbn.
           ++ rewrite orb_false_r, app_nil_r. split; reflexivity.
           ++ split; reflexivity.
Qed.

Section Build.
Variable d : defects.

Definition has_prefixb (ms : list (list Z * list Z)) (path : list (list Z)) : bool :=
  is_nil path || existsb (fun m => prefixb path (vsegs (snd m))) ms.

Lemma build_snoc : forall ms m, build d (ms ++ [m]) = add_mapping d (build d ms) (fst m) (snd m).
Proof. intros ms m. unfold build. rewrite fold_left_app. reflexivity. Qed.

Lemma roots_at_snoc : forall ms m q,
  roots_at d (ms ++ [m]) q = roots_at d ms q ++ (if seqs q (vsegs (snd m)) then [root_of d (fst m)] else []).
Proof.
  intros ms m q. unfold roots_at. rewrite filter_app, map_app. cbn.
  destruct (seqs q (vsegs (snd m))); reflexivity.
Qed.

Lemma has_prefixb_snoc : forall ms m q,
  has_prefixb (ms ++ [m]) q = has_prefixb ms q || prefixb q (vsegs (snd m)).
Proof.
  intros ms m q. unfold has_prefixb. rewrite existsb_app. cbn. rewrite orb_false_r, orb_assoc. reflexivity.
Qed.

(* the representation invariant: which nodes exist, and what is mapped onto them *)
Lemma build_inv : forall ms q,
  is_some (node_at q (v_root (build d ms))) = has_prefixb ms q /\
  phys_at q (v_root (build d ms)) = roots_at d ms q.
Proof.
  intros ms. induction ms as [|m ms IH] using rev_ind; intros q.
  - unfold build, has_prefixb, phys_at. cbn. destruct q as [|k q']; cbn; split; reflexivity.
  - rewrite build_snoc, roots_at_snoc, has_prefixb_snoc. destruct (IH q) as [I1 I2].
    unfold add_mapping.
    pose proof (add_at_node (segs_of (cleanse (snd m))) [] (root_of d (fst m)) (v_root (build d ms)) q) as Ha.
    destruct (add_at (segs_of (cleanse (snd m))) [] (root_of d (fst m)) (v_root (build d ms))) as [r cr]. cbn in *.
    destruct Ha as [H1 H2]. rewrite H1, H2, I1, I2. unfold vsegs. split; reflexivity.
Qed.

End Build.

(* ---------------------------------------------------------------- the walk finds the deepest mapped prefix *)
(* deepest node along L, starting below n, that has a physical path; with what follows it *)
Fixpoint best (n : node) (L : list (list Z)) : option (node * list (list Z)) :=
  match L with
  | [] => if is_nil (n_phys n) then None else Some (n, [])
  | s :: r =>
    match find_child s (n_next n) with
    | Some c => match best c r with
                | Some x => Some x
                | None => if is_nil (n_phys n) then None else Some (n, s :: r)
                end
    | None => if is_nil (n_phys n) then None else Some (n, s :: r)
    end
  end.

Lemma best_some_phys : forall L n m rest, best n L = Some (m, rest) -> is_nil (n_phys m) = false.
Proof.
  induction L as [|s r IH]; cbn; intros n m rest H.
  - destruct (is_nil (n_phys n)) eqn:E; [discriminate|]. inversion H; subst. exact E.
  - destruct (find_child s (n_next n)) as [c|].
    + destruct (best c r) as [x|] eqn:Eb.
      * inversion H; subst. eapply IH; eauto.
      * destruct (is_nil (n_phys n)) eqn:E; [discriminate|]. inversion H; subst. exact E.
    + destruct (is_nil (n_phys n)) eqn:E; [discriminate|]. inversion H; subst. exact E.
Qed.

Lemma best_none_phys : forall L n, best n L = None -> is_nil (n_phys n) = true.
Proof.
  intros L n H. destruct L as [|s r]; cbn in H.
  - destruct (is_nil (n_phys n)); [reflexivity|discriminate].
  - destruct (find_child s (n_next n)) as [c|].
    + destruct (best c r); [discriminate|]. destruct (is_nil (n_phys n)); [reflexivity|discriminate].
    + destruct (is_nil (n_phys n)); [reflexivity|discriminate].
Qed.

(* what the mechanism computes after the walk: the physical paths to try and the remainder *)
Definition after_walk (w : list node * list (list Z) * list (list Z)) : option (list (list Z) * list Z) :=
  let '(ns1, nm1, rem) := w in
  match ns1 with
  | [] => None
  | _ => match fallback ns1 nm1 [] with
         | Some (n2 :: _, pre) => Some (n_phys n2, pre ++ vfull_of rem)
         | _ => None
         end
  end.

Lemma fallback_acc : forall nodes names acc,
  fallback nodes names acc =
  match fallback nodes names [] with Some (ns, pre) => Some (ns, pre ++ acc) | None => None end.
Proof.
  induction nodes as [|n up IH]; intros names acc; cbn; [reflexivity|].
  destruct names as [|nm names']; [reflexivity|].
  destruct (is_nil (n_phys n) && notdotdot nm); [|reflexivity].
  rewrite (IH names' (SL :: nm ++ acc)), (IH names' (SL :: nm ++ [])).
  destruct (fallback up names' []) as [[ns pre]|]; [|reflexivity].
  rewrite app_nil_r, <- app_assoc. reflexivity.
Qed.

Definition plainseg (s : list Z) : Prop := s <> [] /\ s <> dotdot.

Lemma fallback_pop : forall c ns s nm acc, is_nil (n_phys c) = true -> eqs s dotdot = false ->
  fallback (c :: ns) (s :: nm) acc = fallback ns nm (SL :: s ++ acc).
Proof. intros c ns s nm acc H1 H2. cbn. unfold notdotdot. rewrite H1, H2. reflexivity. Qed.

Lemma fallback_stop : forall n U NM acc, is_nil (n_phys n) = false -> fallback (n :: U) NM acc = Some (n :: U, acc).
Proof. intros n U NM acc H. cbn. destruct NM; [reflexivity|]. rewrite H. reflexivity. Qed.

Lemma fallback_stop_nil : forall n acc, fallback [n] [] acc = Some ([n], acc).
Proof. reflexivity. Qed.

Lemma mech_best : forall L n U NM, Forall plainseg L ->
  after_walk (walk L (n :: U) NM) =
  match best n L with
  | Some (m, rest) => Some (n_phys m, vfull_of rest)
  | None => match fallback (n :: U) NM [] with
            | Some (n2 :: _, pre) => Some (n_phys n2, pre ++ vfull_of L)
            | _ => None
            end
  end.
Proof.
  induction L as [|s r IH]; intros n U NM HL.
  - cbn [walk best after_walk].
    destruct (is_nil (n_phys n)) eqn:Ep.
    + reflexivity.
    + rewrite fallback_stop by exact Ep. rewrite app_nil_r. reflexivity.
  - inversion HL as [|? ? [Hs1 Hs2] HL']; subst.
    cbn [walk best].
    assert (En : is_nil s = false) by (destruct s; [contradiction|reflexivity]). rewrite En.
    assert (Ed : eqs s dotdot = false) by (apply eqs_neq; exact Hs2). rewrite Ed.
    destruct (find_child s (n_next n)) as [c|] eqn:Ef.
    + rewrite (IH c (n :: U) (s :: NM) HL').
      destruct (best c r) as [[m rest]|] eqn:Eb; [reflexivity|].
      pose proof (best_none_phys _ _ Eb) as Ec.
      rewrite (fallback_pop c (n :: U) s NM [] Ec Ed).
      destruct (is_nil (n_phys n)) eqn:Ep.
      * rewrite (fallback_acc (n :: U) NM (SL :: s ++ [])).
        destruct (fallback (n :: U) NM []) as [[[|n2 ns2] pre]|]; try reflexivity.
        f_equal. f_equal. rewrite app_nil_r, <- app_assoc. reflexivity.
      * rewrite !fallback_stop by exact Ep. cbn. rewrite app_nil_r. reflexivity.
    + cbn [after_walk].
      destruct (is_nil (n_phys n)) eqn:Ep.
      * reflexivity.
      * rewrite fallback_stop by exact Ep. reflexivity.
Qed.

Section Deepest.
Variable d : defects.
Variable ms : list (list Z * list Z).
Let root := v_root (build d ms).

Lemma node_at_app : forall p q n, node_at (p ++ q) n = match node_at p n with Some m => node_at q m | None => None end.
Proof.
  induction p as [|s p IH]; intros q n; cbn; [reflexivity|].
  destruct (find_child s (n_next n)); [apply IH|reflexivity].
Qed.

Lemma prefixb_app_l : forall p x l, prefixb (p ++ x) l = true -> prefixb p l = true.
Proof.
  induction p as [|a p IH]; intros x l H; [reflexivity|].
  destruct l as [|b l]; cbn in *; [discriminate|].
  apply andb_true_iff in H. destruct H as [H1 H2]. rewrite H1. cbn. eapply IH. exact H2.
Qed.

Lemma seqs_prefixb : forall p l, seqs p l = true -> prefixb p l = true.
Proof.
  induction p as [|a p IH]; intros l H; [reflexivity|].
  destruct l as [|b l]; cbn in *; [discriminate|].
  apply andb_true_iff in H. destruct H as [H1 H2]. rewrite H1. cbn. apply IH. exact H2.
Qed.

Lemma no_prefix_ext : forall q x, has_prefixb ms q = false -> has_prefixb ms (q ++ x) = false.
Proof.
  intros q x H. unfold has_prefixb in *. apply orb_false_iff in H. destruct H as [H1 H2].
  destruct q as [|a q]; [discriminate|]. cbn [app is_nil orb].
  destruct (existsb (fun m => prefixb (a :: q ++ x) (vsegs (snd m))) ms) eqn:E; [|reflexivity].
  apply existsb_exists in E. destruct E as (m & Hm & Hp). change (a :: q ++ x) with ((a :: q) ++ x) in Hp. apply prefixb_app_l in Hp.
  assert (existsb (fun m => prefixb (a :: q) (vsegs (snd m))) ms = true) by (apply existsb_exists; exists m; auto).
  congruence.
Qed.

Lemma no_prefix_roots : forall q, has_prefixb ms q = false -> roots_at d ms q = [].
Proof.
  intros q H. unfold roots_at. destruct (filter (fun m => seqs q (vsegs (snd m))) ms) as [|m l] eqn:E; [reflexivity|].
  assert (Hin : In m (filter (fun m => seqs q (vsegs (snd m))) ms)) by (rewrite E; left; reflexivity).
  apply filter_In in Hin. destruct Hin as [Hm Hs]. apply seqs_prefixb in Hs.
  unfold has_prefixb in H. apply orb_false_iff in H. destruct H as [_ H].
  assert (existsb (fun m => prefixb q (vsegs (snd m))) ms = true) by (apply existsb_exists; exists m; auto).
  congruence.
Qed.

Lemma no_prefix_deepest : forall r q, has_prefixb ms q = false -> deepest d ms q r = ([], r).
Proof.
  induction r as [|s r IH]; intros q H; cbn.
  - rewrite no_prefix_roots by exact H. reflexivity.
  - rewrite (IH (q ++ [s])) by (apply no_prefix_ext; exact H). cbn. rewrite no_prefix_roots by exact H. reflexivity.
Qed.

Lemma best_deepest : forall L pre n, node_at pre root = Some n ->
  deepest d ms pre L = match best n L with Some (m, rest) => (n_phys m, rest) | None => ([], L) end.
Proof.
  induction L as [|s r IH]; intros pre n Hn.
  - cbn. destruct (build_inv d ms pre) as [_ Hp]. unfold phys_at in Hp. fold root in Hp. rewrite Hn in Hp.
    rewrite <- Hp. destruct (n_phys n) eqn:Eph; cbn; rewrite ?Eph; reflexivity.
  - cbn [deepest best].
    assert (Hc : node_at (pre ++ [s]) root = find_child s (n_next n)).
    { rewrite node_at_app, Hn. cbn. destruct (find_child s (n_next n)); reflexivity. }
    destruct (build_inv d ms pre) as [_ Hp]. unfold phys_at in Hp. fold root in Hp. rewrite Hn in Hp.
    destruct (find_child s (n_next n)) as [c|] eqn:Ef.
    + rewrite (IH (pre ++ [s]) c Hc).
      destruct (best c r) as [[m rest]|] eqn:Eb.
      * rewrite (best_some_phys _ _ _ _ Eb). reflexivity.
      * cbn. rewrite <- Hp. destruct (n_phys n) eqn:Eph; cbn; rewrite ?Eph; reflexivity.
    + destruct (build_inv d ms (pre ++ [s])) as [Hs _]. fold root in Hs. rewrite Hc in Hs. cbn in Hs.
      rewrite no_prefix_deepest by (symmetry; exact Hs). cbn. rewrite <- Hp. destruct (n_phys n) eqn:Eph; cbn; rewrite ?Eph; reflexivity.
Qed.

End Deepest.

(* ---------------------------------------------------------------- the virtual route meets its specification (repaired) *)
Lemma walk_nil_nodes : forall L nm, fst (fst (walk L [] nm)) = [].
Proof.
  induction L as [|s r IH]; intros nm; cbn; [reflexivity|].
  destruct (is_nil s); [apply IH|reflexivity].
Qed.

Lemma walk_rem_forall : forall (P : list Z -> Prop) segs nodes names ns nm rem,
  Forall P segs -> walk segs nodes names = (ns, nm, rem) -> Forall P rem.
Proof.
  intros P. induction segs as [|s r IH]; cbn; intros nodes names ns nm rem Hs H.
  - inversion H; subst. constructor.
  - inversion Hs as [|? ? Hs1 Hs2]; subst.
    destruct (is_nil s); [eapply IH; eauto|].
    destruct nodes as [|n up]; [inversion H; subst; assumption|].
    destruct (eqs s dotdot); [eapply IH; eauto|].
    destruct (find_child s (n_next n)); [eapply IH; eauto|inversion H; subst; assumption].
Qed.

Lemma filter_notdd_id : forall l, Forall (fun s => s <> dotdot) l -> filter notdotdot l = l.
Proof.
  induction l as [|x l IH]; intro H; [reflexivity|]. inversion H; subst. cbn.
  unfold notdotdot at 1. assert (E : eqs x dotdot = false) by (apply eqs_neq; assumption).
  rewrite E. cbn. rewrite IH by assumption. reflexivity.
Qed.

Section VirtualSpec.
Variable fsk : list Z -> kind.

Theorem giv_spec : forall ms req curv,
  trim (cleanse req) <> [] ->
  (has_root (trim (cleanse req)) = true \/ curv = []) ->
  giv repaired fsk (build repaired ms) req curv =
  Ok (match spec_virtual repaired fsk ms (ddnorm (segs_of (trim (cleanse req)))) with
      | Some p => Some (p, trim (cleanse req))
      | None => None
      end).
Proof.
  intros ms req curv Hne Habs. unfold giv.
  destruct (trim (cleanse req)) as [|c0 virt'] eqn:Ev; [contradiction|].
  set (virt := c0 :: virt') in *.
  assert (Ec : negb (c0 =? SL) && negb (is_nil curv) = false).
  { destruct Habs as [Hr|Hc]; [cbn in Hr; rewrite Hr; reflexivity|subst curv; cbn; apply andb_false_r]. }
  rewrite Ec. cbn [d_drop_dotdot d_no_fallback repaired].
  set (root := v_root (build repaired ms)).
  set (L := ddnorm (segs_of virt)).
  assert (HgL : Forall goodseg L) by (apply ddnorm_good, segs_of_good).
  rewrite (gsplit_vfull L HgL).
  assert (Hw : walk (match L with [] => [] | _ => [] :: L end) [root] [] = walk L [root] []).
  { destruct L; reflexivity. }
  rewrite Hw. unfold spec_virtual.
  destruct (starts_dd L) eqn:Esd.
  - (* the path climbs above the virtual root *)
    destruct L as [|s L']; [discriminate|]. cbn in Esd.
    cbn [walk]. assert (En : is_nil s = false) by (apply eqs_eq in Esd; subst s; reflexivity).
    rewrite En, Esd. cbn [tl].
    pose proof (walk_nil_nodes L' []) as Hn. destruct (walk L' [] []) as [[ns1 nm1] rem]. cbn in Hn. subst ns1. reflexivity.
  - assert (Hnd : Forall (fun s => s <> dotdot) L) by (apply nodd_of_start; exact Esd).
    assert (Hpl : Forall plainseg L).
    { apply Forall_forall. intros x Hx. rewrite Forall_forall in HgL, Hnd. split; [apply HgL|apply Hnd]; assumption. }
    pose proof (mech_best L root [] [] Hpl) as Hm.
    pose proof (best_deepest repaired ms L [] root eq_refl) as Hd. fold root in Hd.
    destruct (walk L [root] []) as [[ns1 nm1] rem] eqn:Ew.
    assert (Hb0 : balanced [root] []) by (right; reflexivity).
    pose proof (walk_balanced _ _ _ _ _ _ Hb0 Ew) as Hb.
    pose proof (walk_rem_forall _ _ _ _ _ _ _ Hnd Ew) as Hr.
    rewrite (filter_notdd_id rem Hr).
    cbn [after_walk] in Hm.
    destruct ns1 as [|n1 ns1'].
    + (* cannot happen: nothing pops the root here; the specification agrees anyway *)
      destruct (best root L) as [[m rest]|] eqn:Eb; [discriminate|].
      rewrite fallback_stop_nil in Hm. discriminate.
    + destruct Hb as [Hb|Hb]; [discriminate|].
      destruct (fallback_some (n1 :: ns1') nm1 [] Hb) as (ns2 & pre & Hf & Hne2). rewrite Hf in *.
      destruct ns2 as [|n2 ns2']; [contradiction|].
      rewrite Hd. destruct (best root L) as [[m rest]|] eqn:Eb.
      * inversion Hm as [[Hp Hs]]. rewrite Hp, Hs. destruct (try_roots repaired fsk (n_phys m) (vfull_of rest)); reflexivity.
      * rewrite fallback_stop_nil in Hm. inversion Hm as [[Hp Hs]].
        pose proof (best_none_phys _ _ Eb) as Hnil. destruct (n_phys root) eqn:Er; [|discriminate].
        rewrite Hp. reflexivity.
Qed.

End VirtualSpec.

(* ---------------------------------------------------------------- reading the specification *)
Section Reading.
Variable d : defects.
Variable fsk : list Z -> kind.
Variable ms : list (list Z * list Z).

(* deepest: the prefix it picks has roots, no longer prefix of the path has any *)
Lemma deepest_char : forall L pre rs rest, deepest d ms pre L = (rs, rest) ->
  (rs <> [] -> exists P, L = P ++ rest /\ rs = roots_at d ms (pre ++ P) /\
                 forall P' x, rest = P' ++ x -> P' <> [] -> roots_at d ms (pre ++ P ++ P') = []) /\
  (rs = [] -> rest = L /\ forall P x, L = P ++ x -> roots_at d ms (pre ++ P) = []).
Proof.
  induction L as [|s r IH]; intros pre rs rest H; cbn in H.
  - inversion H; subst. split.
    + intros _. exists []. rewrite !app_nil_r. split; [reflexivity|]. split; [reflexivity|].
      intros P' x E Hne. destruct P'; [contradiction|discriminate].
    + intros Hn. split; [reflexivity|]. intros P x E. destruct P; [|discriminate]. rewrite app_nil_r. exact Hn.
  - destruct (deepest d ms (pre ++ [s]) r) as [rs' rem'] eqn:Ed.
    destruct (IH _ _ _ Ed) as [IH1 IH2].
    destruct rs' as [|r0 rs''].
    + cbn in H. inversion H; subst. destruct (IH2 eq_refl) as [_ Hnone].
      assert (Hdeep : forall P' x, s :: r = P' ++ x -> P' <> [] -> roots_at d ms (pre ++ P') = []).
      { intros P' x E Hne. destruct P' as [|a P'']; [contradiction|]. cbn in E. inversion E; subst.
        specialize (Hnone P'' x eq_refl). rewrite <- app_assoc in Hnone. exact Hnone. }
      split.
      * intros _. exists []. cbn. rewrite !app_nil_r. split; [reflexivity|]. split; [reflexivity|]. exact Hdeep.
      * intros Hn. split; [reflexivity|]. intros P x E. destruct P as [|a P''].
        -- rewrite app_nil_r. exact Hn.
        -- apply (Hdeep (a :: P'') x E). discriminate.
    + cbn in H. inversion H; subst. split; [|discriminate].
      intros _. destruct (IH1 ltac:(discriminate)) as (P0 & E0 & Er & Hd).
      exists (s :: P0). cbn. rewrite E0. split; [reflexivity|]. split.
      * rewrite Er, <- app_assoc. reflexivity.
      * intros P' x E Hne. specialize (Hd P' x E Hne). rewrite <- app_assoc in Hd. exact Hd.
Qed.

Lemma deepest_shallow : forall rest pre,
  (forall P' x, rest = P' ++ x -> P' <> [] -> roots_at d ms (pre ++ P') = []) ->
  deepest d ms pre rest = (roots_at d ms pre, rest).
Proof.
  induction rest as [|s r IH]; intros pre H; cbn; [reflexivity|].
  rewrite IH.
  - rewrite (H [s] r eq_refl ltac:(discriminate)). reflexivity.
  - intros P' x E Hne. rewrite <- app_assoc. apply (H (s :: P') x); [cbn; rewrite E; reflexivity|discriminate].
Qed.

Lemma deepest_unique : forall P pre rest,
  roots_at d ms (pre ++ P) <> [] ->
  (forall P' x, rest = P' ++ x -> P' <> [] -> roots_at d ms (pre ++ P ++ P') = []) ->
  deepest d ms pre (P ++ rest) = (roots_at d ms (pre ++ P), rest).
Proof.
  induction P as [|s P IH]; intros pre rest Hr Hd.
  - cbn. rewrite app_nil_r in *. apply deepest_shallow. exact Hd.
  - cbn. rewrite (IH (pre ++ [s]) rest).
    + rewrite <- app_assoc. cbn. destruct (roots_at d ms (pre ++ s :: P)) eqn:E; [contradiction|reflexivity].
    + rewrite <- app_assoc. exact Hr.
    + intros P' x E Hne. rewrite <- app_assoc. cbn. apply (Hd P' x E Hne).
Qed.

(* try_roots: the first root, in mapping order, under which the file exists *)
Lemma try_roots_first : forall roots rem p, try_roots d fsk roots rem = Some p <->
  exists r1 r r2, roots = r1 ++ r :: r2 /\ p = r ++ rem /\ file_exists d fsk (r ++ rem) = true /\
                  Forall (fun r' => file_exists d fsk (r' ++ rem) = false) r1.
Proof.
  induction roots as [|r0 rs IH]; intros rem p; cbn; split.
  - discriminate.
  - intros (r1 & r & r2 & E & _). destruct r1; discriminate.
  - destruct (file_exists d fsk (r0 ++ rem)) eqn:E0.
    + intros H. inversion H; subst. exists [], r0, rs. repeat split; auto.
    + intros H. apply IH in H. destruct H as (r1 & r & r2 & E & Hp & He & Hf).
      exists (r0 :: r1), r, r2. subst. repeat split; auto.
  - intros (r1 & r & r2 & E & Hp & He & Hf). destruct r1 as [|a r1]; cbn in E; inversion E; subst.
    + rewrite He. reflexivity.
    + inversion Hf; subst. rewrite H1. apply IH. exists r1, r, r2. repeat split; auto.
Qed.

Lemma try_roots_none : forall roots rem, try_roots d fsk roots rem = None <->
  Forall (fun r' => file_exists d fsk (r' ++ rem) = false) roots.
Proof.
  induction roots as [|r0 rs IH]; intros rem; cbn; split; intro H.
  - constructor.
  - reflexivity.
  - destruct (file_exists d fsk (r0 ++ rem)) eqn:E0; [discriminate|]. constructor; [exact E0|apply IH; exact H].
  - inversion H; subst. rewrite H2. apply IH. assumption.
Qed.

End Reading.

(* soundness and completeness of resolution against the list of mappings (repaired) *)
Theorem resolve_sound : forall fsk ms req curv p v,
  trim (cleanse req) <> [] -> (has_root (trim (cleanse req)) = true \/ curv = []) ->
  giv repaired fsk (build repaired ms) req curv = Ok (Some (p, v)) ->
  v = trim (cleanse req) /\
  exists P rest r1 root r2,
    ddnorm (segs_of (trim (cleanse req))) = P ++ rest /\
    roots_at repaired ms P = r1 ++ root :: r2 /\
    p = root ++ vfull_of rest /\
    file_exists repaired fsk p = true /\
    Forall (fun r' => file_exists repaired fsk (r' ++ vfull_of rest) = false) r1 /\
    (forall P' x, rest = P' ++ x -> P' <> [] -> roots_at repaired ms (P ++ P') = []) /\
    Forall (fun s => s <> dotdot) (P ++ rest).
Proof.
  intros fsk ms req curv p v Hne Habs H. rewrite giv_spec in H by assumption.
  unfold spec_virtual in H. set (L := ddnorm (segs_of (trim (cleanse req)))) in *.
  destruct (starts_dd L) eqn:Esd; [discriminate|].
  destruct (deepest repaired ms [] L) as [rs rest] eqn:Ed.
  destruct (try_roots repaired fsk rs (vfull_of rest)) as [p'|] eqn:Et; [|discriminate].
  inversion H; subst p' v. split; [reflexivity|].
  apply try_roots_first in Et. destruct Et as (r1 & root & r2 & Er & Hp & He & Hf).
  destruct (deepest_char repaired ms L [] rs rest Ed) as [Hc _].
  destruct (Hc ltac:(subst rs; destruct r1; discriminate)) as (P & EL & Ers & Hdeep).
  exists P, rest, r1, root, r2. cbn in *.
  split; [exact EL|]. split; [congruence|]. split; [exact Hp|]. split; [rewrite Hp; exact He|].
  split; [exact Hf|]. split; [exact Hdeep|].
  rewrite <- EL. apply nodd_of_start. exact Esd.
Qed.

Theorem resolve_complete : forall fsk ms req curv P rest r1 root r2,
  trim (cleanse req) <> [] -> (has_root (trim (cleanse req)) = true \/ curv = []) ->
  ddnorm (segs_of (trim (cleanse req))) = P ++ rest ->
  starts_dd (P ++ rest) = false ->
  roots_at repaired ms P = r1 ++ root :: r2 ->
  (forall P' x, rest = P' ++ x -> P' <> [] -> roots_at repaired ms (P ++ P') = []) ->
  file_exists repaired fsk (root ++ vfull_of rest) = true ->
  Forall (fun r' => file_exists repaired fsk (r' ++ vfull_of rest) = false) r1 ->
  giv repaired fsk (build repaired ms) req curv = Ok (Some (root ++ vfull_of rest, trim (cleanse req))).
Proof.
  intros fsk ms req curv P rest r1 root r2 Hne Habs EL Hsd Hr Hdeep He Hf.
  rewrite giv_spec by assumption. unfold spec_virtual. rewrite EL, Hsd.
  rewrite (deepest_unique repaired ms P [] rest).
  - cbn [app]. rewrite Hr.
    assert (Ht : try_roots repaired fsk (r1 ++ root :: r2) (vfull_of rest) = Some (root ++ vfull_of rest)).
    { apply try_roots_first. exists r1, root, r2. repeat split; auto. }
    rewrite Ht. reflexivity.
  - cbn [app]. rewrite Hr. destruct r1; discriminate.
  - exact Hdeep.
Qed.

(* a request that climbs above the virtual root is not found, whatever the tree *)
Theorem climb_not_found : forall fsk t req curv,
  (has_root (trim (cleanse req)) = true \/ curv = []) ->
  starts_dd (ddnorm (segs_of (trim (cleanse req)))) = true ->
  giv repaired fsk t req curv = Ok None.
Proof.
  intros fsk t req curv Habs Hsd. unfold giv.
  destruct (trim (cleanse req)) as [|c0 virt'] eqn:Ev; [reflexivity|].
  set (virt := c0 :: virt') in *.
  assert (Ec : negb (c0 =? SL) && negb (is_nil curv) = false).
  { destruct Habs as [Hr|Hc]; [cbn in Hr; rewrite Hr; reflexivity|subst curv; cbn; apply andb_false_r]. }
  rewrite Ec. cbn [d_drop_dotdot d_no_fallback repaired].
  set (L := ddnorm (segs_of virt)) in *.
  assert (HgL : Forall goodseg L) by (apply ddnorm_good, segs_of_good).
  rewrite (gsplit_vfull L HgL).
  destruct L as [|s L']; [discriminate|]. cbn in Hsd.
  cbn [walk is_nil]. assert (En : is_nil s = false) by (apply eqs_eq in Hsd; subst s; reflexivity).
  rewrite En, Hsd. cbn [tl].
  pose proof (walk_nil_nodes L' []) as Hn. destruct (walk L' [] []) as [[ns1 nm1] rem]. cbn in Hn. subst ns1. reflexivity.
Qed.

(* a physical path that lies under none of the mapped roots is not found *)
Lemma gip_loop_outside : forall fsk t cs tf curv,
  Forall (fun c => prefix_test repaired (pcomps (snd c)) (pcomps tf) = PNo) cs ->
  gip_loop repaired fsk t cs tf curv = Ok None.
Proof.
  intros fsk t cs. induction cs as [|[vf phys] r IH]; intros tf curv H; cbn; [reflexivity|].
  inversion H as [|? ? H1 H2]; subst. cbn in H1. rewrite H1. apply IH. exact H2.
Qed.

Theorem outside_not_found : forall fsk t req curp curv,
  giv repaired fsk t req curv = Ok None ->
  Forall (fun c => prefix_test repaired (pcomps (snd c)) (pcomps (gip_target repaired fsk req curp)) = PNo) (cands t) ->
  get_info repaired fsk t req curp curv = Ok None.
Proof.
  intros fsk t req curp curv Hg Ho.
  assert (Hgip : gip repaired fsk t req curp curv = Ok None) by (apply gip_loop_outside; exact Ho).
  unfold get_info, get_info_std. rewrite Hg, Hgip. destruct (rel_first repaired req curp curv); reflexivity.
Qed.

(* relative requests: all roots under which the target lies lead to one virtual path tv0 *)
Lemma gip_loop_same : forall fsk t cs tf curv tv0,
  Forall (fun c => forall rc, prefix_test repaired (pcomps (snd c)) (pcomps tf) = PMatch rc ->
                   lexnorm (fst c ++ SL :: fold_left pjoin rc []) = tv0) cs ->
  gip_loop repaired fsk t cs tf curv =
  if existsb (fun c => match prefix_test repaired (pcomps (snd c)) (pcomps tf) with PMatch _ => true | _ => false end) cs
  then giv repaired fsk t (cleanse tv0) curv else Ok None.
Proof.
  intros fsk t cs. induction cs as [|[vf phys] r IH]; intros tf curv tv0 H; cbn; [reflexivity|].
  inversion H as [|? ? H1 H2]; subst. cbn in H1.
  specialize (IH tf curv tv0 H2).
  destruct (prefix_test repaired (pcomps phys) (pcomps tf)) as [rc| |] eqn:Ep.
  - rewrite (H1 rc eq_refl). cbn [orb].
    pose proof (giv_ok repaired fsk t (cleanse tv0) curv) as Hok.
    destruct (giv repaired fsk t (cleanse tv0) curv) as [[x|]|l|l] eqn:Eg; try contradiction; [reflexivity|].
    rewrite IH. destruct (existsb _ r); reflexivity.
  - cbn [orb]. exact IH.
  - exfalso. eapply prefix_test_noub; [|exact Ep]. reflexivity.
Qed.

Theorem relative_to_current : forall fsk t req curp curv tv0 x,
  (rel_first repaired req curp curv = true \/ giv repaired fsk t req curv = Ok None) ->
  Forall (fun c => forall rc, prefix_test repaired (pcomps (snd c)) (pcomps (gip_target repaired fsk req curp)) = PMatch rc ->
                   lexnorm (fst c ++ SL :: fold_left pjoin rc []) = tv0) (cands t) ->
  Exists (fun c => exists rc, prefix_test repaired (pcomps (snd c)) (pcomps (gip_target repaired fsk req curp)) = PMatch rc) (cands t) ->
  giv repaired fsk t (cleanse tv0) curv = Ok (Some x) ->
  get_info repaired fsk t req curp curv = Ok (Some x).
Proof.
  intros fsk t req curp curv tv0 x Hfirst Hall Hex Hg.
  assert (Hgip : gip repaired fsk t req curp curv = Ok (Some x)).
  { unfold gip. rewrite (gip_loop_same fsk t (cands t) _ curv tv0 Hall).
    assert (E : existsb (fun c => match prefix_test repaired (pcomps (snd c)) (pcomps (gip_target repaired fsk req curp)) with
                                  | PMatch _ => true | _ => false end) (cands t) = true).
    { apply existsb_exists. apply Exists_exists in Hex. destruct Hex as (c & Hc & rc & Hrc). exists c. rewrite Hrc. auto. }
    rewrite E. exact Hg. }
  unfold get_info. destruct (rel_first repaired req curp curv) eqn:Er.
  - rewrite Hgip. reflexivity.
  - destruct Hfirst as [Hf|Hf]; [discriminate|]. unfold get_info_std. rewrite Hf. exact Hgip.
Qed.

(* ---------------------------------------------------------------- what is resolved can be read *)
Theorem read_after_resolve : forall fsk t req curp curv p v,
  get_info repaired fsk t req curp curv = Ok (Some (p, v)) ->
  exists r, read_file repaired fsk t p v = Ok r /\ r <> RdDirThrow /\
            (pbo_find (lexnorm p) (v_pbos t) = None -> r = RdDisk p).
Proof.
  intros fsk t req curp curv p v H.
  destruct (get_info_inside repaired fsk t req curp curv p v H) as [_ He].
  unfold file_exists in He. cbn [d_dir_is_file repaired] in He.
  unfold read_file, read_disk. cbn [d_pbo_by_ext d_dir_is_file repaired].
  destruct (eqs (extension p) pbo_ext).
  - destruct (pbo_find (lexnorm p) (v_pbos t)) as [pb|] eqn:Ef.
    + destruct (pbo_prefix pb) as [prefix|].
      * destruct (index_of (pbo_entry_name repaired prefix v (pbo_names pb)) (pbo_names pb) 0) as [i|];
          eexists; (split; [reflexivity|split; [discriminate|intro; discriminate]]).
      * eexists; (split; [reflexivity|split; [discriminate|intro; discriminate]]).
    + destruct (fsk p); try discriminate. eexists; split; [reflexivity|split; [discriminate|reflexivity]].
  - destruct (fsk p); try discriminate. eexists; split; [reflexivity|split; [discriminate|reflexivity]].
Qed.

(* execVM schedules the preprocessed text of the file it resolved *)
Theorem execvm_runs_file : forall fsk cont fuel t req p v,
  get_info repaired fsk t req [] [] = Ok (Some (p, v)) ->
  op_execvm repaired fsk cont fuel t req = ORun (pre_file repaired fsk cont fuel t p v).
Proof.
  intros fsk cont fuel t req p v H. unfold op_execvm. rewrite H.
  destruct (pre_file repaired fsk cont fuel t p v); reflexivity.
Qed.

(* ---------------------------------------------------------------- the PBO route (repaired): entries are readable under the prefix *)
Lemma ddnorm_go_plain : forall l acc, Forall (fun s => s <> dotdot) l -> ddnorm_go l acc = rev acc ++ l.
Proof.
  induction l as [|s r IH]; intros acc H; cbn.
  - rewrite app_nil_r. reflexivity.
  - inversion H; subst. assert (E : eqs s dotdot = false) by (apply eqs_neq; assumption). rewrite E.
    rewrite IH by assumption. cbn. rewrite <- app_assoc. reflexivity.
Qed.
Lemma ddnorm_plain : forall l, Forall (fun s => s <> dotdot) l -> ddnorm l = l.
Proof. intros l H. unfold ddnorm. rewrite ddnorm_go_plain by assumption. reflexivity. Qed.

Lemma segs_of_vfull : forall L, Forall goodseg L -> segs_of (vfull_of L) = L.
Proof.
  intros L H. unfold segs_of. rewrite gsplit_vfull by assumption.
  assert (Hf : filter nonempty L = L).
  { induction L as [|s L IH]; [reflexivity|]. inversion H as [|? ? [Hs _] HL]; subst. cbn.
    destruct s; [contradiction|]. cbn. rewrite IH by assumption. reflexivity. }
  destruct L; [reflexivity|]. cbn [filter nonempty is_nil negb]. exact Hf.
Qed.

Lemma best_exact : forall L n m, node_at L n = Some m -> is_nil (n_phys m) = false -> best n L = Some (m, []).
Proof.
  induction L as [|s r IH]; intros n m Hn Hp; cbn in *.
  - inversion Hn; subst. rewrite Hp. reflexivity.
  - destruct (find_child s (n_next n)) as [c|]; [|discriminate]. rewrite (IH c m Hn Hp). reflexivity.
Qed.

(* the virtual route on ANY tree, in terms of the deepest node with a physical path *)
Lemma giv_best : forall fsk t req curv,
  trim (cleanse req) <> [] -> (has_root (trim (cleanse req)) = true \/ curv = []) ->
  starts_dd (ddnorm (segs_of (trim (cleanse req)))) = false ->
  giv repaired fsk t req curv =
  Ok (match best (v_root t) (ddnorm (segs_of (trim (cleanse req)))) with
      | Some (m, rest) => match try_roots repaired fsk (n_phys m) (vfull_of rest) with
                          | Some p => Some (p, trim (cleanse req)) | None => None end
      | None => None
      end).
Proof.
  intros fsk t req curv Hne Habs Esd. unfold giv.
  destruct (trim (cleanse req)) as [|c0 virt'] eqn:Ev; [contradiction|].
  set (virt := c0 :: virt') in *.
  assert (Ec : negb (c0 =? SL) && negb (is_nil curv) = false).
  { destruct Habs as [Hr|Hc]; [cbn in Hr; rewrite Hr; reflexivity|subst curv; cbn; apply andb_false_r]. }
  rewrite Ec. cbn [d_drop_dotdot d_no_fallback repaired].
  set (root := v_root t).
  set (L := ddnorm (segs_of virt)) in *.
  assert (HgL : Forall goodseg L) by (apply ddnorm_good, segs_of_good).
  rewrite (gsplit_vfull L HgL).
  assert (Hw : walk (match L with [] => [] | _ => [] :: L end) [root] [] = walk L [root] []) by (destruct L; reflexivity).
  rewrite Hw.
  assert (Hnd : Forall (fun s => s <> dotdot) L) by (apply nodd_of_start; exact Esd).
  assert (Hpl : Forall plainseg L).
  { apply Forall_forall. intros x Hx. rewrite Forall_forall in HgL, Hnd. split; [apply HgL|apply Hnd]; assumption. }
  pose proof (mech_best L root [] [] Hpl) as Hm.
  destruct (walk L [root] []) as [[ns1 nm1] rem] eqn:Ew.
  assert (Hb0 : balanced [root] []) by (right; reflexivity).
  pose proof (walk_balanced _ _ _ _ _ _ Hb0 Ew) as Hb.
  pose proof (walk_rem_forall _ _ _ _ _ _ _ Hnd Ew) as Hr.
  rewrite (filter_notdd_id rem Hr).
  cbn [after_walk] in Hm.
  destruct ns1 as [|n1 ns1'].
  - destruct (best root L) as [[m rest]|] eqn:Eb; [discriminate|]. reflexivity.
  - destruct Hb as [Hb|Hb]; [discriminate|].
    destruct (fallback_some (n1 :: ns1') nm1 [] Hb) as (ns2 & pre & Hf & Hne2). rewrite Hf in *.
    destruct ns2 as [|n2 ns2']; [contradiction|].
    destruct (best root L) as [[m rest]|] eqn:Eb.
    + inversion Hm as [[Hp Hs]]. rewrite Hp, Hs. destruct (try_roots repaired fsk (n_phys m) (vfull_of rest)); reflexivity.
    + rewrite fallback_stop_nil in Hm. inversion Hm as [[Hp Hs]].
      pose proof (best_none_phys _ _ Eb) as Hnil. destruct (n_phys root) eqn:Er; [|discriminate].
      rewrite Hp. reflexivity.
Qed.

Section PboRoute.
Variable pbop : list Z.

Lemma fresh_chain_phys : forall comps acc q m, node_at q (fresh_chain comps acc pbop) = Some m -> n_phys m = [pbop].
Proof.
  induction comps as [|c r IH]; intros acc q m H.
  - destruct q as [|k q']; cbn in H; [inversion H; reflexivity|discriminate].
  - destruct q as [|k q']; cbn in H; [inversion H; reflexivity|].
    destruct (eqs c k); [|discriminate]. eapply IH. exact H.
Qed.

Lemma fresh_chain_full : forall comps acc, is_some (node_at comps (fresh_chain comps acc pbop)) = true.
Proof.
  induction comps as [|c r IH]; intros acc; cbn; [reflexivity|]. rewrite eqs_refl. apply IH.
Qed.

Lemma pbo_ins_facts : forall comps acc n, exists n',
  pbo_ins repaired comps acc pbop n = Ok n' /\
  (forall q m, node_at q n = Some m -> exists m', node_at q n' = Some m' /\ n_phys m' = n_phys m) /\
  (forall q m', node_at q n' = Some m' -> (exists m, node_at q n = Some m /\ n_phys m = n_phys m') \/ n_phys m' = [pbop]) /\
  is_some (node_at comps n') = true.
Proof.
  induction comps as [|c r IH]; intros acc n.
  - exists n. cbn. split; [reflexivity|]. split; [intros q m H; exists m; auto|]. split; [intros q m' H; left; exists m'; auto|reflexivity].
  - cbn [pbo_ins d_pbo_end_deref repaired].
    destruct (find_child c (n_next n)) as [ch|] eqn:Ef.
    + destruct (IH (pjoin acc c) ch) as (ch' & Hi & H1 & H2 & H3). rewrite Hi.
      eexists. split; [reflexivity|]. split; [|split].
      * intros q m Hq. destruct q as [|k q']; cbn in *.
        -- inversion Hq; subst. eexists. split; reflexivity.
        -- destruct (eqs k c) eqn:Ek.
           ++ apply eqs_eq in Ek. subst k. rewrite find_set_same. rewrite Ef in Hq. apply H1. exact Hq.
           ++ rewrite find_set_other by (rewrite eqs_sym; exact Ek). exists m. split; [exact Hq|reflexivity].
      * intros q m' Hq. destruct q as [|k q']; cbn in *.
        -- inversion Hq; subst. left. eexists. split; reflexivity.
        -- destruct (eqs k c) eqn:Ek.
           ++ apply eqs_eq in Ek. subst k. rewrite find_set_same in Hq. rewrite Ef. apply H2. exact Hq.
           ++ rewrite find_set_other in Hq by (rewrite eqs_sym; exact Ek). left. exists m'. split; [exact Hq|reflexivity].
      * cbn. rewrite find_set_same. exact H3.
    + eexists. split; [reflexivity|]. split; [|split].
      * intros q m Hq. destruct q as [|k q']; cbn in *.
        -- inversion Hq; subst. eexists. split; reflexivity.
        -- destruct (eqs k c) eqn:Ek.
           ++ apply eqs_eq in Ek. subst k. rewrite Ef in Hq. discriminate.
           ++ rewrite find_set_other by (rewrite eqs_sym; exact Ek). exists m. split; [exact Hq|reflexivity].
      * intros q m' Hq. destruct q as [|k q']; cbn in *.
        -- inversion Hq; subst. left. eexists. split; reflexivity.
        -- destruct (eqs k c) eqn:Ek.
           ++ apply eqs_eq in Ek. subst k. rewrite find_set_same in Hq. right. eapply fresh_chain_phys. exact Hq.
           ++ rewrite find_set_other in Hq by (rewrite eqs_sym; exact Ek). left. exists m'. split; [exact Hq|reflexivity].
      * cbn. rewrite find_set_same. apply fresh_chain_full.
Qed.

(* every node below the root carries exactly the archive's path *)
Definition pbo_tree (n : node) : Prop := forall q m, q <> [] -> node_at q n = Some m -> n_phys m = [pbop].

Lemma pbo_files_facts : forall names prefix root, pbo_tree root -> exists root',
  pbo_files repaired names prefix pbop root = Ok root' /\ pbo_tree root' /\
  (forall q, is_some (node_at q root) = true -> is_some (node_at q root') = true) /\
  (forall nm, In nm names -> is_some (node_at (pcomps (entry_path repaired prefix nm)) root') = true).
Proof.
  induction names as [|nm r IH]; intros prefix root Ht.
  - exists root. cbn. split; [reflexivity|]. split; [exact Ht|]. split; [auto|intros nm []].
  - cbn [pbo_files d_pbo_native repaired].
    destruct (pcomps (entry_path repaired prefix nm)) as [|c cs] eqn:Ec.
    + destruct (IH prefix root Ht) as (root' & Hf & Ht' & Hk & Hn). exists root'. split; [exact Hf|]. split; [exact Ht'|]. split; [exact Hk|].
      intros nm' [<-|Hin]; [rewrite Ec; reflexivity|apply Hn; exact Hin].
    + destruct (pbo_ins_facts (c :: cs) [] root) as (root1 & Hi & H1 & H2 & H3). rewrite Hi.
      assert (Ht1 : pbo_tree root1).
      { intros q m Hq Hm. destruct (H2 q m Hm) as [(m0 & Hm0 & Hp)|Hp]; [|exact Hp]. rewrite <- Hp. eapply Ht; eauto. }
      destruct (IH prefix root1 Ht1) as (root' & Hf & Ht' & Hk & Hn). exists root'. split; [exact Hf|]. split; [exact Ht'|]. split.
      * intros q Hq. apply Hk. destruct (node_at q root) as [m|] eqn:Em; [|discriminate].
        destruct (H1 q m Em) as (m' & Hm' & _). rewrite Hm'. reflexivity.
      * intros nm' [<-|Hin]; [rewrite Ec; apply Hk; exact H3|apply Hn; exact Hin].
Qed.

Lemma index_of_some : forall x l i, In x l -> exists j, index_of x l i = Some (i + j)%nat /\ nth_error l j = Some x.
Proof.
  induction l as [|y l IH]; intros i Hin; [destruct Hin|]. cbn.
  destruct (eqs y x) eqn:E.
  - apply eqs_eq in E. subst y. exists 0%nat. rewrite Nat.add_0_r. split; reflexivity.
  - destruct Hin as [->|Hin]; [rewrite eqs_refl in E; discriminate|].
    destruct (IH (S i) Hin) as (j & Hj & Hn). exists (S j). rewrite Hj. split; [f_equal; lia|exact Hn].
Qed.

Definition pseg (s : list Z) : Prop := s <> [] /\ s <> dotdot /\ ~ In SL s.

Theorem pbo_entry_readable : forall fsk prefix names t nm L,
  add_pbo repaired vfs_empty {| pbo_path := pbop; pbo_prefix := Some prefix; pbo_names := names |} = Ok t ->
  fsk pbop = KFile -> eqs (extension pbop) pbo_ext = true ->
  In nm names ->
  pcomps (entry_path repaired prefix nm) = L -> L <> [] -> Forall pseg L ->
  pbo_wanted (vfull_of L) = entry_path repaired prefix nm ->
  trim (cleanse (vfull_of L)) = vfull_of L ->
  get_info repaired fsk t (vfull_of L) [] [] = Ok (Some (pbop, vfull_of L)) /\
  exists j nm', read_file repaired fsk t pbop (vfull_of L) = Ok (RdPbo (lexnorm pbop) j) /\
                nth_error names j = Some nm' /\
                entry_path repaired prefix nm' = entry_path repaired prefix nm.
Proof.
  intros fsk prefix names t nm L Ha Hk Hext Hin HL Hne Hps Hnorm Htrim.
  unfold add_pbo in Ha. cbn in Ha.
  assert (Ht0 : pbo_tree (Node [] [] [SL])).
  { intros q m Hq Hm. destruct q; [contradiction|discriminate]. }
  destruct (pbo_files_facts names prefix _ Ht0) as (root' & Hf & Ht' & _ & Hn). rewrite Hf in Ha. inversion Ha; subst t. clear Ha.
  assert (HgL : Forall goodseg L).
  { apply Forall_forall. intros x Hx. rewrite Forall_forall in Hps. destruct (Hps x Hx) as (A & _ & C). split; assumption. }
  assert (HndL : Forall (fun s => s <> dotdot) L).
  { apply Forall_forall. intros x Hx. rewrite Forall_forall in Hps. destruct (Hps x Hx) as (_ & B & _). exact B. }
  assert (Hsegs : ddnorm (segs_of (trim (cleanse (vfull_of L)))) = L).
  { rewrite Htrim, segs_of_vfull by assumption. apply ddnorm_plain. exact HndL. }
  assert (Hvne : trim (cleanse (vfull_of L)) <> []).
  { rewrite Htrim. destruct L; [contradiction|]. discriminate. }
  assert (Habs : has_root (trim (cleanse (vfull_of L))) = true).
  { rewrite Htrim. destruct L; [contradiction|]. reflexivity. }
  (* the leaf *)
  specialize (Hn nm Hin). rewrite HL in Hn.
  destruct (node_at L root') as [leaf|] eqn:El; [|discriminate].
  assert (Hlp : n_phys leaf = [pbop]) by (eapply Ht'; eauto).
  split.
  - unfold get_info. assert (Er : rel_first repaired (vfull_of L) [] [] = false).
    { unfold rel_first. cbn. apply andb_false_r. }
    rewrite Er. unfold get_info_std.
    rewrite giv_best; [|exact Hvne|left; exact Habs|rewrite Hsegs; destruct L as [|s L']; [reflexivity|]].
    + rewrite Hsegs. cbn [v_root]. rewrite (best_exact L root' leaf El) by (rewrite Hlp; reflexivity).
      rewrite Hlp. cbn [try_roots vfull_of map concat]. rewrite app_nil_r.
      unfold file_exists. rewrite Hk. rewrite Htrim. reflexivity.
    + cbn. inversion HndL; subst. apply eqs_neq. assumption.
  - unfold read_file. rewrite Hext. cbn [v_pbos pbo_find]. rewrite eqs_refl. cbn [pbo_prefix pbo_names].
    unfold pbo_entry_name. cbn [d_pbo_substr repaired]. rewrite Hnorm.
    destruct (find (fun nm0 => eqs (entry_path repaired prefix nm0) (entry_path repaired prefix nm)) names) as [nm'|] eqn:Efd.
    + apply find_some in Efd. destruct Efd as [Hin' He']. apply eqs_eq in He'.
      destruct (index_of_some nm' names 0 Hin') as (j & Hj & Hnth). rewrite Hj. cbn.
      exists j, nm'. repeat split; auto.
    + exfalso. pose proof (find_none _ _ Efd nm Hin) as Hx. cbn in Hx. rewrite eqs_refl in Hx. discriminate.
Qed.

End PboRoute.

(* ---------------------------------------------------------------- m_path_elements of a built tree: the candidates of the physical route *)
Definition vf_of (q : list (list Z)) : list Z := match q with [] => [SL] | _ => vfull_of q end.
Definition vfull_at (q : list (list Z)) (n : node) : list Z :=
  match node_at q n with Some m => n_vfull m | None => [] end.

Lemma add_at_elems : forall segs pre phys n q,
  let n' := fst (add_at segs pre phys n) in
  let cr := snd (add_at segs pre phys n) in
  is_some (node_at q n') = true ->
  (is_some (node_at q n) = true /\ vfull_at q n' = vfull_at q n) \/
  (is_some (node_at q n) = false /\ In (pre ++ q) cr /\ vfull_at q n' = vfull_of (pre ++ q)).
Proof.
  induction segs as [|s rest IH]; intros pre phys n q; cbn.
  - intros H. left. destruct q as [|k q']; unfold vfull_at in *; cbn in *; [split; reflexivity|].
    destruct (find_child k (n_next n)); [split; [exact H|reflexivity]|discriminate].
  - destruct (find_child s (n_next n)) as [c|] eqn:Ef.
    + pose proof (IH (pre ++ [s]) phys c) as IHc.
      destruct (add_at rest (pre ++ [s]) phys c) as [c' cr] eqn:Ea. cbn in *.
      destruct q as [|k q']; unfold vfull_at in *; cbn.
      * intros _. left. split; reflexivity.
      * destruct (eqs k s) eqn:Eks.
        -- apply eqs_eq in Eks. subst k. rewrite find_set_same, Ef. intros H.
           specialize (IHc q' H). rewrite <- app_assoc in IHc. exact IHc.
        -- rewrite find_set_other by (rewrite eqs_sym; exact Eks). intros H. left.
           destruct (find_child k (n_next n)); [split; [exact H|reflexivity]|discriminate].
    + pose proof (IH (pre ++ [s]) phys (Node [] [] (vfull_of (pre ++ [s])))) as IHc.
      destruct (add_at rest (pre ++ [s]) phys (Node [] [] (vfull_of (pre ++ [s])))) as [c' cr] eqn:Ea. cbn in *.
      destruct q as [|k q']; unfold vfull_at in *; cbn.
      * intros _. left. split; reflexivity.
      * destruct (eqs k s) eqn:Eks.
        -- apply eqs_eq in Eks. subst k. rewrite find_set_same, Ef. intros H. right. split; [reflexivity|].
           specialize (IHc q' H). rewrite <- app_assoc in IHc. cbn in IHc.
           destruct q' as [|k2 q2].
           ++ cbn in *. split; [left; reflexivity|].
              destruct IHc as [[_ Hv]|[Hf _]]; [exact Hv|discriminate].
           ++ cbn in IHc. destruct IHc as [[Hf _]|[_ [Hi Hv]]]; [discriminate|]. split; [right; exact Hi|exact Hv].
        -- rewrite find_set_other by (rewrite eqs_sym; exact Eks). intros H. left.
           destruct (find_child k (n_next n)); [split; [exact H|reflexivity]|discriminate].
Qed.

Section Cands.
Variable d : defects.

Lemma build_elems : forall ms q,
  is_some (node_at q (v_root (build d ms))) = true ->
  In q (v_elems (build d ms)) /\ vfull_at q (v_root (build d ms)) = vf_of q.
Proof.
  intros ms. induction ms as [|m ms IH] using rev_ind; intros q H.
  - unfold build in *. cbn in *. destruct q as [|k q']; [|discriminate]. split; [left; reflexivity|reflexivity].
  - rewrite build_snoc in *. unfold add_mapping in *.
    pose proof (add_at_elems (segs_of (cleanse (snd m))) [] (root_of d (fst m)) (v_root (build d ms)) q) as Ha.
    destruct (add_at (segs_of (cleanse (snd m))) [] (root_of d (fst m)) (v_root (build d ms))) as [r cr]. cbn in *.
    destruct (Ha H) as [[Hs Hv]|[Hs [Hi Hv]]].
    + destruct (IH q Hs) as [I1 I2]. split; [apply in_or_app; left; exact I1|rewrite Hv; exact I2].
    + split; [apply in_or_app; right; exact Hi|]. rewrite Hv. destruct q; [cbn in Hs; discriminate|reflexivity].
Qed.

Lemma cands_in : forall t vf r, In (vf, r) (cands t) <->
  exists q m, In q (v_elems t) /\ node_at q (v_root t) = Some m /\ vf = n_vfull m /\ In r (n_phys m).
Proof.
  intros t vf r. unfold cands. rewrite in_flat_map. split.
  - intros (q & Hq & Hin). destruct (node_at q (v_root t)) as [m|] eqn:Em; [|destruct Hin].
    apply in_map_iff in Hin. destruct Hin as (p & Hp & Hpi). inversion Hp; subst. exists q, m. auto.
  - intros (q & m & Hq & Hm & Hv & Hr). exists q. split; [exact Hq|]. rewrite Hm. apply in_map_iff. exists r. subst. auto.
Qed.

(* the candidates of the physical route of a built tree are exactly the mapped (prefix, root) pairs *)
Lemma cands_build : forall ms vf r, In (vf, r) (cands (build d ms)) <->
  exists q, vf = vf_of q /\ In r (roots_at d ms q).
Proof.
  intros ms vf r. rewrite cands_in. split.
  - intros (q & m & Hq & Hm & Hv & Hr). exists q.
    destruct (build_inv d ms q) as [_ Hp]. unfold phys_at in Hp. rewrite Hm in Hp.
    destruct (build_elems ms q ltac:(rewrite Hm; reflexivity)) as [_ Hvf]. unfold vfull_at in Hvf. rewrite Hm in Hvf.
    split; [congruence|rewrite <- Hp; exact Hr].
  - intros (q & Hv & Hr).
    destruct (build_inv d ms q) as [Hs Hp].
    destruct (node_at q (v_root (build d ms))) as [m|] eqn:Em.
    + destruct (build_elems ms q ltac:(rewrite Em; reflexivity)) as [Hin Hvf]. unfold vfull_at in Hvf. rewrite Em in Hvf.
      unfold phys_at in Hp. rewrite Em in Hp. exists q, m. repeat split; auto; [congruence|rewrite Hp; exact Hr].
    + unfold phys_at in Hp. rewrite Em in Hp. rewrite <- Hp in Hr. destruct Hr.
Qed.

End Cands.

(* relative_to_current with its hypotheses on the list of mappings *)
Theorem relative_to_current_ms : forall fsk ms req curp curv tv0 x,
  (rel_first repaired req curp curv = true \/ giv repaired fsk (build repaired ms) req curv = Ok None) ->
  (forall q r rc, In r (roots_at repaired ms q) ->
     prefix_test repaired (pcomps r) (pcomps (gip_target repaired fsk req curp)) = PMatch rc ->
     lexnorm (vf_of q ++ SL :: fold_left pjoin rc []) = tv0) ->
  (exists q r rc, In r (roots_at repaired ms q) /\
     prefix_test repaired (pcomps r) (pcomps (gip_target repaired fsk req curp)) = PMatch rc) ->
  giv repaired fsk (build repaired ms) (cleanse tv0) curv = Ok (Some x) ->
  get_info repaired fsk (build repaired ms) req curp curv = Ok (Some x).
Proof.
  intros fsk ms req curp curv tv0 x Hfirst Hall Hex Hg.
  apply (relative_to_current fsk (build repaired ms) req curp curv tv0 x Hfirst); [| |exact Hg].
  - apply Forall_forall. intros [vf r] Hin rc Hrc. cbn in *.
    apply cands_build in Hin. destruct Hin as (q & Hv & Hr). subst vf. eapply Hall; eauto.
  - destruct Hex as (q & r & rc & Hr & Hrc). apply Exists_exists. exists (vf_of q, r). split.
    + apply cands_build. exists q. auto.
    + exists rc. exact Hrc.
Qed.
