From Coq Require Import ZArith List ExtrOcamlBasic.
From SqfVerif Require Import PP.Spec PP.Tracker PP.FramePos.
Extraction Language OCaml.
Extraction "../ocaml/gen/pp_model.ml" preprocess render as_is repaired reported find_prov recognises tk_init
  read lex blex parse_directive itrack fdiag fafter.
