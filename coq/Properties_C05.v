(* C05 - the operand stack is partitioned per scope; a scope yields exactly one value.
   Theorems only; proofs in VM/C05Proofs.v and VM/C05Regions.v. They are about the VM model
   VM/VmDefs.v + VM/VmExec.v, tied to src/runtime/{runtime.cpp,frame.h,context.h}, src/opcodes/*.h and the
   control-structure operators by the step-level correspondence of checks/C05.py. *)
From Coq Require Import String Ascii.
From Coq Require Import ZArith List Bool.
From SqfVerif Require Import Gen.DiagCodes Gen.Overloads VM.VmDefs VM.VmExec VM.C05Proofs VM.C05Regions VM.C05ExitValue.
Import ListNotations.
Local Open Scope string_scope.
Local Open Scope list_scope.

(* The partition invariant: along every context's frame list (top first) the bases never increase and the top
   base is at most the stack height.  It holds initially, after loading a script, and is preserved by EVERY
   action of the runtime - every instruction, operator, exit behaviour, frame completion, exitWith, breakOut,
   throw, error unwinding, the scheduler's context switches, spawn, terminate, the time limit. *)
Theorem C05_invariant_initial : forall d m t l s code, RInv (load (create_rt d m t l s) code).
Proof. intros. apply load_inv, create_inv. Qed.
Print Assumptions C05_invariant_initial.

Theorem C05_invariant_preserved : forall a r x r', execute a r = Ok (x, r') -> RInv r -> RInv r'.
Proof. exact execute_inv. Qed.
Print Assumptions C05_invariant_preserved.

Theorem C05_invariant_one_pass : forall r it, do_iter r = Ok it -> RInv r -> RInv (rt_of it).
Proof. exact do_iter_inv. Qed.
Print Assumptions C05_invariant_one_pass.

(* hence for every history of loads and actions *)
Inductive op := OLoad (c:code) | OAct (a:action).
Fixpoint run_ops (ops:list op) (r:rt) : res rt :=
  match ops with
  | [] => Ok r
  | OLoad c :: rest => run_ops rest (load r c)
  | OAct a :: rest => match execute a r with Ok (_, r') => run_ops rest r' | Unsupported w => Unsupported w | Hang w => Hang w | UB w => UB w end
  end.
Theorem C05_invariant_reachable : forall ops d m t l s r, run_ops ops (create_rt d m t l s) = Ok r -> RInv r.
Proof.
  intros ops d m t l s. generalize (create_inv d m t l s). generalize (create_rt d m t l s).
  induction ops as [|o ops IH]; intros r0 R0 r H; cbn in H.
  - inversion H; subst; exact R0.
  - destruct o as [c|a].
    + eapply IH; [|exact H]. apply load_inv; exact R0.
    + destruct (execute a r0) as [[x r1]| | |] eqn:E; try discriminate. eapply IH; [|exact H]. eapply execute_inv; eauto.
Qed.
Print Assumptions C05_invariant_reachable.

(* A scope can only consume operands it produced itself: in one pass of the interpreter loop - whatever it does:
   an instruction with any operator, an exit behaviour, completion of the scope, exitWith, breakOut, throw,
   unwinding to an error handler - every operand below the protected height survives, the protected height
   being the base of the current scope before and after the pass (m <= both). *)
Theorem C05_lower_regions_intact : forall r c it c' m, RInv r -> cur r = Some c -> do_iter r = Ok it ->
  cur (rt_of it) = Some c' -> m <= top_base c -> m <= top_base c' -> keep m c c'.
Proof. exact do_iter_regions. Qed.
Print Assumptions C05_lower_regions_intact.

(* A finished scope hands exactly one value to its caller: the top of its region, or nil when the region is
   empty; its own region is gone and the caller's operands are untouched. *)
Theorem C05_completion_exactly_one : forall c1 f g rest, Inv c1 -> c_frames c1 = f :: g :: rest ->
  let c4 := complete false c1 in
  c_frames c4 = g :: rest /\ height c4 = f_base f + 1 /\ below c4 (f_base f) = below c1 (f_base f) /\
  (exists v, c_values c4 = v :: below c1 (f_base f) /\ v = match pop_value c1 with Some (x, _) => x | None => VNil end).
Proof. exact complete_spec. Qed.
Print Assumptions C05_completion_exactly_one.

Theorem C05_completion_is_what_runs : forall r c r1 c1, cur r = Some c -> r_exit_req r = false -> c_suspended c = false ->
  r_state r = StRunning -> c_frames c <> [] -> frame_next frame_fuel r c = Ok (FDone, r1, c1) -> r_err r1 = false ->
  length (c_frames c1) = length (c_frames c) ->
  do_iter r = Ok (Continue (upd_cur r1 (complete (defect r "block_value_dropped") c1))).
Proof. exact do_iter_completes. Qed.
Print Assumptions C05_completion_is_what_runs.

(* After a statement separator no operand of the finished statement remains. *)
Theorem C05_end_statement_empties_region : forall r c, Inv c -> c_frames c <> [] ->
  exec_instr IEnd r c = Ok (r, clear_values c) /\ height (clear_values c) = top_base (clear_values c).
Proof. exact end_statement_empties. Qed.
Print Assumptions C05_end_statement_empties_region.

(* Loops do not accumulate operands: every restart of an iteration begins with an empty region. *)
Theorem C05_loops_do_not_accumulate : forall b r c br b' r' c', enact b r c = Ok (br, b', r', c') -> Inv c -> c_frames c <> [] ->
  (br = BrSeekStart \/ (exists code, br = BrExchange code /\ exists l m cd bd, b = BWhile l m cd bd)) ->
  height c' = top_base c'.
Proof. exact restarts_start_empty. Qed.
Print Assumptions C05_loops_do_not_accumulate.

(* A finished scope yields exactly one value also to the exit behaviour that ends it (count, select, apply, findIf, isNil, the
   condition of while, waitUntil): when the scope's own part of the operand stack is empty - the last statement left no value and a
   separator or the restart of the round had removed everything - the behaviour does exactly what it does on a part that holds nil.
   The value of a block does not depend on how many statements precede its value-less last statement. *)
Theorem C05_exit_behaviour_finds_nil : forall b r c, exit_value_missing r = false -> takes_value b = true ->
  c_frames c <> [] -> height c = top_base c ->
  pop_value c = None /\ pop_value (push_value c VNil) = Some (VNil, c) /\ enact b r c = enact b r (push_value c VNil).
Proof.
  intros b r c SW TV NE H. split; [apply pop_none_of_empty; split; assumption|].
  split; [apply pop_push_of_empty; split; assumption|apply enact_empty_is_nil; [assumption|assumption|split; assumption]].
Qed.
Print Assumptions C05_exit_behaviour_finds_nil.

(* ... and no exit behaviour, on any stack, reports a missing value: what enact adds to the log is at most one diagnostic, and never
   CallstackFoundNoValue (the error that ended the script). *)
Theorem C05_exit_behaviour_never_misses_a_value : forall b r c br b' r' c', exit_value_missing r = false ->
  enact b r c = Ok (br, b', r', c') ->
  exists added, r_out r' = added ++ r_out r /\ ~ In (EDiag (fst d_CallstackFoundNoValue) (snd d_CallstackFoundNoValue)) added.
Proof. intros b r c br b' r' c' SW H. apply adds_spec. eapply enact_never_misses; eassumption. Qed.
Print Assumptions C05_exit_behaviour_never_misses_a_value.

(* What was wrong before the repairs (defect switches on): a block ending in an assignment yielded no value ... *)
Definition prog_block_value : list stmt :=
  [SAssign "x" (EUnary "call" (ECode [SAssign "a" (ENum 1); SAssign "b" (ENum 2)]))].
Definition final_of (defects:list string) (p:list stmt) : string :=
  run_final (load (create_rt defects 0 0 (100 * 100) 150) (compile_block p)).
Theorem C05_completion_exactly_one_refuted_before_repair :
  final_of ["block_value_dropped"] prog_block_value = "2:3:1:60079,0:60001," /\
  final_of [] prog_block_value = "-1:0:2:60091,".
Proof. split; vm_compute; reflexivity. Qed.
Print Assumptions C05_completion_exactly_one_refuted_before_repair.

(* ... and breakOut left the operands of the abandoned scopes to the enclosing expression:
   diag_log [1, call { scopeName "s"; [2, 7 breakOut "s"] }, 3] *)
Definition prog_breakout : list stmt :=
  [SExpr (EUnary "diag_log" (EArr [ENum 1;
     EUnary "call" (ECode [SExpr (EUnary "scopeName" (EStr "s")); SExpr (EArr [ENum 2; EBinary "breakOut" (ENum 7) (EStr "s")])]);
     ENum 3]))].
Theorem C05_breakout_clears_regions_refuted_before_repair :
  final_of ["breakout_leaks_regions"] prog_breakout <> final_of [] prog_breakout /\
  final_of [] prog_breakout = "-1:0:3:60019,M<[1,7,3]>,3:60095,M<VALUE nil>,".
Proof. split; [vm_compute; discriminate|vm_compute; reflexivity]. Qed.
Print Assumptions C05_breakout_clears_regions_refuted_before_repair.

(* ... and a block of two assignments had no value for the exit behaviour that ends it (switch exit_value_missing = the code before
   context::pop_value_or_nil): on an empty part of the stack every value-taking behaviour except waitUntil - which then looked at
   its round counter first - logged the error-level CallstackFoundNoValue, which ended the script.
   diag_log str (isNil {a = 1; b = 2})   and   diag_log [1, [1, 2] apply {_y = _x}, 3]  (the second round starts on an empty part) *)
Theorem C05_exit_value_missing_before_repair : forall b r c br b' r' c', exit_value_missing r = true -> takes_value b = true ->
  c_frames c <> [] -> height c = top_base c -> (forall n, b <> BWaitUntil n) -> enact b r c = Ok (br, b', r', c') ->
  r_out r' = EDiag (fst d_CallstackFoundNoValue) (snd d_CallstackFoundNoValue) :: r_out r /\ r_err r' = true.
Proof. intros b r c br b' r' c' SW TV NE H NW E. eapply exit_value_missing_logs; try eassumption. split; assumption. Qed.
Print Assumptions C05_exit_value_missing_before_repair.

Definition prog_isnil_two : list stmt :=
  [SExpr (EUnary "diag_log" (EUnary "str" (EUnary "isNil" (ECode [SAssign "a" (ENum 1); SAssign "b" (ENum 2)]))))].
Definition prog_apply_second_round : list stmt :=
  [SExpr (EUnary "diag_log" (EArr [ENum 1; EBinary "apply" (EArr [ENum 1; ENum 2]) (ECode [SAssign "_y" (EVar "_x")]); ENum 3]))].
Theorem C05_exit_behaviour_finds_nil_refuted_before_repair :
  final_of ["exit_value_missing"] prog_isnil_two = "2:3:1:60081,0:60001," /\
  final_of [] prog_isnil_two = "-1:0:3:60019,M<true>,3:60095,M<VALUE nil>," /\
  final_of ["exit_value_missing"] prog_apply_second_round = "2:3:1:60081,0:60001," /\
  final_of [] prog_apply_second_round = "-1:0:3:60019,M<[1,[,],3]>,3:60095,M<VALUE nil>,".
Proof. repeat split; vm_compute; reflexivity. Qed.
Print Assumptions C05_exit_behaviour_finds_nil_refuted_before_repair.

(* non-vacuity: a machine in the middle of [1, call {2; 3}, 4] satisfies the hypotheses *)
Example ex_invariant_nontrivial :
  exists r, run_ops [OLoad (compile_block [SExpr (EArr [ENum 1; EUnary "call" (ECode [SExpr (ENum 2); SExpr (ENum 3)]); ENum 4])]);
                     OAct AAssemblyStep; OAct AAssemblyStep; OAct AAssemblyStep; OAct AAssemblyStep]
                    (create_rt [] 0 0 (100 * 100) 150) = Ok r /\
            match r_ctxs r with c :: _ => length (c_frames c) = 2 /\ top_base c = 1 | [] => False end.
Proof. eexists. split; [vm_compute; reflexivity|vm_compute; auto]. Qed.

(* non-vacuity of C05_exit_behaviour_finds_nil: an isNil scope above two pending operands, its own part of the stack empty *)
Example ex_exit_value_nontrivial :
  let f := {| f_code := []; f_pos := 1; f_exit := Some BIsNil; f_err := None; f_vars := []; f_ns := "missionnamespace";
              f_bubble := true; f_die := false; f_base := 2; f_scope := "" |} in
  let c := {| c_frames := [f]; c_values := [VNum 1; VNum 2]; c_can_suspend := false; c_suspended := false; c_wakeup := 0%Z;
              c_weak := false; c_terminate := false; c_id := 0 |} in
  let r := create_rt [] 0 0 (100 * 100) 150 in
  exit_value_missing r = false /\ takes_value BIsNil = true /\ c_frames c <> [] /\ height c = top_base c /\
  enact BIsNil r c = Ok (BrOk, BIsNil, r, push_value c (VBool true)).
Proof. cbv zeta. repeat split; try (vm_compute; reflexivity). discriminate. Qed.
