(* C05 - the operand stack is partitioned per scope; a scope yields exactly one value.
   Theorems only; proofs in VM/C05Proofs.v and VM/C05Regions.v. They are about the VM model
   VM/VmDefs.v + VM/VmExec.v, tied to src/runtime/{runtime.cpp,frame.h,context.h}, src/opcodes/*.h and the
   control-structure operators by the step-level correspondence of checks/C05.py. *)
From Coq Require Import String Ascii.
From Coq Require Import ZArith List Bool.
From SqfVerif Require Import Gen.DiagCodes Gen.Overloads VM.VmDefs VM.VmExec VM.C05Proofs VM.C05Regions.
Import ListNotations.
Local Open Scope string_scope.
Local Open Scope list_scope.

(* The partition invariant: along every context's frame list (top first) the bases never increase and the top
   base is at most the stack height.  It holds initially, after loading a script, and is preserved by EVERY
   action of the runtime - every instruction, operator, exit behaviour, frame completion, exitWith, breakOut,
   throw, error unwinding, the scheduler's context switches, spawn, terminate, the time limit. *)
Theorem C05_invariant_initial : forall d m t l s code, RInv (load (create_rt d m t l s) code).
Proof. intros. apply load_inv, create_inv. Qed.
Print Assumptions C05_invariant_initial.

Theorem C05_invariant_preserved : forall a r x r', execute a r = Ok (x, r') -> RInv r -> RInv r'.
Proof. exact execute_inv. Qed.
Print Assumptions C05_invariant_preserved.

Theorem C05_invariant_one_pass : forall r it, do_iter r = Ok it -> RInv r -> RInv (rt_of it).
Proof. exact do_iter_inv. Qed.
Print Assumptions C05_invariant_one_pass.

(* hence for every history of loads and actions *)
Inductive op := OLoad (c:code) | OAct (a:action).
Fixpoint run_ops (ops:list op) (r:rt) : res rt :=
  match ops with
  | [] => Ok r
  | OLoad c :: rest => run_ops rest (load r c)
  | OAct a :: rest => match execute a r with Ok (_, r') => run_ops rest r' | Unsupported w => Unsupported w | Hang w => Hang w | UB w => UB w end
  end.
Theorem C05_invariant_reachable : forall ops d m t l s r, run_ops ops (create_rt d m t l s) = Ok r -> RInv r.
Proof.
  intros ops d m t l s. generalize (create_inv d m t l s). generalize (create_rt d m t l s).
  induction ops as [|o ops IH]; intros r0 R0 r H; cbn in H.
  - inversion H; subst; exact R0.
  - destruct o as [c|a].
    + eapply IH; [|exact H]. apply load_inv; exact R0.
    + destruct (execute a r0) as [[x r1]| | |] eqn:E; try discriminate. eapply IH; [|exact H]. eapply execute_inv; eauto.
Qed.
Print Assumptions C05_invariant_reachable.

(* A scope can only consume operands it produced itself: in one pass of the interpreter loop - whatever it does:
   an instruction with any operator, an exit behaviour, completion of the scope, exitWith, breakOut, throw,
   unwinding to an error handler - every operand below the protected height survives, the protected height
   being the base of the current scope before and after the pass (m <= both). *)
Theorem C05_lower_regions_intact : forall r c it c' m, RInv r -> cur r = Some c -> do_iter r = Ok it ->
  cur (rt_of it) = Some c' -> m <= top_base c -> m <= top_base c' -> keep m c c'.
Proof. exact do_iter_regions. Qed.
Print Assumptions C05_lower_regions_intact.

(* A finished scope hands exactly one value to its caller: the top of its region, or nil when the region is
   empty; its own region is gone and the caller's operands are untouched. *)
Theorem C05_completion_exactly_one : forall c1 f g rest, Inv c1 -> c_frames c1 = f :: g :: rest ->
  let c4 := complete false c1 in
  c_frames c4 = g :: rest /\ height c4 = f_base f + 1 /\ below c4 (f_base f) = below c1 (f_base f) /\
  (exists v, c_values c4 = v :: below c1 (f_base f) /\ v = match pop_value c1 with Some (x, _) => x | None => VNil end).
Proof. exact complete_spec. Qed.
Print Assumptions C05_completion_exactly_one.

Theorem C05_completion_is_what_runs : forall r c r1 c1, cur r = Some c -> r_exit_req r = false -> c_suspended c = false ->
  r_state r = StRunning -> c_frames c <> [] -> frame_next frame_fuel r c = Ok (FDone, r1, c1) -> r_err r1 = false ->
  length (c_frames c1) = length (c_frames c) ->
  do_iter r = Ok (Continue (upd_cur r1 (complete (defect r "block_value_dropped") c1))).
Proof. exact do_iter_completes. Qed.
Print Assumptions C05_completion_is_what_runs.

(* After a statement separator no operand of the finished statement remains. *)
Theorem C05_end_statement_empties_region : forall r c, Inv c -> c_frames c <> [] ->
  exec_instr IEnd r c = Ok (r, clear_values c) /\ height (clear_values c) = top_base (clear_values c).
Proof. exact end_statement_empties. Qed.
Print Assumptions C05_end_statement_empties_region.

(* Loops do not accumulate operands: every restart of an iteration begins with an empty region. *)
Theorem C05_loops_do_not_accumulate : forall b r c br b' r' c', enact b r c = Ok (br, b', r', c') -> Inv c -> c_frames c <> [] ->
  (br = BrSeekStart \/ (exists code, br = BrExchange code /\ exists l m cd bd, b = BWhile l m cd bd)) ->
  height c' = top_base c'.
Proof. exact restarts_start_empty. Qed.
Print Assumptions C05_loops_do_not_accumulate.

(* What was wrong before the repairs (defect switches on): a block ending in an assignment yielded no value ... *)
Definition prog_block_value : list stmt :=
  [SAssign "x" (EUnary "call" (ECode [SAssign "a" (ENum 1); SAssign "b" (ENum 2)]))].
Definition final_of (defects:list string) (p:list stmt) : string :=
  run_final (load (create_rt defects 0 0 (100 * 100) 150) (compile_block p)).
Theorem C05_completion_exactly_one_refuted_before_repair :
  final_of ["block_value_dropped"] prog_block_value = "2:3:1:60079,0:60001," /\
  final_of [] prog_block_value = "-1:0:2:60091,".
Proof. split; vm_compute; reflexivity. Qed.
Print Assumptions C05_completion_exactly_one_refuted_before_repair.

(* ... and breakOut left the operands of the abandoned scopes to the enclosing expression:
   diag_log [1, call { scopeName "s"; [2, 7 breakOut "s"] }, 3] *)
Definition prog_breakout : list stmt :=
  [SExpr (EUnary "diag_log" (EArr [ENum 1;
     EUnary "call" (ECode [SExpr (EUnary "scopeName" (EStr "s")); SExpr (EArr [ENum 2; EBinary "breakOut" (ENum 7) (EStr "s")])]);
     ENum 3]))].
Theorem C05_breakout_clears_regions_refuted_before_repair :
  final_of ["breakout_leaks_regions"] prog_breakout <> final_of [] prog_breakout /\
  final_of [] prog_breakout = "-1:0:3:60019,M<[1,7,3]>,3:60095,M<VALUE nil>,".
Proof. split; [vm_compute; discriminate|vm_compute; reflexivity]. Qed.
Print Assumptions C05_breakout_clears_regions_refuted_before_repair.

(* non-vacuity: a machine in the middle of [1, call {2; 3}, 4] satisfies the hypotheses *)
Example ex_invariant_nontrivial :
  exists r, run_ops [OLoad (compile_block [SExpr (EArr [ENum 1; EUnary "call" (ECode [SExpr (ENum 2); SExpr (ENum 3)]); ENum 4])]);
                     OAct AAssemblyStep; OAct AAssemblyStep; OAct AAssemblyStep; OAct AAssemblyStep]
                    (create_rt [] 0 0 (100 * 100) 150) = Ok r /\
            match r_ctxs r with c :: _ => length (c_frames c) = 2 /\ top_base c = 1 | [] => False end.
Proof. eexists. split; [vm_compute; reflexivity|vm_compute; auto]. Qed.
