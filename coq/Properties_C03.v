(* C03 - variable scoping: dynamic lookup of locals, plain assignment, the binders of the current
   scope, what ends with a scope or an iteration, spawn, globals and the namespace selected by with-do.
   Theorems only; proofs live in VM/C03Proofs.v, the vocabulary in VM/C03Defs.v.  They are about the
   executable VM model (VM/VmDefs.v, VM/VmExec.v), which checks/C03.py runs against the real
   interpreter on every check (instruction listing, per-step trace, final observation).
   Frames are listed current (innermost) scope first; the statements hold for every frame stack of any depth,
   every machine state and every name. *)
From Coq Require Import String Ascii ZArith List Bool.
Import ListNotations.
From SqfVerif Require Import Gen.DiagCodes VM.VmDefs VM.VmExec VM.C03Defs VM.C03Proofs.
Local Open Scope string_scope.
Local Open Scope list_scope.

(* ---- 1. Lookup.  context::get_variable returns the binding of the innermost frame that holds the
   lower-cased name, looking no further than a frame that does not let the search through; complete
   characterisation of both outcomes, and only the lower-cased form of the name matters. *)
Theorem C03_lookup_innermost : forall c n,
  (forall v, get_variable c n = Some v <->
     exists pre f post, c_frames c = pre ++ f :: post /\ Forall (passes (lower n)) pre /\
                        assoc (lower n) (f_vars f) = Some v) /\
  (get_variable c n = None <->
     Forall (passes (lower n)) (c_frames c) \/
     exists pre f post, c_frames c = pre ++ f :: post /\ Forall (passes (lower n)) pre /\
                        lacks (lower n) f /\ f_bubble f = false) /\
  (forall m, lower m = lower n -> get_variable c m = get_variable c n).
Proof. exact lookup_innermost. Qed.
Print Assumptions C03_lookup_innermost.

(* ---- 2. Plain assignment  _n = v  (ASSIGNTO, assign_to.h).  Either there was no value to assign and the
   context is untouched, or: the popped value goes to exactly one frame's map - the nearest frame that
   already holds the name, otherwise the current frame ([assigned]); every frame keeps its code, position,
   base, namespace, behaviours, scope name (only f_vars of that one frame differs, and only at that key);
   the operand stack below the popped value, the other fields of the context, all namespaces, all other
   contexts are unchanged; the next read of the name yields the value (when no frame blocks the search),
   reads of other names are unaffected. *)
Theorem C03_assign_updates_nearest_else_current : forall n r c r' c',
  is_local n = true -> exec_instr (IAssign n) r c = Ok (r', c') ->
  same_store r r' /\
  ((pop_value c = None /\ c' = c) \/
   exists v, c_values c = v :: c_values c' /\
     assigned (lower n) v (c_frames c) (c_frames c') /\
     c' = set_frames (set_values c (c_values c')) (c_frames c') /\
     Forall2 (fun g g' => g' = set_vars g (f_vars g')) (c_frames c) (c_frames c') /\
     (forall k', k' <> lower n ->
        Forall2 (fun g g' => assoc k' (f_vars g') = assoc k' (f_vars g)) (c_frames c) (c_frames c')) /\
     (Forall (fun g => f_bubble g = true) (c_frames c) -> get_variable c' n = Some v) /\
     (forall m, lower m <> lower n -> get_variable c' m = get_variable c m)).
Proof. exact assign_updates_nearest_else_current. Qed.
Print Assumptions C03_assign_updates_nearest_else_current.

(* ---- 3. The binders of the current scope.
   private _n = v (ASSIGNTOLOCAL): the current frame's map gets the value, whatever outer frames hold. *)
Theorem C03_assign_to_local_current_only : forall n r c r' c',
  exec_instr (IAssignLocal n) r c = Ok (r', c') ->
  same_store r r' /\
  (n = "" -> c_frames c' = c_frames c) /\
  (n <> "" ->
   (pop_value c = None /\ c' = c) \/
   exists v f rest, c_values c = v :: c_values c' /\ c_frames c = f :: rest /\
                    c_frames c' = set_vars f (assoc_set (lower n) v (f_vars f)) :: rest /\
                    c' = set_frames (set_values c (c_values c')) (c_frames c')).
Proof. exact exec_assign_to_local. Qed.
Print Assumptions C03_assign_to_local_current_only.

(* private "n": only the current frame's map changes; a name it does not hold is bound to nil there (and
   then shadows every outer binding), a name it already holds KEEPS its value (value_scope::at). *)
Theorem C03_private_string_current_only : forall s r c r' c' x f rest,
  op_unary "private" (VStr s) r c = Ok (r', c', x) -> c_frames c = f :: rest ->
  r' = r /\ x = VNil /\
  exists vars, c_frames c' = set_vars f vars :: rest /\ declared [lower s] (f_vars f) vars /\
               c' = set_frames c (c_frames c') /\
               (lacks (lower s) f -> get_variable c' s = Some VNil) /\
               (forall v, assoc (lower s) (f_vars f) = Some v -> get_variable c' s = Some v).
Proof. exact private_string_current_only. Qed.
Print Assumptions C03_private_string_current_only.

(* private ["a","b",..]: the same for every listed name *)
Theorem C03_private_array_current_only : forall l r c r' c' x f rest,
  op_unary "private" (VArr l) r c = Ok (r', c', x) -> c_frames c = f :: rest ->
  r' = r /\ x = VNil /\
  exists vars, c_frames c' = set_vars f vars :: rest /\ declared (names_of l) (f_vars f) vars /\
               c' = set_frames c (c_frames c').
Proof. exact private_array_current_only. Qed.
Print Assumptions C03_private_array_current_only.

(* ---- 4. End of a scope.  When the current frame completes (the frame-completion branch of execute_do:
   do_iter answers Continue and the frame's exit behaviour raised no error), the script's frames are
   exactly the frames that were below it - the same frames, with the same variable maps - and namespaces
   and the other scripts are untouched. *)
Theorem C03_pop_drops_exactly_own : forall r c f rest r',
  cur r = Some c -> c_frames c = f :: rest -> do_iter r = Ok (Continue r') ->
  (forall fr r1 c1, frame_next frame_fuel r c = Ok (fr, r1, c1) -> r_err r1 = false) ->
  exists c', cur r' = Some c' /\ c_frames c' = rest /\
             r_nss r' = r_nss r /\ r_active r' = r_active r /\
             (forall j, r_active r <> Some j -> nth_error (r_ctxs r') j = nth_error (r_ctxs r) j).
Proof. exact pop_completed_scope. Qed.
Print Assumptions C03_pop_drops_exactly_own.

(* ---- 5. Iterations.  Whenever the exit behaviour of a loop scope makes the scope run again (count, select,
   apply, findIf, forEach, for, while - condition and body -, waitUntil), the scope's variable map is
   replaced by exactly the documented bindings of the NEW iteration (_x / _forEachIndex of the element at
   the advanced index, the for-variable advanced by the step, nothing for while/waitUntil): nothing bound
   during the previous iteration survives.  Frames below are untouched; namespaces and scripts too. *)
Theorem C03_loop_iteration_clears_scope : forall b r c br b' r' c' f rest,
  enact b r c = Ok (br, b', r', c') -> c_frames c = f :: rest ->
  same_store r r' /\ same_kind b b' /\
  if restarts br b
  then exists vars, c_frames c' = set_vars f vars :: rest /\ fresh_scope b' vars /\ for_advances b f vars
  else (c_frames c' = f :: rest \/ (c_frames c' = set_vars f [] :: rest /\ fresh_scope b' [])).
Proof. exact enact_effect. Qed.
Print Assumptions C03_loop_iteration_clears_scope.

(* ... and through frame::next (which may re-run empty bodies several times): only the current frame is
   touched, it keeps its namespace and base, and its scope name unless it starts over (a loop going round is a new scope, its name
   is empty again); its variables are the ones it had or a fresh iteration's bindings of the same loop. *)
Theorem C03_frame_next_touches_current_scope_only : forall fuel r c fr r1 c1 f rest,
  frame_next fuel r c = Ok (fr, r1, c1) -> c_frames c = f :: rest ->
  same_store r r1 /\
  exists f1, c_frames c1 = f1 :: rest /\ same_scope_id f f1 /\ vars_kept_or_fresh f f1.
Proof. exact frame_next_effect. Qed.
Print Assumptions C03_frame_next_touches_current_scope_only.

(* ---- 6. spawn.  The new script has one frame, in the default namespace, whose map is exactly _thisScript and
   _this: every other local name - whatever the starter's frames hold - is undefined there; the starter
   is unchanged. *)
Theorem C03_spawn_sees_no_locals : forall l body r c r' c' x,
  op_binary "spawn" l (VCode body) r c = Ok (r', c', x) ->
  c' = c /\ x = VScript (r_next_id r) /\ r_nss r' = r_nss r /\ r_active r' = r_active r /\
  exists nc f, r_ctxs r' = r_ctxs r ++ [nc] /\ c_frames nc = [f] /\ c_values nc = [] /\ c_id nc = r_next_id r /\
    f_vars f = [("_thisscript", VScript (r_next_id r)); ("_this", l)] /\ f_ns f = default_ns /\ f_code f = body /\
    (forall n, lower n <> "_thisscript" -> lower n <> "_this" -> get_variable nc n = None) /\
    get_variable nc "_this" = Some l.
Proof. exact spawn_effect. Qed.
Print Assumptions C03_spawn_sees_no_locals.

(* No instruction executed by one script changes a frame of another script: the stored frame stacks are
   the same afterwards, except that spawn appends the new script.  And namespace storage is written only by
   the assignment of a global name (into the current frame's namespace) and by setVariable. *)
Theorem C03_scripts_isolated_and_namespace_writers : forall i r c r' c',
  exec_instr i r c = Ok (r', c') ->
  (r_nss r' = r_nss r \/
   (exists n v f rest, i = IAssign n /\ is_local n = false /\ c_frames c = f :: rest /\
                       r_nss r' = r_nss (ns_set r (f_ns f) n v)) \/
   (exists n s name y, i = IBinary n /\ lower n = "setvariable" /\ r_nss r' = r_nss (ns_set r s name y))) /\
  (ctx_frames r' = ctx_frames r \/
   exists n nc f l, i = IBinary n /\ lower n = "spawn" /\ r_ctxs r' = r_ctxs r ++ [nc] /\ c_frames nc = [f] /\
                    f_ns f = default_ns /\ f_vars f = [("_thisscript", VScript (r_next_id r)); ("_this", l)]).
Proof. exact exec_instr_store. Qed.
Print Assumptions C03_scripts_isolated_and_namespace_writers.

(* ---- 7. Globals.  Only the lower-cased form of a global's name matters, for reading, writing and the
   GETVARIABLE instruction, which reads the namespace of the current frame. *)
Theorem C03_globals_case_insensitive : forall r ns n m, lower n = lower m ->
  ns_get r ns n = ns_get r ns m /\ (forall v, ns_set r ns n v = ns_set r ns m v) /\
  (forall c f rest, is_local n = false -> is_local m = false -> c_frames c = f :: rest ->
     exec_instr (IGet n) r c = exec_instr (IGet m) r c).
Proof. exact globals_case_insensitive. Qed.
Print Assumptions C03_globals_case_insensitive.

Theorem C03_get_global_reads_current_namespace : forall n r c f rest,
  is_local n = false -> c_frames c = f :: rest ->
  exec_instr (IGet n) r c =
  match ns_get r (f_ns f) n with
  | Some v => Ok (r, push_value c v)
  | None => Ok (logmsg r d_VariableNotFound, push_value c VNil) end.
Proof. exact exec_get_global. Qed.
Print Assumptions C03_get_global_reads_current_namespace.

(* ns setVariable [name, x]: afterwards getVariable (both forms) on that namespace and a plain read of the
   name in a scope running in that namespace give x, for any spelling of the name; every other name and
   namespace reads as before; no script's frames change. *)
Theorem C03_get_set_variable_same_storage : forall s name name' x r c r1 c1 y,
  op_binary "setvariable" (VNs s) (VArr [VStr name; x]) r c = Ok (r1, c1, y) -> lower name' = lower name ->
  op_binary "getvariable" (VNs s) (VStr name') r1 c1 = Ok (r1, c1, x) /\
  (forall d, op_binary "getvariable" (VNs s) (VArr [VStr name'; d]) r1 c1 = Ok (r1, c1, x)) /\
  (forall f rest, c_frames c1 = f :: rest -> f_ns f = s -> is_local name' = false ->
     exec_instr (IGet name') r1 c1 = Ok (r1, push_value c1 x)) /\
  (forall s' m, s' <> s \/ lower m <> lower name -> ns_get r1 s' m = ns_get r s' m) /\
  r_ctxs r1 = r_ctxs r /\ c1 = c.
Proof. exact get_set_variable_same_storage. Qed.
Print Assumptions C03_get_set_variable_same_storage.

(* g = v  for a global name: written into the namespace of the current frame; getVariable on that namespace
   and a plain read in any scope running in it give v back, for any spelling; nothing else is written. *)
Theorem C03_assign_global_same_storage : forall n r c r' c' v c1 f rest,
  is_local n = false -> n <> "" -> pop_value c = Some (v, c1) -> c_frames c = f :: rest ->
  exec_instr (IAssign n) r c = Ok (r', c') ->
  c' = c1 /\ r_nss r' = r_nss (ns_set r (f_ns f) n v) /\ r_ctxs r' = r_ctxs r /\
  (forall m, lower m = lower n ->
     op_binary "getvariable" (VNs (f_ns f)) (VStr m) r' c' = Ok (r', c', v) /\
     (forall g rs, c_frames c' = g :: rs -> f_ns g = f_ns f -> is_local m = false ->
        exec_instr (IGet m) r' c' = Ok (r', push_value c' v))) /\
  (forall s' m, s' <> f_ns f \/ lower m <> lower n -> ns_get r' s' m = ns_get r s' m).
Proof. exact assign_global_read_back. Qed.
Print Assumptions C03_assign_global_same_storage.

(* ---- 8. The namespace selected by with-do.  ns_of lists the namespaces of a script's scopes, current first.
   Executing ANY instruction either leaves that list alone, or pushes a scope that inherits the namespace of
   the current scope, or drops scopes from the top - or the instruction is  (with s) do {..}  and the new
   scope runs in s.  So the list evolves exactly like the stack of "selected namespace" of the nested
   with-do blocks, and by theorem 7 reads and writes of globals use its head: the namespace chosen by the
   innermost dynamically enclosing with-do (C03_spawn_sees_no_locals: a spawned script starts again in the default
   namespace; C03_frame_next_touches_current_scope_only and C03_pop_drops_exactly_own: loop iterations and scope ends
   never change the namespace of a scope that stays).
   This mirrors the code AFTER the repair "code run inside with-do left the selected namespace": before it,
   call/if/loops/... pushed their scope with the default namespace, i.e. the second alternative read
   ns_of c' = default_ns :: ns_of c, and  with uiNamespace do { call { g = 5 } }  wrote missionNamespace. *)
Theorem C03_with_do_selects_namespace : forall i r c r' c',
  exec_instr i r c = Ok (r', c') ->
  ns_step c c' \/
  exists n s body vs, i = IBinary n /\ lower n = "do" /\ c_values c = VCode body :: VWith s :: vs /\
                      ns_of c' = s :: ns_of c.
Proof. exact exec_instr_ns. Qed.
Print Assumptions C03_with_do_selects_namespace.

(* ... and for a whole pass of the execute_do loop (do_iter: frame::next with its exit behaviours, scope
   completion, the instruction, error handling with the frames it abandons): the script's namespace stack
   afterwards is the old one, the old one with a scope inheriting the current namespace pushed, a suffix of
   it - or the pass executed  (with s) do {..}  and pushed s.  The namespace of a scope that stays never
   changes, whatever the program does. *)
Theorem C03_with_do_selects_namespace_every_pass : forall r c it,
  cur r = Some c -> do_iter r = Ok it ->
  exists c', cur (iter_rt it) = Some c' /\ (ns_step c c' \/ with_do_pass c c').
Proof. exact do_iter_ns. Qed.
Print Assumptions C03_with_do_selects_namespace_every_pass.

(* ================================================================ the hypotheses are satisfiable *)
Definition ex_rt : rt := create_rt [] 0 0 (100 * 100) 150.
(* three scopes: the current one runs in uiNamespace and holds _b, both outer ones hold _a; one operand *)
Definition ex_frames : list frame :=
  [mk_frame "uiNamespace" [] None None [("_b", VNum 1)];
   mk_frame default_ns [] None None [("_a", VNum 7)];
   mk_frame default_ns [] None None [("_a", VNum 9)]].
Definition ex_ctx : context := set_values (set_frames (new_context 0 false) ex_frames) [VNum 5].

Example ex_lookup : get_variable ex_ctx "_A" = Some (VNum 7) /\ get_variable ex_ctx "_B" = Some (VNum 1) /\
                    get_variable ex_ctx "_zz" = None.
Proof. repeat split. Qed.

Example ex_assign_nearest :
  match exec_instr (IAssign "_A") ex_rt ex_ctx with
  | Ok (_, c') => Some (map f_vars (c_frames c'), c_values c')
  | _ => None end = Some ([[("_b", VNum 1)]; [("_a", VNum 5)]; [("_a", VNum 9)]], []).
Proof. reflexivity. Qed.

Example ex_assign_creates_in_current :
  match exec_instr (IAssign "_New") ex_rt ex_ctx with
  | Ok (_, c') => Some (map f_vars (c_frames c'))
  | _ => None end = Some [[("_b", VNum 1); ("_new", VNum 5)]; [("_a", VNum 7)]; [("_a", VNum 9)]].
Proof. reflexivity. Qed.

Example ex_assign_to_local_shadows :
  match exec_instr (IAssignLocal "_A") ex_rt ex_ctx with
  | Ok (_, c') => Some (map f_vars (c_frames c'), get_variable c' "_a")
  | _ => None end = Some ([[("_b", VNum 1); ("_a", VNum 5)]; [("_a", VNum 7)]; [("_a", VNum 9)]], Some (VNum 5)).
Proof. reflexivity. Qed.

Example ex_private_shadows_and_keeps :
  match op_unary "private" (VArr [VStr "_A"; VStr "_B"]) ex_rt ex_ctx with
  | Ok (_, c', _) => Some (map f_vars (c_frames c'), get_variable c' "_a")
  | _ => None end = Some ([[("_b", VNum 1); ("_a", VNil)]; [("_a", VNum 7)]; [("_a", VNum 9)]], Some VNil).
Proof. reflexivity. Qed.

(* a forEach scope that bound _tmp during the first iteration restarts with _forEachIndex / _x only *)
Definition ex_loop_ctx : context :=
  set_frames (new_context 0 false)
    [mk_frame default_ns [] (Some (BForEach [VNum 10; VNum 11] 0)) None
       [("_x", VNum 10); ("_foreachindex", VNum 0); ("_tmp", VNum 3)];
     mk_frame default_ns [] None None [("_a", VNum 7)]].
Example ex_iteration_restart :
  match enact (BForEach [VNum 10; VNum 11] 0) ex_rt ex_loop_ctx with
  | Ok (br, b', _, c') => Some (restarts br (BForEach [VNum 10; VNum 11] 0), b', map f_vars (c_frames c'))
  | _ => None end
  = Some (true, BForEach [VNum 10; VNum 11] 1, [[("_foreachindex", VNum 1); ("_x", VNum 11)]; [("_a", VNum 7)]]).
Proof. reflexivity. Qed.

(* a machine whose current scope has run to its end: the pass completes it (no exit behaviour, no error) *)
Definition ex_pop_rt : rt := set_state (set_active (set_ctxs ex_rt [ex_ctx]) (Some 0)) StRunning.
Example ex_pop_hypotheses :
  cur ex_pop_rt = Some ex_ctx /\
  match frame_next frame_fuel ex_pop_rt ex_ctx with Ok (_, r1, _) => r_err r1 | _ => true end = false /\
  match do_iter ex_pop_rt with
  | Ok (Continue r') => option_map (fun c => map f_vars (c_frames c)) (cur r')
  | _ => None end = Some [[("_a", VNum 7)]; [("_a", VNum 9)]].
Proof. split; [reflexivity|]. split; vm_compute; reflexivity. Qed.

(* with-do pushes the selected namespace, call inherits the current one, spawn starts from the default one *)
Example ex_with_do_pushes_selected :
  match exec_instr (IBinary "do") ex_rt (set_values ex_ctx [VCode []; VWith "parsingNamespace"]) with
  | Ok (_, c') => Some (ns_of c')
  | _ => None end = Some ["parsingNamespace"; "uiNamespace"; default_ns; default_ns].
Proof. reflexivity. Qed.
Example ex_call_inherits :
  match exec_instr (IUnary "call") ex_rt (set_values ex_ctx [VCode []]) with
  | Ok (_, c') => Some (ns_of c')
  | _ => None end = Some ["uiNamespace"; "uiNamespace"; default_ns; default_ns].
Proof. reflexivity. Qed.
Example ex_spawn_fresh :
  match op_binary "spawn" (VNum 3) (VCode []) ex_rt ex_ctx with
  | Ok (r', _, _) => Some (map (fun c => (map f_vars (c_frames c), ns_of c, get_variable c "_a")) (r_ctxs r'))
  | _ => None end = Some [([[("_thisscript", VScript 0); ("_this", VNum 3)]], [default_ns], None)].
Proof. reflexivity. Qed.

Example ex_setvariable_getvariable :
  match op_binary "setvariable" (VNs "uiNamespace") (VArr [VStr "Gv"; VNum 4]) ex_rt ex_ctx with
  | Ok (r1, c1, _) =>
      match op_binary "getvariable" (VNs "uiNamespace") (VArr [VStr "gV"; VNum (-1)]) r1 c1 with
      | Ok (_, _, v) => Some (v, ns_get r1 "missionNamespace" "gv")
      | _ => None end
  | _ => None end = Some (VNum 4, None).
Proof. reflexivity. Qed.

(* a whole program through compiler, scheduler and the machine: assignment in a callee reaches the caller's
   private variable, the callee's own binding is gone afterwards, the call inside with-do writes uiNamespace,
   globals are found under any spelling, the spawned script does not see _a *)
Definition ex_prog : list stmt :=
  [SLocal "_a" (ENum 1);
   SExpr (EUnary "call" (ECode [SAssign "_A" (ENum 2); SLocal "_b" (ENum 3)]));
   SExpr (EUnary "diag_log" (EArr [EVar "_a"; EUnary "isNil" (EStr "_b")]));
   SExpr (EBinary "do" (EUnary "with" (ENular "uiNamespace")) (ECode [SExpr (EUnary "call" (ECode [SAssign "Gv" (ENum 5)]))]));
   SExpr (EBinary "spawn" (EArr []) (ECode [SExpr (EUnary "diag_log" (EArr [EUnary "isNil" (EStr "_a")]))]));
   SExpr (EUnary "diag_log" (EArr [EBinary "getVariable" (ENular "uiNamespace") (EStr "gV"); EUnary "isNil" (EStr "gv")]))].
Example ex_program_run :
  run_final (load ex_rt (compile_block ex_prog)) =
  "-1:0:3:60019,M<[2,true]>,3:60019,M<[5,true]>,3:60095,M<VALUE nil>,3:60019,M<[true]>,3:60095,M<VALUE nil>,".
Proof. vm_compute. reflexivity. Qed.
