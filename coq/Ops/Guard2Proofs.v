(* C09 (b), second list - proofs about the guard models of Ops/Guards2.v: for ALL arguments the modelled operator ends
   in Ret (no undefined behaviour, no escaping exception), with the result class and the allocation the statement
   names; for the parts of the matrix operators behind the is_matrix test, witnesses showing that the test is what
   keeps them defined. *)
From Coq Require Import ZArith List String Bool Lia.
From SqfVerif Require Import Ops.OpsBase Ops.Guards Ops.Guards2 Ops.SortOrder Ops.GuardProofs.
Import ListNotations.
Local Open Scope Z_scope.

(* ---------------------------------------------------------------------------------------------------------------- *)
(* counted loops *)
Lemma loop_ok : forall k i body, (forall x, i <= x < i + Z.of_nat k -> body x = AOk) -> loop k i body = AOk.
Proof.
  induction k as [|k IH]; intros i body H; [reflexivity|].
  cbn [loop]. rewrite (H i) by lia. apply IH. intros x Hx. apply H. lia.
Qed.

Lemma loop_cases : forall k i body,
  loop k i body = AOk \/ exists x, i <= x < i + Z.of_nat k /\ loop k i body = body x /\ body x <> AOk.
Proof.
  induction k as [|k IH]; intros i body; [left; reflexivity|].
  cbn [loop]. destruct (body i) eqn:E.
  - destruct (IH (i + 1) body) as [H | [x [Hx [H1 H2]]]]; [left; exact H|].
    right. exists x. split; [lia|]. split; assumption.
  - right. exists i. split; [lia|]. rewrite E. split; [reflexivity | discriminate].
  - right. exists i. split; [lia|]. rewrite E. split; [reflexivity | discriminate].
  - right. exists i. split; [lia|]. rewrite E. split; [reflexivity | discriminate].
Qed.

Lemma loop_inv : forall k i body, loop k i body = AOk -> forall x, i <= x < i + Z.of_nat k -> body x = AOk.
Proof.
  induction k as [|k IH]; intros i body H x Hx; [lia|].
  cbn [loop] in H. destruct (body i) eqn:E; try discriminate.
  destruct (Z.eq_dec x i) as [->|Hne]; [exact E|]. apply (IH (i + 1) body H). lia.
Qed.

(* ---------------------------------------------------------------------------------------------------------------- *)
(* vector::at *)
Lemma at_some {A} (l : list A) i : 0 <= i < zlen l -> exists v, at_ l i = Some v /\ In v l.
Proof.
  intro H. unfold at_, vec_ok.
  destruct (0 <=? i) eqn:E1; [|b2z; lia]. destruct (i <? zlen l) eqn:E2; [|b2z; lia]. cbn [andb].
  destruct (nth_error l (Z.to_nat i)) as [v|] eqn:E.
  - exists v. split; [reflexivity|]. eapply nth_error_In; eauto.
  - exfalso. apply nth_error_None in E. unfold zlen in H. lia.
Qed.

Lemma at_inv {A} (l : list A) i v : at_ l i = Some v -> 0 <= i < zlen l /\ In v l.
Proof.
  unfold at_, vec_ok. destruct (0 <=? i) eqn:E1; [|discriminate]. destruct (i <? zlen l) eqn:E2; [|discriminate].
  cbn [andb]. intro H. b2z. split; [lia|]. eapply nth_error_In; eauto.
Qed.

Lemma in_at {A} (l : list A) v : In v l -> exists i, 0 <= i < zlen l /\ at_ l i = Some v.
Proof.
  intro H. apply In_nth_error in H. destruct H as [n Hn].
  assert (n < List.length l)%nat as Hlt by (apply nth_error_Some; rewrite Hn; discriminate).
  exists (Z.of_nat n). unfold zlen. split; [lia|].
  unfold at_, vec_ok, zlen. destruct (0 <=? Z.of_nat n) eqn:E1; [|b2z; lia].
  destruct (Z.of_nat n <? Z.of_nat (List.length l)) eqn:E2; [|b2z; lia]. cbn [andb]. rewrite Nat2Z.id. exact Hn.
Qed.

Definition all_num (l : list val) : Prop := forall v, In v l -> exists f, v = VNum f.

Lemma num_at_ok l i : all_num l -> 0 <= i < zlen l -> num_at l i = AOk.
Proof.
  intros Hn Hi. unfold num_at. destruct (at_some l i Hi) as [v [Hv Hin]]. rewrite Hv.
  destruct (Hn v Hin) as [f ->]. reflexivity.
Qed.

Lemma is_num_VNum v : is_num v = true -> exists f, v = VNum f.
Proof. destruct v; cbn; try discriminate. eauto. Qed.

(* check_type(t_scalar(), min, max) answered true *)
Lemma ct1_scalar l mn mx ds : check_type1 l TScalar mn mx = (ds, true) -> mn <= zlen l <= mx /\ all_num l.
Proof.
  intro H. split.
  - unfold check_type1 in H. destruct ((zlen l <? mn) || (mx <? zlen l)) eqn:E; [inversion H|]. b2z. lia.
  - intros v Hv. pose proof (check_type1_true _ _ _ _ _ H v Hv) as T. destruct v; cbn in T; try discriminate. eauto.
Qed.

(* ================================================================================================================ *)
(* matrices *)

Lemma shape_row m cols i : matrix_shape m cols -> 0 <= i < zlen m ->
  exists r, row_at m i = (AOk, r) /\ zlen r = cols /\ all_num r.
Proof.
  intros [_ [_ H]] Hi. unfold row_at. destruct (at_some m i Hi) as [v [Hv Hin]]. rewrite Hv.
  destruct (H v Hin) as [row [-> [Hl Hn]]]. exists row. split; [reflexivity|]. split; [exact Hl|].
  intros x Hx. apply is_num_VNum. auto.
Qed.

Lemma shape_cell m cols i j : matrix_shape m cols -> 0 <= i < zlen m -> 0 <= j < cols -> cell m i j = AOk.
Proof.
  intros Hs Hi Hj. unfold cell. destruct (shape_row m cols i Hs Hi) as [r [-> [Hl Hn]]]. apply num_at_ok; [exact Hn | lia].
Qed.

Lemma is_matrix_defined arr : is_matrix arr <> AThrow /\ is_matrix arr <> AUB.
Proof.
  unfold is_matrix. destruct (zlen arr =? 0) eqn:E0; [split; discriminate|]. b2z.
  pose proof (zlen_nonneg arr) as Hnn.
  destruct (at_some arr 0 ltac:(lia)) as [v0 [Hv0 _]]. rewrite Hv0.
  destruct v0 as [f|s|b|r0|t]; try (split; discriminate).
  destruct (zlen r0 =? 0) eqn:E1; [split; discriminate|].
  match goal with |- ?L <> _ /\ ?L <> _ => destruct (loop_cases (List.length arr) 0
     (fun i => match at_ arr i with
               | Some (VArr row) => if negb (zlen row =? zlen r0) then ANo
                                    else loop (Z.to_nat (zlen r0)) 0 (fun j => match at_ row j with
                                                                             | Some v => if is_num v then AOk else ANo
                                                                             | None => AThrow end)
               | Some _ => ANo
               | None => AThrow end)) as [H | [x [Hx [H1 H2]]]] end.
  - rewrite H. split; discriminate.
  - rewrite H1. clear H1 H2.
    destruct (at_some arr x ltac:(unfold zlen; lia)) as [v [Hv _]]. rewrite Hv.
    destruct v as [f|s|b|row|t]; try (split; discriminate).
    destruct (negb (zlen row =? zlen r0)) eqn:E2; [split; discriminate|]. b2z.
    match goal with |- ?L <> _ /\ ?L <> _ => destruct (loop_cases (Z.to_nat (zlen r0)) 0
       (fun j => match at_ row j with Some v => if is_num v then AOk else ANo | None => AThrow end)) as [H | [y [Hy [H1 H2]]]] end.
    + rewrite H. split; discriminate.
    + rewrite H1. pose proof (zlen_nonneg r0). destruct (at_some row y ltac:(lia)) as [w [Hw _]]. rewrite Hw.
      destruct (is_num w); split; discriminate.
Qed.

Lemma is_matrix_shape arr : is_matrix arr = AOk -> exists cols, matrix_shape arr cols.
Proof.
  unfold is_matrix. destruct (zlen arr =? 0) eqn:E0; [discriminate|]. b2z.
  pose proof (zlen_nonneg arr) as Hnn.
  destruct (at_ arr 0) as [v0|] eqn:Hv0; [|discriminate].
  destruct v0 as [f|s|b|r0|t]; try discriminate.
  destruct (zlen r0 =? 0) eqn:E1; [discriminate|]. b2z. pose proof (zlen_nonneg r0) as Hr0.
  intro H. exists (zlen r0). split; [lia|]. split; [lia|].
  intros v Hv. destruct (in_at arr v Hv) as [i [Hi Hat]].
  pose proof (loop_inv _ _ _ H i ltac:(unfold zlen in Hi; lia)) as Hb. cbv beta in Hb. rewrite Hat in Hb.
  destruct v as [f|s|b|row|t]; try discriminate.
  destruct (negb (zlen row =? zlen r0)) eqn:E2; [discriminate|]. b2z.
  exists row. split; [reflexivity|]. split; [exact E2|].
  intros x Hx. destruct (in_at row x Hx) as [j [Hj Hatj]].
  pose proof (loop_inv _ _ _ Hb j ltac:(lia)) as Hc. cbv beta in Hc. rewrite Hatj in Hc.
  destruct (is_num x); [reflexivity | discriminate].
Qed.

(* the first row and the equal-length test, on a checked matrix *)
Lemma shape_first m cols : matrix_shape m cols -> first_cols m = (AOk, cols).
Proof.
  intro Hs. pose proof Hs as [Hm [Hc H]]. unfold first_cols.
  destruct (zlen m =? 0) eqn:E; [b2z; lia|].
  destruct (at_some m 0 ltac:(lia)) as [v [Hv Hin]]. rewrite Hv.
  destruct (H v Hin) as [row [-> [Hl _]]]. rewrite Hl.
  destruct (cols =? 0) eqn:E2; [b2z; lia | reflexivity].
Qed.

Lemma shape_same m cols : matrix_shape m cols -> same_cols m cols = AOk.
Proof.
  intro Hs. unfold same_cols. apply loop_ok. intros x Hx.
  destruct (shape_row m cols x Hs ltac:(unfold zlen; lia)) as [r [-> [Hl _]]]. rewrite Hl, Z.eqb_refl. reflexivity.
Qed.

Lemma transpose_body_shape l cols : matrix_shape l cols ->
  transpose_body l = Ret [] (RShape cols (zlen l)) (cols + cols * zlen l).
Proof.
  intro Hs. pose proof Hs as [Hm [Hc H]]. unfold transpose_body.
  destruct (zlen l =? 0) eqn:E; [b2z; lia|].
  destruct (at_some l 0 ltac:(lia)) as [v [Hv Hin]]. rewrite Hv.
  destruct (H v Hin) as [row [-> [Hl _]]]. rewrite Hl.
  destruct (cols =? 0) eqn:E2; [b2z; lia|].
  pose proof (shape_same l cols Hs) as Hsame. unfold same_cols in Hsame. rewrite Hsame.
  rewrite loop_ok; [reflexivity|].
  intros i Hi. apply loop_ok. intros j Hj. apply (shape_cell l cols); auto; unfold zlen; lia.
Qed.

Lemma matrix_transpose_safe l :
  matrix_transpose l = Ret [] (RShape 0 0) 0 \/
  exists cols, matrix_shape l cols /\ matrix_transpose l = Ret [] (RShape cols (zlen l)) (cols + cols * zlen l).
Proof.
  unfold matrix_transpose. destruct (is_matrix l) eqn:E.
  - destruct (is_matrix_shape l E) as [cols Hs]. right. exists cols. split; [exact Hs|]. apply transpose_body_shape; exact Hs.
  - left; reflexivity.
  - destruct (is_matrix_defined l) as [H _]. contradiction.
  - destruct (is_matrix_defined l) as [_ H]. contradiction.
Qed.

Lemma multiply_body_shape l r k m : matrix_shape l k -> matrix_shape r m ->
  multiply_body l r = (if k =? zlen r then Ret [] (RShape (zlen l) m) (zlen l + zlen l * m) else Ret [] (RShape 0 0) 0).
Proof.
  intros Hl Hr. unfold multiply_body.
  rewrite (shape_first l k Hl), (shape_first r m Hr), (shape_same l k Hl), (shape_same r m Hr).
  destruct (k =? zlen r) eqn:E; cbn [negb]; [|reflexivity]. b2z.
  destruct Hr as [Hr0 [Hm0 Hr]]. assert (matrix_shape r m) as Hr' by (split; [|split]; assumption).
  rewrite loop_ok; [reflexivity|].
  intros i Hi. apply loop_ok. intros j Hj. apply loop_ok. intros x Hx.
  rewrite (shape_cell l k i x Hl) by (unfold zlen in *; lia). cbn [aseq].
  apply (shape_cell r m); auto; unfold zlen in *; lia.
Qed.

Lemma matrix_multiply_safe l r :
  matrix_multiply l r = Ret [] (RShape 0 0) 0 \/
  exists k m, matrix_shape l k /\ matrix_shape r m /\ k = zlen r /\
              matrix_multiply l r = Ret [] (RShape (zlen l) m) (zlen l + zlen l * m).
Proof.
  unfold matrix_multiply. destruct (is_matrix l) eqn:El.
  - destruct (is_matrix r) eqn:Er.
    + destruct (is_matrix_shape l El) as [k Hl]. destruct (is_matrix_shape r Er) as [m Hr].
      rewrite (multiply_body_shape l r k m Hl Hr). destruct (k =? zlen r) eqn:E; [|left; reflexivity]. b2z.
      right. exists k, m. repeat split; auto; try apply Hl; try apply Hr.
    + left; reflexivity.
    + destruct (is_matrix_defined r) as [H _]. contradiction.
    + destruct (is_matrix_defined r) as [_ H]. contradiction.
  - left; reflexivity.
  - destruct (is_matrix_defined l) as [H _]. contradiction.
  - destruct (is_matrix_defined l) as [_ H]. contradiction.
Qed.

(* without the is_matrix test in front, the bodies are undefined on a row that is no array / an element that is no
   number (the state of the code before repair 46cfd3b) and throw on a short later row of the right operand *)
Lemma matrix_unguarded_refuted :
  transpose_body [VArr [VNum (FFin 0)]; VNum (FFin 0)]
    = UB "data<T>() of an element of another type (static_pointer_cast to the wrong class)" /\
  transpose_body [VArr [VStr []]]
    = UB "data<T>() of an element of another type (static_pointer_cast to the wrong class)" /\
  multiply_body [VArr [VNum (FFin 0)]] [VArr [VBool true]]
    = UB "data<T>() of an element of another type (static_pointer_cast to the wrong class)".
Proof. repeat split; vm_compute; reflexivity. Qed.

(* ================================================================================================================ *)
(* vectors *)
Lemma vec3_reads_ok k l : all_num l -> zlen l = 3 -> vec3_reads k l = AOk.
Proof.
  intros Hn Hl. destruct k; [|reflexivity]. unfold vec3_reads.
  rewrite !num_at_ok by (auto; lia). reflexivity.
Qed.

Lemma vec3_unary_safe k l :
  safe (vec3_unary k l) /\ alloc_of (vec3_unary k l) <= 3 /\
  (forall ds v al, vec3_unary k l = Ret ds v al -> v <> RNil -> zlen l = 3 /\ all_num l /\ ds = []).
Proof.
  unfold vec3_unary. destruct (check_type1 l TScalar 3 3) as [ds [|]] eqn:E.
  - destruct (ct1_scalar _ _ _ _ E) as [Hl Hn]. rewrite vec3_reads_ok by (auto; lia). cbn.
    split; [exact I|]. split; [lia|]. intros ds0 v al H _. inversion H. repeat split; auto; lia.
  - cbn. split; [exact I|]. split; [lia|]. intros ds0 v al H Hv. inversion H. subst. contradiction.
Qed.

Lemma vec3_binary_safe k l r :
  safe (vec3_binary k l r) /\ alloc_of (vec3_binary k l r) <= 3 /\
  (forall ds v al, vec3_binary k l r = Ret ds v al -> v <> RNil -> zlen l = 3 /\ all_num l /\ zlen r = 3 /\ all_num r /\ ds = []).
Proof.
  unfold vec3_binary. destruct (check_type1 l TScalar 3 3) as [ds [|]] eqn:E.
  - destruct (ct1_scalar _ _ _ _ E) as [Hl Hn].
    destruct (check_type1 r TScalar 3 3) as [ds' [|]] eqn:E'.
    + destruct (ct1_scalar _ _ _ _ E') as [Hl' Hn']. rewrite !vec3_reads_ok by (auto; lia). cbn.
      split; [exact I|]. split; [lia|]. intros ds0 v al H _. inversion H. repeat split; auto; lia.
    + cbn. split; [exact I|]. split; [lia|]. intros ds0 v al H Hv. inversion H. subst. contradiction.
  - cbn. split; [exact I|]. split; [lia|]. intros ds0 v al H Hv. inversion H. subst. contradiction.
Qed.

(* ================================================================================================================ *)
(* IF then ARRAY, private, getVariable / setVariable *)
Lemma then_if_array_safe cond arr :
  safe (then_if_array cond arr) /\ res_ok (zlen arr) (then_if_array cond arr) /\ alloc_of (then_if_array cond arr) <= zlen arr /\
  (forall ds i al, then_if_array cond arr = Ret ds (RElem i) al ->
     i = (if cond then 0 else 1) /\ exists v, nth_error arr (Z.to_nat i) = Some v /\ is_code v = true).
Proof.
  unfold then_if_array. destruct (negb (zlen arr =? 2)) eqn:E.
  - cbn. split_all; auto; try lia. intros ? ? ? H; inversion H.
  - b2z. destruct arr as [|a [|b [|c r]]]; rewrite ?zlen_cons, ?(@zlen_nil val) in *; try lia; try (pose proof (zlen_nonneg r); lia).
    cbn [nth_error]. destruct cond; destruct (is_code a) eqn:Ea; destruct (is_code b) eqn:Eb;
      cbn [safe res_ok alloc_of app]; (split; [exact I|]); (split; [try exact I; lia|]); (split; [lia|]);
      intros ? ? ? H; inversion H; subst; (split; [reflexivity|]); cbn; try change (Pos.to_nat 1) with 1%nat; cbn; eauto.
Qed.

Lemma private_array_safe arr :
  safe (private_array arr) /\ alloc_of (private_array arr) <= zlen arr.
Proof.
  unfold private_array. rewrite loop_ok.
  - cbn. split; [exact I | lia].
  - intros x Hx. unfold vec_ok, zlen. destruct (0 <=? x) eqn:E1; [|b2z; lia].
    destruct (x <? Z.of_nat (List.length arr)) eqn:E2; [reflexivity | b2z; lia].
Qed.

Lemma ns_getvar_safe found r :
  safe (ns_getvar found r) /\ res_ok (zlen r) (ns_getvar found r) /\ alloc_of (ns_getvar found r) <= 0.
Proof.
  unfold ns_getvar. destruct (negb (zlen r =? 2)) eqn:E; [cbn; split_all; auto; lia|]. b2z.
  destruct (at_some r 0 ltac:(lia)) as [v0 [-> _]]. destruct (at_some r 1 ltac:(lia)) as [v1 [-> _]].
  destruct v0; destruct found; cbn; split_all; auto; lia.
Qed.

Lemma ns_setvar_safe r :
  safe (ns_setvar r) /\ res_ok (zlen r) (ns_setvar r) /\ alloc_of (ns_setvar r) <= 0.
Proof.
  unfold ns_setvar. destruct (negb (zlen r =? 2)) eqn:E; [cbn; split_all; auto; lia|]. b2z.
  destruct (at_some r 0 ltac:(lia)) as [v0 [-> _]]. destruct (at_some r 1 ltac:(lia)) as [v1 [-> _]].
  destruct v0; cbn; split_all; auto; lia.
Qed.

(* ================================================================================================================ *)
(* markers *)
Lemma pos_reads_ok arr : all_num arr -> 2 <= zlen arr <= 3 ->
  aseq (num_at arr 0) (aseq (num_at arr 1) (if 2 <? zlen arr then num_at arr 2 else AOk)) = AOk.
Proof.
  intros Hn Hl. rewrite !num_at_ok by (auto; lia). cbn [aseq].
  destruct (2 <? zlen arr) eqn:E; [|reflexivity]. b2z. apply num_at_ok; auto; lia.
Qed.

Lemma set_marker_pos_safe ex arr :
  safe (set_marker_pos ex arr) /\ alloc_of (set_marker_pos ex arr) <= 0 /\
  (forall ds k n al, set_marker_pos ex arr = Ret ds (RStored k n) al -> ex = true /\ 2 <= zlen arr <= 3 /\ all_num arr /\ k = zlen arr - 1).
Proof.
  unfold set_marker_pos. destruct ex; cbn [negb].
  - destruct (check_type1 arr TScalar 2 3) as [ds [|]] eqn:E.
    + destruct (ct1_scalar _ _ _ _ E) as [Hl Hn]. rewrite pos_reads_ok by auto. cbn.
      split; [exact I|]. split; [lia|]. intros ? ? ? ? H. inversion H. repeat split; auto; try lia.
      destruct (2 <? zlen arr) eqn:E2; b2z; lia.
    + cbn. split; [exact I|]. split; [lia|]. intros ? ? ? ? H; inversion H.
  - cbn. split; [exact I|]. split; [lia|]. intros ? ? ? ? H; inversion H.
Qed.

Lemma set_marker_size_safe ex arr :
  safe (set_marker_size ex arr) /\ alloc_of (set_marker_size ex arr) <= 0 /\
  (forall ds k n al, set_marker_size ex arr = Ret ds (RStored k n) al -> ex = true /\ zlen arr = 2 /\ all_num arr).
Proof.
  unfold set_marker_size. destruct ex; cbn [negb].
  - destruct (check_type1 arr TScalar 2 2) as [ds [|]] eqn:E.
    + destruct (ct1_scalar _ _ _ _ E) as [Hl Hn]. rewrite !num_at_ok by (auto; lia). cbn.
      split; [exact I|]. split; [lia|]. intros ? ? ? ? H. repeat split; auto; lia.
    + cbn. split; [exact I|]. split; [lia|]. intros ? ? ? ? H; inversion H.
  - cbn. split; [exact I|]. split; [lia|]. intros ? ? ? ? H; inversion H.
Qed.

(* a two-entry type vector against the array *)
Lemma chkN_2 arr t0 t1 : chkN arr [t0; t1] <> None /\
  (forall ds, chkN arr [t0; t1] = Some (ds, true) -> exists a b, arr = [a; b] /\ ty_of a = t0 /\ ty_of b = t1).
Proof.
  split.
  - unfold chkN. apply check_typeN_safe. lia.
  - intros ds H. unfold chkN, check_typeN in H. change (zlen [t0; t1]) with 2 in H.
    destruct ((zlen arr <? 2) || (2 <? zlen arr)) eqn:E; [inversion H|]. b2z.
    destruct arr as [|a [|b [|c r]]]; rewrite ?zlen_cons, ?(@zlen_nil val) in *; try lia; try (pose proof (zlen_nonneg r); lia).
    exists a, b. split; [reflexivity|]. cbn in H.
    destruct (ty_eqb (ty_of b) t1) eqn:Eb; destruct (ty_eqb (ty_of a) t0) eqn:Ea; try (inversion H; fail).
    split; apply ty_eqb_eq; assumption.
Qed.

Lemma at_cons0 {A} (a : A) l : at_ (a :: l) 0 = Some a.
Proof.
  unfold at_, vec_ok. rewrite zlen_cons. pose proof (zlen_nonneg l).
  destruct (0 <? 1 + zlen l) eqn:E2; [reflexivity | b2z; lia].
Qed.
Lemma at_cons1 {A} (a b : A) l : at_ (a :: b :: l) 1 = Some b.
Proof.
  unfold at_, vec_ok. rewrite !zlen_cons. pose proof (zlen_nonneg l).
  destruct (1 <? 1 + (1 + zlen l)) eqn:E2; [reflexivity | b2z; lia].
Qed.

Lemma create_marker_safe nu ex arr :
  safe (create_marker nu ex arr) /\ alloc_of (create_marker nu ex arr) <= zlen arr.
Proof.
  unfold create_marker.
  destruct (chkN_2 arr TString (TOther TOBJECT)) as [N1 S1]. destruct (chkN_2 arr TString TArray) as [N2 S2].
  destruct (chkN arr [TString; TOther TOBJECT]) as [[ds1 [|]]|] eqn:E1; [| |contradiction].
  - destruct (S1 ds1 eq_refl) as [a [b [-> [Ta Tb]]]].
    destruct a; cbn in Ta; try discriminate. destruct b; cbn in Tb; try discriminate.
    rewrite at_cons0, at_cons1. destruct nu; destruct ex; cbn [safe alloc_of]; split; auto; lia.
  - destruct (chkN arr [TString; TArray]) as [[ds2 [|]]|] eqn:E2; [| |contradiction].
    + destruct (S2 ds2 eq_refl) as [a [b [-> [Ta Tb]]]].
      destruct a; cbn in Ta; try discriminate. destruct b as [| | |tmp|]; cbn in Tb; try discriminate.
      rewrite at_cons0, at_cons1.
      destruct (check_type1 tmp TScalar 2 3) as [ds3 [|]] eqn:E3.
      * destruct (ct1_scalar _ _ _ _ E3) as [Hl Hn]. rewrite pos_reads_ok by auto. cbn [of_acc].
        destruct ex; cbn [safe alloc_of]; split; auto; lia.
      * cbn [safe alloc_of]. split; auto; lia.
    + cbn [safe alloc_of]. split; auto; lia.
Qed.

(* ================================================================================================================ *)
(* CONFIG select SCALAR *)
Lemma cfg_select_safe null children f :
  safe (cfg_select repaired null children f) /\ alloc_of (cfg_select repaired null children f) <= 0 /\
  (forall ds id al, cfg_select repaired null children f = Ret ds (RNum id) al -> null = false /\ ds = [] /\ In id children).
Proof.
  unfold cfg_select. use_cast (ip_trunc f). destruct null.
  - cbn. split_all; auto; try lia. intros ? ? ? HR; inversion HR.
  - destruct ((zlen children <=? z) || (z <? 0)) eqn:E.
    + cbn. split_all; auto; try lia. intros ? ? ? HR; inversion HR.
    + b2z. assert (z mod SIZE_MOD = z) as Hm by (apply Z.mod_small; unfold SIZE_MOD; lia). rewrite Hm.
      destruct (z <? zlen children) eqn:E2; [|b2z; lia].
      destruct (at_some children z ltac:(lia)) as [id [Hid Hin]]. unfold at_ in Hid. rewrite Hid.
      cbn. split_all; auto; try lia. intros ? ? ? HR; inversion HR; subst. auto.
Qed.

(* ================================================================================================================ *)
(* callExtension *)
Lemma callext_args_safe hp ld rvec :
  safe (callext_args hp ld rvec) /\
  alloc_of (callext_args hp ld rvec) <= CALLEXTBUFFSIZE + 2 * RVARGSLIMIT + 2 /\
  (forall ds al, callext_args hp ld rvec = Ret ds ROther al -> hp = true \/
     (ld = true /\ exists name v1, at_ rvec 0 = Some (VStr name) /\ at_ rvec 1 = Some v1 /\
        forall a, In a (match v1 with VArr l => l | v => [v] end) -> ext_arg_ok a = true)).
Proof.
  unfold callext_args. unfold CALLEXTBUFFSIZE, RVARGSLIMIT.
  destruct hp; [cbn [safe alloc_of]; split_all; auto; lia|].
  destruct (zlen rvec <? 2) eqn:E; [cbn [safe alloc_of]; split_all; auto; try lia; intros ? ? HR; inversion HR|]. b2z.
  destruct (at_some rvec 0 ltac:(lia)) as [v0 [H0 _]]. destruct (at_some rvec 1 ltac:(lia)) as [v1 [H1 _]].
  rewrite H0, H1.
  destruct v0 as [f|name|b|l0|t]; try (cbn [safe alloc_of]; split_all; auto; try lia; intros ? ? HR; inversion HR; fail).
  remember (match v1 with VArr a => a | v => [v] end) as args eqn:Hdef.
  destruct (is_arr v1 && (2048 <? zlen args)) eqn:EL.
  - cbn [safe alloc_of]. split_all; auto; try lia. intros ? ? HR; inversion HR.
  - assert (zlen args <= 2048) as Hargs.
    { destruct v1; cbn in EL; subst args; rewrite ?zlen_cons, ?(@zlen_nil val); try lia; b2z; lia. }
    pose proof (zlen_nonneg args) as Hnn.
    destruct (loop_cases (List.length args) 0 (fun i => match at_ args i with
                                                       | Some a => if ext_arg_ok a then AOk else ANo
                                                       | None => AThrow end)) as [H | [x [Hx [Hb Hne]]]].
    + rewrite H. destruct ld; cbn [safe alloc_of]; split_all; auto; try lia; intros ? ? HR; inversion HR.
      right. split; [reflexivity|]. exists name, v1. split; [reflexivity|]. split; [reflexivity|].
      intros a Ha. rewrite <- Hdef in Ha. destruct (in_at args a Ha) as [i [Hi Hat]].
      pose proof (loop_inv _ _ _ H i ltac:(unfold zlen in Hi; lia)) as Hc. cbv beta in Hc. rewrite Hat in Hc.
      destruct (ext_arg_ok a); [reflexivity | discriminate].
    + rewrite Hb. destruct (at_some args x ltac:(unfold zlen; lia)) as [a [Ha _]]. rewrite Ha in *.
      destruct (ext_arg_ok a); [contradiction|]. cbn [safe alloc_of]. split_all; auto; try lia. intros ? ? HR; inversion HR.
Qed.
