(* C09 (b), second list - guard models of further operators whose bodies index into their argument arrays: the argument
   validation and the index arithmetic, mirroring the C++ statement by statement.  Every vector::at / operator[], every
   data<T>() downcast of an element (a static_pointer_cast: undefined when the element has another type) and every
   counted loop is explicit; what C++ leaves undefined is the outcome UB, an exception that would leave the operator
   (vector::at throws std::out_of_range) is Throw.  Definitions only.

   A guard model is written for exactly these operators / helpers:
     is_matrix, matrixTranspose, matrixMultiply                                            (ops_math.cpp:176-285)
     vectorAdd, vectorDiff, vectorCrossProduct, vectorCos, vectorDistance, vectorDistanceSqr, vectorDotProduct,
     vectorMultiply, vectorMagnitude, vectorMagnitudeSqr, vectorNormalized                 (ops_math.cpp:304-443)
     IF then ARRAY                                                                         (ops_generic.cpp:195-240)
     private ARRAY                                                                         (ops_generic.cpp:974-996)
     NAMESPACE getVariable ARRAY, NAMESPACE setVariable ARRAY                              (ops_namespace.cpp:60-102)
     setMarkerPos(Local), setMarkerSize(Local), createMarker                               (ops_markers.cpp:141-200, 262-280, 370-385)
     CONFIG select SCALAR                                                                  (ops_config.cpp:76-92, confighost.h:245-256)
     STRING callExtension ARRAY (argument validation up to the library load)               (ops_generic.cpp:1540-1632)
   Line numbers are those of /repo/src at commit 4d4a99b. *)
From Coq Require Import ZArith List String Bool Lia.
From SqfVerif Require Import Ops.OpsBase Ops.Guards.
Import ListNotations.
Local Open Scope string_scope.
Local Open Scope list_scope.
Local Open Scope Z_scope.

(* ---------------------------------------------------------------------------------------------------------------- *)
(* what a run of element accesses comes to: all defined / a test said no / vector::at threw / a downcast or index was
   undefined *)
Inductive acc := AOk | ANo | AThrow | AUB.
Definition aseq (a : acc) (k : acc) : acc := match a with AOk => k | r => r end.

(* for (size_t x = i; x < i + k; x++) body(x): k rounds, left at the first round that is not AOk.  The bounds of all
   the loops modelled with it are sizes read before the loop, and nothing inside the loops changes an array. *)
Fixpoint loop (k : nat) (i : Z) (body : Z -> acc) : acc :=
  match k with
  | O => AOk
  | S k' => match body i with AOk => loop k' (i + 1) body | r => r end
  end.

(* d_array::at(i): std::vector::at, throws std::out_of_range *)
Definition at_ {A} (l : list A) (i : Z) : option A := if vec_ok (zlen l) i then nth_error l (Z.to_nat i) else None.

Definition TCODE : Z := 1.                        (* the tag checks/C09.py gives CODE values *)
Definition TOBJECT : Z := 2.                      (* ... and OBJECT values (objNull) *)
Definition is_code (v : val) : bool := match v with VOther t => t =? TCODE | _ => false end.
Definition is_bool (v : val) : bool := match v with VBool _ => true | _ => false end.

Definition of_acc (a : acc) (ok : outcome) : outcome :=
  match a with
  | AOk => ok
  | ANo => ok
  | AThrow => Throw "std::out_of_range (vector::at)"
  | AUB => UB "data<T>() of an element of another type (static_pointer_cast to the wrong class)"
  end.

(* arr->at(i).data<d_scalar, float>() *)
Definition num_at (l : list val) (i : Z) : acc :=
  match at_ l i with None => AThrow | Some (VNum _) => AOk | Some _ => AUB end.
(* arr->at(i).data<d_array>()->size(): Some size, or how it fails *)
Definition row_at (m : list val) (i : Z) : acc * list val :=
  match at_ m i with None => (AThrow, []) | Some (VArr r) => (AOk, r) | Some _ => (AUB, []) end.
(* m->at(i).data<d_array>()->at(j).data<d_scalar, float>() *)
Definition cell (m : list val) (i j : Z) : acc :=
  match row_at m i with (AOk, r) => num_at r j | (a, _) => a end.

(* ================================================================================================================ *)
(* is_matrix: ops_math.cpp:177-191 *)
Definition is_matrix (arr : list val) : acc :=
  if zlen arr =? 0 then ANo else                                                (* :179 arr->size() == 0 *)
  match at_ arr 0 with                                                          (* :179 arr->at(0) *)
  | None => AThrow
  | Some (VArr r0) =>
    if zlen r0 =? 0 then ANo else
    let cols := zlen r0 in                                                      (* :180 *)
    loop (List.length arr) 0 (fun i =>                                          (* :181 i < arr->size() *)
      match at_ arr i with                                                      (* :183 arr->at(i) *)
      | None => AThrow
      | Some (VArr row) =>
        if negb (zlen row =? cols) then ANo else
        loop (Z.to_nat cols) 0 (fun j =>                                        (* :185 j < cols *)
          match at_ row j with                                                  (* :187 row->at(j).is<t_scalar>() *)
          | None => AThrow
          | Some v => if is_num v then AOk else ANo
          end)
      | Some _ => ANo
      end)
  | Some _ => ANo
  end.

(* what is_matrix establishes *)
Definition matrix_shape (arr : list val) (cols : Z) : Prop :=
  0 < zlen arr /\ 0 < cols /\
  forall v, In v arr -> exists row, v = VArr row /\ zlen row = cols /\ forall x, In x row -> is_num x = true.

(* matrixTranspose behind the is_matrix test: ops_math.cpp:257-284 *)
Definition transpose_body (l : list val) : outcome :=
  if zlen l =? 0 then Ret [] (RShape 0 0) 0 else                                (* :258 *)
  match at_ l 0 with
  | None => Throw "std::out_of_range (vector::at)"
  | Some (VArr r0) =>
    if zlen r0 =? 0 then Ret [] (RShape 0 0) 0 else
    let row_size := zlen l in                                                   (* :262 *)
    let col_size := zlen r0 in                                                  (* :263 *)
    (* :266-270 for (i = 1; i < row_size; i++) l->at(i).data<d_array>()->size() != col_size *)
    match loop (List.length l - 1)%nat 1 (fun i => match row_at l i with
                                               | (AOk, r) => if zlen r =? col_size then AOk else ANo
                                               | (a, _) => a end) with
    | ANo => Ret [] (RShape 0 0) 0
    | AThrow => of_acc AThrow (Ret [] RNil 0)
    | AUB => of_acc AUB (Ret [] RNil 0)
    | AOk =>
      (* :274-280 for (i < col_size) for (j < row_size) l->at(j).data<d_array>()->at(i).data<d_scalar, float>() *)
      of_acc (loop (Z.to_nat col_size) 0 (fun i => loop (List.length l) 0 (fun j => cell l j i)))
             (Ret [] (RShape col_size row_size) (col_size + col_size * row_size))
    end
  | Some _ => Ret [] (RShape 0 0) 0                                             (* :258 type() != t_array() *)
  end.

Definition matrix_transpose (l : list val) : outcome :=
  match is_matrix l with                                                        (* :253 *)
  | AOk => transpose_body l
  | ANo => Ret [] (RShape 0 0) 0
  | a => of_acc a (Ret [] RNil 0)
  end.

(* the first row of a checked operand: Some cols, None = the operator answers [] *)
Definition first_cols (m : list val) : acc * Z :=
  if zlen m =? 0 then (ANo, 0) else
  match at_ m 0 with
  | None => (AThrow, 0)
  | Some (VArr r0) => if zlen r0 =? 0 then (ANo, 0) else (AOk, zlen r0)
  | Some _ => (ANo, 0)
  end.
Definition same_cols (m : list val) (cols : Z) : acc :=
  loop (List.length m - 1)%nat 1 (fun i => match row_at m i with
                                       | (AOk, r) => if zlen r =? cols then AOk else ANo
                                       | (a, _) => a end).

(* matrixMultiply behind the two is_matrix tests: ops_math.cpp:200-248 *)
Definition multiply_body (l r : list val) : outcome :=
  let empty := Ret [] (RShape 0 0) 0 in
  match first_cols l with                                                       (* :201 *)
  | (ANo, _) => empty
  | (AOk, l_cols) =>
    match first_cols r with                                                     (* :204 *)
    | (ANo, _) => empty
    | (AOk, r_cols) =>
      let l_rows := zlen l in let r_rows := zlen r in                           (* :208-211 *)
      match same_cols l l_cols with                                             (* :214-218 *)
      | ANo => empty
      | AOk =>
        match same_cols r r_cols with                                           (* :221-225 *)
        | ANo => empty
        | AOk =>
          if negb (l_cols =? r_rows) then empty else                            (* :228 *)
          (* :234-246 for (i < l_rows) for (j < r_cols) for (k < r_rows) l[i][k] * r[k][j] *)
          of_acc (loop (List.length l) 0 (fun i => loop (Z.to_nat r_cols) 0 (fun j => loop (List.length r) 0 (fun k =>
                    aseq (cell l i k) (cell r k j)))))
                 (Ret [] (RShape l_rows r_cols) (l_rows + l_rows * r_cols))
        | a => of_acc a empty
        end
      | a => of_acc a empty
      end
    | (a, _) => of_acc a empty
    end
  | (a, _) => of_acc a empty
  end.

Definition matrix_multiply (l r : list val) : outcome :=
  match is_matrix l with                                                        (* :196 !is_matrix(l) || !is_matrix(r) *)
  | AOk => match is_matrix r with
           | AOk => multiply_body l r
           | ANo => Ret [] (RShape 0 0) 0
           | a => of_acc a (Ret [] RNil 0)
           end
  | ANo => Ret [] (RShape 0 0) 0
  | a => of_acc a (Ret [] RNil 0)
  end.

(* ================================================================================================================ *)
(* the vector operators: ops_math.cpp:304-443.  After check_type(t_scalar(), 3) an operator either reads
   at(0..2).data<d_scalar, float>() itself (VkAt: vectorAdd :312-314, vectorCrossProduct :337-339, vectorMultiply
   :373-375, vectorDiff :387-389, vectorNormalized :436-438) or converts through d_array::operator vec3
   (VkConv, d_array.h:203-210: every read behind `size() > i`, data_try) *)
Inductive vkind := VkAt | VkConv.
Definition vec3_reads (k : vkind) (l : list val) : acc :=
  match k with
  | VkConv => AOk
  | VkAt => aseq (num_at l 0) (aseq (num_at l 1) (num_at l 2))
  end.
Definition vec3_unary (k : vkind) (l : list val) : outcome :=
  match check_type1 l TScalar 3 3 with                                          (* :406, :415, :425, :369 *)
  | (ds, false) => Ret ds RNil 0
  | (_, true) => of_acc (vec3_reads k l) (Ret [] ROther 3)
  end.
Definition vec3_binary (k : vkind) (l r : list val) : outcome :=
  match check_type1 l TScalar 3 3 with                                          (* :309 !l->check_type || !r->check_type *)
  | (ds, false) => Ret ds RNil 0                                                (* the right operand is not looked at *)
  | (_, true) =>
    match check_type1 r TScalar 3 3 with
    | (ds, false) => Ret ds RNil 0
    | (_, true) => of_acc (aseq (vec3_reads k l) (vec3_reads k r)) (Ret [] ROther 3)
    end
  end.

(* ================================================================================================================ *)
(* IF then ARRAY: ops_generic.cpp:195-240; the result names the element whose code is run *)
Definition then_if_array (cond : bool) (arr : list val) : outcome :=
  let n := zlen arr in                                                          (* :198 a copy of the vector *)
  if negb (n =? 2) then Ret [ExpectedArraySizeMissmatch] RNil n else           (* :199 *)
  match nth_error arr 0, nth_error arr 1 with                                   (* :204-205 arr[0], arr[1] *)
  | Some el0, Some el1 =>
    if cond then
      let ds := if is_code el1 then [] else [ExpectedArrayTypeMissmatchWeak] in (* :208 *)
      if is_code el0 then Ret ds (RElem 0) n                                    (* :212 *)
      else Ret (ds ++ [ExpectedArrayTypeMissmatch]) RNil n                      (* :219 *)
    else
      let ds := if is_code el0 then [] else [ExpectedArrayTypeMissmatchWeak] in (* :225 *)
      if is_code el1 then Ret ds (RElem 1) n                                    (* :229 *)
      else Ret (ds ++ [ExpectedArrayTypeMissmatch]) RNil n                      (* :236 *)
  | _, _ => UB_INDEX
  end.

(* private ARRAY: ops_generic.cpp:974-996; for (i < arr.size()) arr[i]; the second loop runs over strings only *)
Definition private_array (arr : list val) : outcome :=
  let n := zlen arr in
  match loop (List.length arr) 0 (fun i => if vec_ok n i then AOk else AUB) with            (* :979 arr[i], i < arr.size() *)
  | AOk =>
    let bad := filter (fun v => negb (is_str v)) arr in                         (* :980-984 *)
    Ret (map (fun _ => ExpectedArrayTypeMissmatch) bad) RNil n
  | _ => UB_INDEX
  end.

(* NAMESPACE getVariable [name, default]: ops_namespace.cpp:60-84; found = the namespace has the variable *)
Definition ns_getvar (found : bool) (r : list val) : outcome :=
  if negb (zlen r =? 2) then Ret [ExpectedArraySizeMissmatch; ReturningNil] RNil 0 else       (* :64 *)
  match at_ r 0 with                                                            (* :70 r->at(0) *)
  | None => Throw "std::out_of_range (vector::at)"
  | Some (VStr _) =>
    if found then Ret [] ROther 0                                               (* :78-80 *)
    else match at_ r 1 with                                                     (* :82 r->at(1) *)
         | None => Throw "std::out_of_range (vector::at)"
         | Some _ => Ret [] (RElem 1) 0
         end
  | Some _ => Ret [ExpectedArrayTypeMissmatch; ReturningNil] RNil 0             (* :72 *)
  end.
(* NAMESPACE setVariable [name, value]: ops_namespace.cpp:85-102 *)
Definition ns_setvar (r : list val) : outcome :=
  if negb (zlen r =? 2) then Ret [ExpectedArraySizeMissmatch] RNil 0 else       (* :89 *)
  match at_ r 0 with                                                            (* :94 *)
  | None => Throw "std::out_of_range (vector::at)"
  | Some (VStr _) => match at_ r 1 with                                         (* :100 *)
                     | None => Throw "std::out_of_range (vector::at)"
                     | Some _ => Ret [] (RStored 1 2) 0
                     end
  | Some _ => Ret [ExpectedArrayTypeMissmatch] RNil 0                           (* :96 *)
  end.

(* ================================================================================================================ *)
(* markers: ops_markers.cpp.  exists_ = the marker storage has the name *)

(* setMarkerPos :262-280: at(0), at(1), size() > 2 ? at(2) : 0;  RStored k 3 = k coordinates were taken from the array *)
Definition set_marker_pos (exists_ : bool) (arr : list val) : outcome :=
  if negb exists_ then Ret [MarkerNotExisting] RNil 0 else                      (* :265 *)
  match check_type1 arr TScalar 2 3 with                                        (* :272 *)
  | (ds, false) => Ret ds RNil 0
  | (_, true) =>
    let third := if 2 <? zlen arr then num_at arr 2 else AOk in                 (* :276 *)
    of_acc (aseq (num_at arr 0) (aseq (num_at arr 1) third)) (Ret [] (RStored (if 2 <? zlen arr then 2 else 1) 3) 0)
  end.
(* setMarkerSize :370-385 *)
Definition set_marker_size (exists_ : bool) (arr : list val) : outcome :=
  if negb exists_ then Ret [MarkerNotExisting] RNil 0 else                      (* :373 *)
  match check_type1 arr TScalar 2 2 with                                        (* :380 *)
  | (ds, false) => Ret ds RNil 0
  | (_, true) => of_acc (aseq (num_at arr 0) (num_at arr 1)) (Ret [] (RStored 1 2) 0)   (* :384 *)
  end.

(* check_type with a type vector whose length is its maximum (d_array.h:218): None cannot happen then, see
   check_typeN_safe; kept visible as UB *)
Definition chkN (elems : list val) (tys : list ty) : option (list dg * bool) := check_typeN elems tys (zlen tys) (zlen tys).

(* createMarker [name, object | position]: ops_markers.cpp:141-200.  The array is first tried as [STRING, OBJECT]; the
   diagnostics of that attempt stay in the log when the second attempt [STRING, ARRAY] succeeds.
   nullobj = the object handle is null; exists_ = the name is taken *)
Definition create_marker (nullobj exists_ : bool) (arr : list val) : outcome :=
  let n := zlen arr in
  let finish (ds : list dg) := if exists_ then Ret (ds ++ [MarkerAlreadyExisting; ReturningEmptyString]) ROther n   (* :184 *)
                               else Ret ds (RStored 0 1) n in                                                      (* :190-193 *)
  match chkN arr [TString; TOther TOBJECT] with                                 (* :146 *)
  | None => UB "check_type: p_t[i] behind the end of the type vector"
  | Some (_, true) =>
    match at_ arr 0, at_ arr 1 with                                             (* :148-149 *)
    | Some (VStr _), Some (VOther _) =>
      if nullobj then Ret [ExpectedNonNullValueWeak; ReturningNil] RNil n       (* :150 *)
      else finish []
    | None, _ | _, None => Throw "std::out_of_range (vector::at)"
    | _, _ => UB "data<T>() of an element of another type (static_pointer_cast to the wrong class)"
    end
  | Some (ds1, false) =>
    match chkN arr [TString; TArray] with                                       (* :160 *)
    | None => UB "check_type: p_t[i] behind the end of the type vector"
    | Some (ds2, false) => Ret (ds1 ++ ds2) RNil n                              (* :178 *)
    | Some (_, true) =>
      match at_ arr 0, at_ arr 1 with                                           (* :162-163 *)
      | Some (VStr _), Some (VArr tmp) =>
        match check_type1 tmp TScalar 2 3 with                                  (* :164 *)
        | (ds3, false) => Ret (ds1 ++ ds3) RNil n
        | (_, true) =>
          let third := if 2 <? zlen tmp then num_at tmp 2 else AOk in           (* :170-172 *)
          of_acc (aseq (num_at tmp 0) (aseq (num_at tmp 1) third)) (finish ds1)
        end
      | None, _ | _, None => Throw "std::out_of_range (vector::at)"
      | _, _ => UB "data<T>() of an element of another type (static_pointer_cast to the wrong class)"
      end
    end
  end.

(* ================================================================================================================ *)
(* CONFIG select SCALAR: ops_config.cpp:76-92 with confignav::at (confighost.h:245-256).  children = m_children_vec of
   the class (INVALID = the slot of a deleted entry), null = the left operand does not navigate to a class.
   The result is the container id handed back (INVALID: configNull) *)
Definition cfg_select (df : defects) (null : bool) (children : list Z) (f : fl) : outcome :=
  match cast_int df (ip_trunc f) with                                           (* :79 data<d_scalar, int>() *)
  | CUB => UB_CAST
  | CI index =>
    if null then Ret [ExpectedNonNullValue; ReturningConfigNull] RNil 0         (* :82 *)
    else
      let n := zlen children in
      if (n <=? index) || (index <? 0) then Ret [IndexOutOfRangeWeak; ReturningConfigNull] RNil 0   (* :87 static_cast<int>(nav->size()) *)
      else
        let i := index mod SIZE_MOD in                                          (* :93 int -> size_t *)
        if i <? n then                                                          (* confighost.h:250 *)
          match (if vec_ok n i then nth_error children (Z.to_nat i) else None) with   (* :252 container[index] *)
          | Some id => Ret [] (RNum id) 0
          | None => UB_INDEX
          end
        else Ret [] (RNum INVALID) 0
  end.

(* ================================================================================================================ *)
(* STRING callExtension ARRAY: ops_generic.cpp:1540-1632, up to the point where the library is loaded.
   has_path = the library name holds / or \ ; loads = the library loads and resolves RVExtensionArgs (what the
   extension then does is outside the model: ROther).  The numbers are the error codes of the answer ["", 0, code] *)
Definition RVARGSLIMIT : Z := 2048.
Definition CALLEXTBUFFSIZE : Z := 10240.
Definition ext_arg_ok (v : val) : bool := is_bool v || is_str v || is_num v || is_arr v.          (* :1590 *)
Definition callext_args (has_path loads : bool) (rvec : list val) : outcome :=
  let al := CALLEXTBUFFSIZE in                                                  (* :1542 *)
  if has_path then Ret [LibraryNameContainsPath; ReturningEmptyString] ROther al else   (* :1544 *)
  let n := zlen rvec in
  if n <? 2 then Ret [ExpectedArraySizeMissmatchWeak; ReturningErrorCode] (RNum 201) al else     (* :1551 *)
  let ds := if 2 <? n then [ExpectedArraySizeMissmatchWeak] else [] in          (* :1557 *)
  match at_ rvec 0 with                                                         (* :1561 *)
  | None => Throw "std::out_of_range (vector::at)"
  | Some (VStr _) =>
    match at_ rvec 1 with                                                       (* :1567 *)
    | None => Throw "std::out_of_range (vector::at)"
    | Some v1 =>
      let args := match v1 with VArr a => a | v => [v] end in                   (* :1569, :1579-1580 *)
      if is_arr v1 && (RVARGSLIMIT <? zlen args)                                (* :1570 *)
      then Ret (ds ++ [ExpectedArraySizeMissmatchWeak; ReturningErrorCode]) (RNum 101) al
      else
        (* :1585-1598 for (i < arr->size()) arr->at(i): the first element of another type ends the call *)
        match loop (List.length args) 0 (fun i => match at_ args i with
                                                  | None => AThrow
                                                  | Some a => if ext_arg_ok a then AOk else ANo end) with
        | AOk =>
          let al2 := al + 2 * zlen args in                                      (* :1583, :1599-1604 *)
          if loads then Ret ds ROther al2
          else Ret (ds ++ [ExtensionRuntimeError; ReturningErrorCode]) (RNum 501) al2             (* :1626 *)
        | ANo => Ret (ds ++ [ExpectedArrayTypeMissmatch; ReturningErrorCode]) (RNum 102) (al + 2 * zlen args)
        | a => of_acc a (Ret [] RNil 0)
        end
    end
  | Some _ => Ret (ds ++ [ExpectedArrayTypeMissmatch]) RNil al                  (* :1563 *)
  end.
