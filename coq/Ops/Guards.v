(* C09 (b) - guard models: the argument validation and index / size arithmetic of the operators C09 names, one
   Gallina function per operator, mirroring the C++ statement by statement.  Every vector::operator[] / at(),
   string[], iterator addition, float -> int conversion, int addition and allocation size is explicit; what C++ leaves
   undefined is the outcome UB, an exception that would leave the operator is Throw.  Definitions only.

   A guard model is written for exactly these operators / helpers (a second list is in Ops/Guards2.v) and no others:
     select (ARRAY,SCALAR) (ARRAY,BOOL) (ARRAY,ARRAY) (STRING,ARRAY), resize, deleteRange, deleteAt, set,
     pushBack, pushBackUnique, append, sort, param, params, format, toArray, toString, splitString,
     selectMax, selectMin, selectRandom, toFixed (unary, binary), the configClasses / configProperties iterator,
     fromAssembly__ (instruction split, d_string::from_sqf, makeArray count, callBinary lookup),
     d_array::check_type (both overloads), get_bom_skip of read_file_from_disk.
   Line numbers are those of /repo/src at the commit the check was written against (382ec7b). *)
From Coq Require Import ZArith List String Bool Lia.
From SqfVerif Require Import Ops.OpsBase.
Import ListNotations.
Local Open Scope string_scope.
Local Open Scope list_scope.
Local Open Scope Z_scope.

Definition is_arr (v : val) : bool := match v with VArr _ => true | _ => false end.
Definition is_num (v : val) : bool := match v with VNum _ => true | _ => false end.
Definition is_str (v : val) : bool := match v with VStr _ => true | _ => false end.
Definition nullb {A} (l : list A) : bool := match l with [] => true | _ => false end.

Definition UB_CAST := UB "float-cast-overflow: the value is not representable in int".
Definition UB_INDEX := UB "vector::operator[]: index out of range".

(* ================================================================================================================ *)
(* select: ops_generic.cpp:576-592  select_array_scalar *)
Definition select_scalar (df : defects) (n : Z) (f : fl) : outcome :=
  match cast_int df (ip_round f) with                      (* :579 static_cast<int>(std::round(f)) *)
  | CUB => UB_CAST
  | CI index =>
    if (n <? index) || (index <? 0) then Ret [IndexOutOfRange] RNil n           (* :581 *)
    else if n =? index then Ret [IndexEqualsRange] RNil n                       (* :586 *)
    else if vec_ok n index then Ret [] (RElem index) n else UB_INDEX            (* :591 arr[index] *)
  end.

(* ops_generic.cpp:593-613  select_array_bool *)
Definition select_bool (n : Z) (flag : bool) : outcome :=
  let ds := if n =? 2 then [] else [ExpectedArraySizeMissmatchWeak] in          (* :597 *)
  if (negb flag && (n <? 2)) || (n <? 1) then Ret (ds ++ [ReturningNil]) RNil n  (* :601 *)
  else if flag && (n <? 2) then Ret (ds ++ [ReturningNil]) RNil n               (* :606 *)
  else let i := if flag then 1 else 0 in
       if vec_ok n i then Ret ds (RElem i) n else UB_INDEX.                     (* :612 *)

(* ops_generic.cpp:614-667  select_array_array: [start, length] *)
Definition select_range (df : defects) (n : Z) (args : list val) : outcome :=
  let m := zlen args in
  let al := n + m in                                        (* both operands are copied, :616-617 *)
  if m <? 1 then Ret [ExpectedMinimumArraySizeMissmatch] RNil al else          (* :618 *)
  let ds := if m =? 2 then [] else [ExpectedArraySizeMissmatchWeak] in          (* :623 *)
  match nth_error args 0 with
  | None => UB_INDEX                                                            (* :627 arr[0] *)
  | Some (VNum f0) =>
    match cast_int df (ip_round f0) with                                        (* :632 *)
    | CUB => UB_CAST
    | CI start =>
      if start <? 0 then Ret (ds ++ [NegativeIndexWeak; ReturningEmptyArray]) (RSlice 0 0) al          (* :633 *)
      else if n <? start then Ret (ds ++ [IndexOutOfRangeWeak; ReturningEmptyArray]) (RSlice 0 0) al   (* :639 *)
      else if 2 <=? m then                                                                               (* :645 *)
        match nth_error args 1 with
        | None => UB_INDEX
        | Some (VNum f1) =>
          match cast_int df (ip_round f1) with                                  (* :652 *)
          | CUB => UB_CAST
          | CI len =>
            if len <? 0 then Ret (ds ++ [NegativeIndexWeak; ReturningEmptyArray]) (RSlice 0 0) al      (* :653 *)
            else
              (* :660 vector(vec.begin() + start, <last>) *)
              let mk (cnt : Z) (last : Z) :=
                if it_ok n start && it_ok n last && (start <=? last)
                then Ret ds (RSlice start cnt) (al + cnt) else UB "iterator range outside the vector" in
              if df_range_add df then
                match iadd start len with                                       (* start + length in int *)
                | None => UB "signed integer overflow: start + length"
                | Some s => if n <? s then mk (n - start) n else mk len s
                end
              else if n - start <? len then mk (n - start) n else mk len (start + len)
          end
        | Some _ => Ret (ds ++ [ExpectedArrayTypeMissmatch]) RNil al            (* :647 *)
        end
      else Ret ds (RSlice 0 0) al                                               (* :664 *)
    end
  | Some _ => Ret (ds ++ [ExpectedArrayTypeMissmatch]) RNil al                  (* :627 *)
  end.

(* ops_string.cpp:40-84  select_string_array; len = str.length() *)
Definition select_string (df : defects) (len : Z) (args : list val) : outcome :=
  let m := zlen args in
  let al := len + m in
  match args with
  | [] => Ret [ExpectedArrayToHaveElements] RNil al                             (* :44 *)
  | VNum f0 :: rest =>
    match cast_int df (ip_round f0) with                                        (* :54 *)
    | CUB => UB_CAST
    | CI start =>
      if start <? 0 then Ret [NegativeIndexWeak; ReturningEmptyString] (RSlice 0 0) al                  (* :55 *)
      else if len <=? start then Ret [IndexOutOfRangeWeak; ReturningEmptyString] (RSlice 0 0) al        (* :61 *)
      else
        (* std::string::substr(pos, n): throws std::out_of_range when pos > size() *)
        let substr (cnt : Z) := if len <? start then Throw "std::out_of_range (basic_string::substr)"
                                else let c := Z.min cnt (len - start) in Ret [] (RSlice start c) (al + c) in
        match rest with
        | [] => substr (len - start)                                            (* :83 *)
        | VNum f1 :: _ =>
          match cast_int df (ip_round f1) with                                  (* :74 *)
          | CUB => UB_CAST
          | CI cnt => if cnt <? 0 then Ret [NegativeIndexWeak; ReturningEmptyString] (RSlice 0 0) al   (* :75 *)
                      else substr cnt                                           (* :81 *)
          end
        | _ :: _ => Ret [ExpectedArrayTypeMissmatch] RNil al                    (* :69 *)
        end
    end
  | _ :: _ => Ret [ExpectedArrayTypeMissmatch] RNil al                          (* :49 *)
  end.

(* ================================================================================================================ *)
(* ops_generic.cpp:809-819  resize_array_scalar *)
Definition resize_model (df : defects) (n : Z) (f : fl) : outcome :=
  if negb (fl_ge0 f) then Ret [NegativeSize] RNil 0                             (* :812 !(f >= 0) *)
  else
    let too_big := match f with FFin k => ARR_MAX * SCALE <? k | FPInf => true | _ => false end in
    if negb (df_nolimit df) && too_big then Ret [IndexOutOfRange] RNil 0        (* repaired: f > d_array::max_size() *)
    else
      match ip_trunc f with                                                     (* :817 static_cast<size_t>(f) *)
      | IP z => if z <? SIZE_MOD
                then if VEC_MAX <? z then Throw "std::length_error (vector::resize)"
                     else Ret [] (RResized z) z
                else UB "float-cast-overflow: the value is not representable in size_t"
      | _ => UB "float-cast-overflow: the value is not representable in size_t"
      end.

(* d_array.cpp:71-95  check_type(runtime, type t, min, max): one type for every element *)
Definition check_type1 (elems : list val) (t : ty) (mn mx : Z) : list dg * bool :=
  let n := zlen elems in
  if (n <? mn) || (mx <? n) then ([ExpectedArraySizeMissmatch], false)
  else let bad := filter (fun v => negb (ty_eqb (ty_of v) t)) elems in
       (map (fun _ => ExpectedArrayTypeMissmatch) bad, nullb bad).

(* d_array.cpp:97-122  check_type(runtime, const type* p_t, min, max): element i against p_t[i]; tys is the array
   p_t points to, None = p_t[i] read behind its end *)
Fixpoint check_typeN_loop (elems : list val) (tys : list ty) : option (list dg * bool) :=
  match elems with
  | [] => Some ([], true)
  | v :: es =>
    match tys with
    | [] => None
    | t :: ts =>
      match check_typeN_loop es ts with
      | None => None
      | Some (ds, ok) => if ty_eqb (ty_of v) t then Some (ds, ok) else Some (ExpectedArrayTypeMissmatch :: ds, false)
      end
    end
  end.
Definition check_typeN (elems : list val) (tys : list ty) (mn mx : Z) : option (list dg * bool) :=
  let n := zlen elems in
  if (n <? mn) || (mx <? n) then Some ([ExpectedArraySizeMissmatch], false)
  else check_typeN_loop elems tys.

(* ops_generic.cpp:820-853  deleterange_array_array *)
Definition delete_range (df : defects) (n : Z) (args : list val) : outcome :=
  let al := zlen args in
  match check_type1 args TScalar 2 2 with                                       (* :822 *)
  | (ds, false) => Ret ds RNil al
  | (_, true) =>
    match args with
    | VNum f0 :: VNum f1 :: _ =>
      match cast_int df (ip_round f0), cast_int df (ip_round f1) with           (* :826-827 (int)std::roundf *)
      | CI from, CI to0 =>
        let ds1 := if to0 <? from then [StartIndexExceedsToIndexWeak] else [] in (* :830 *)
        let to1 := if to0 <? from then from else to0 in
        if from <? 0 then Ret (ds1 ++ [NegativeIndexWeak; ReturningNil]) RNil al (* :835 *)
        else
          let ds2 := if n <=? to1 then ds1 ++ [IndexOutOfRangeWeak] else ds1 in (* :841 *)
          let to2 := if n <=? to1 then n - 1 else to1 in                        (* :844 (int)(size() - 1) *)
          match iadd to2 1 with
          | None => UB "signed integer overflow: to + 1"
          | Some e =>
            if e <? from then Ret ds2 RNil al                                   (* :846 *)
            else if it_ok n from && it_ok n e && (from <=? e)                   (* :851 erase(begin()+from, begin()+to+1) *)
                 then Ret ds2 (RErased from (e - from)) al
                 else UB "iterator range outside the vector"
          end
      | _, _ => UB_CAST
      end
    | _ => UB_INDEX
    end
  end.

(* ops_generic.cpp:1336-1353  deleteat_array_scalar *)
Definition delete_at (df : defects) (n : Z) (f : fl) : outcome :=
  match cast_int df (ip_trunc f) with                                           (* :1339 data<d_scalar, int>() *)
  | CUB => UB_CAST
  | CI index =>
    if n <=? index then Ret [IndexOutOfRangeWeak] RNil 0                        (* :1340 *)
    else if index <? 0 then Ret [NegativeIndexWeak] RNil 0                      (* :1345 *)
    else if vec_ok n index then Ret [] (RElem index) 0                          (* :1350 at(index), :1351 erase *)
         else Throw "std::out_of_range (vector::at)"
  end.

(* ops_generic.cpp:1229-1266  set_array_array (the recursion test of :1258 is C08's subject: values here are trees) *)
Definition set_model (df : defects) (n : Z) (args : list val) : outcome :=
  let m := zlen args in
  if negb (m =? 2) then Ret [ExpectedArraySizeMissmatch] RNil m else            (* :1233 *)
  match args with
  | VNum f0 :: _ =>
    match cast_int df (ip_trunc f0) with                                        (* :1244 *)
    | CUB => UB_CAST
    | CI index =>
      if index <? 0 then Ret [NegativeIndex] RNil m                             (* :1245 *)
      else if negb (df_nolimit df) && (ARR_MAX <=? index) then Ret [IndexOutOfRange] RNil m   (* repaired *)
      else if n <=? index then                                                  (* :1252 *)
        (* :1254 resize(index + 1): int addition as is, size_t addition in the repaired code *)
        match (if df_cast df then iadd index 1 else Some (index + 1)) with
        | None => UB "signed integer overflow: index + 1"
        | Some sz => if VEC_MAX <? sz then Throw "std::length_error (vector::resize)"
                     else if vec_ok sz index then Ret [] (RStored index sz) (m + sz) else UB_INDEX
        end
      else if vec_ok n index then Ret [] (RStored index n) m else UB_INDEX      (* :1256-1257 *)
    end
  | _ :: _ => Ret [ExpectedArrayTypeMissmatch] RNil m                           (* :1238 *)
  | [] => UB_INDEX
  end.

(* ops_generic.cpp:854-883, 1298-1313  pushBack, pushBackUnique, append: sizes only (growth of std::vector at most
   doubles the capacity) *)
Definition push_back (n : Z) : outcome := Ret [] (RNum n) (2 * n + 1).
Definition push_back_unique (n : Z) (found : bool) : outcome :=
  if found then Ret [] (RNum (-1)) 0 else Ret [] (RNum n) (2 * n + 1).
Definition append_model (n m : Z) : outcome := Ret [] RNil (m + 2 * (n + m)).

(* ================================================================================================================ *)
(* sort: ops_generic.cpp:734-808 *)

(* std::string operator< / >: lexicographic on unsigned bytes, a proper prefix is smaller *)
Fixpoint lexc {A} (c : A -> A -> comparison) (a b : list A) : comparison :=
  match a, b with
  | [], [] => Eq
  | [], _ :: _ => Lt
  | _ :: _, [] => Gt
  | x :: a', y :: b' => match c x y with Eq => lexc c a' b' | r => r end
  end.
Definition str_cmp (a b : list Z) : comparison := lexc Z.compare a b.

Definition decode (flag : bool) (c : comparison) : bool :=
  match c with Lt => flag | Gt => negb flag | Eq => false end.

(* scalars: as is `a < b -> flag; a > b -> !flag; false` (:800-802); repaired with less_scalar *)
Definition num_cmp_bool (df : defects) (flag : bool) (x y : fl) : bool :=
  if df_sort_cmp df then (if fl_lt x y then flag else if fl_lt y x then negb flag else false)
  else (if fl_less x y then flag else if fl_less y x then negb flag else false).

(* one pass of the loop :774-789 over the row a; None = undefined (b_arr[idx] behind the end of the row b, or
   data<d_string>() / data<d_scalar>() of an element of another type) *)
Fixpoint row_cmp_rep (flag : bool) (ra rb : list val) : option bool :=
  match ra with
  | [] => Some false
  | x :: ra' =>
    match rb with
    | [] => None
    | y :: rb' =>
      match x with
      | VStr sx => match y with
                   | VStr sy => match str_cmp sx sy with Eq => row_cmp_rep flag ra' rb' | c => Some (decode flag c) end
                   | _ => None end
      | VNum fx => match y with
                   | VNum fy => match fl_cmp fx fy with Eq => row_cmp_rep flag ra' rb' | c => Some (decode flag c) end
                   | _ => None end
      | _ => row_cmp_rep flag ra' rb'
      end
    end
  end.

(* the comparator handed to std::sort; None = undefined behaviour inside the comparator *)
Definition sort_cmp (df : defects) (flag : bool) (a b : val) : option bool :=
  match a with
  | VArr ra =>
    match b with
    | VArr rb =>
      if df_sort_cmp df
      then (* :779, :784 test a (the row) for STRING / SCALAR: never true, nothing is compared; :790 return !sort_flag *)
           if (List.length ra <=? List.length rb)%nat then Some (negb flag) else None
      else row_cmp_rep flag ra rb
    | _ => None
    end
  | VStr sa => match b with VStr sb => Some (decode flag (str_cmp sa sb)) | _ => None end     (* :792-796 *)
  | VNum fa => match b with VNum fb => Some (num_cmp_bool df flag fa fb) | _ => None end      (* :798-802 *)
  | _ => Some (if df_sort_cmp df then negb flag else false)                                    (* :804 *)
  end.

(* [alg.sorting]: comp must induce a strict weak ordering on the values: irreflexive, transitive, and with
   transitive incomparability.  Decided on the elements of the array. *)
Definition cmp_true (c : val -> val -> option bool) (a b : val) : bool :=
  match c a b with Some true => true | _ => false end.
Definition cmp_def (c : val -> val -> option bool) (a b : val) : bool :=
  match c a b with Some _ => true | None => false end.
Definition swo_check (c : val -> val -> option bool) (l : list val) : bool :=
  forallb (fun a => forallb (fun b => cmp_def c a b) l) l &&
  forallb (fun a => negb (cmp_true c a a)) l &&
  forallb (fun a => forallb (fun b => forallb (fun x =>
     implb (cmp_true c a b && cmp_true c b x) (cmp_true c a x) &&
     implb (negb (cmp_true c a b) && negb (cmp_true c b a) && negb (cmp_true c b x) && negb (cmp_true c x b))
           (negb (cmp_true c a x) && negb (cmp_true c x a))) l) l) l.

Definition is_sortable (t : ty) : bool := match t with TString | TScalar | TArray => true | _ => false end.

(* :760-764 every row against the types of the first row; stops at the first row that fails *)
Fixpoint rows_check (rows : list val) (tys : list ty) : option (list dg * bool) :=
  match rows with
  | [] => Some ([], true)
  | VArr r :: rest =>
    match check_typeN r tys (zlen tys) (zlen tys) with
    | None => None
    | Some (ds, false) => Some (ds, false)
    | Some (_, true) => rows_check rest tys
    end
  | _ :: _ => None                       (* elem.data<d_array>() of a non-array *)
  end.

Definition sort_model (df : defects) (elems : list val) (flag : bool) : outcome :=
  let n := zlen elems in
  if n <=? 1 then Ret [] RNil 0 else                                            (* :740 *)
  match elems with
  | [] => UB_INDEX
  | e0 :: _ =>
    let t := ty_of e0 in                                                        (* :744 *)
    if negb (is_sortable t) then Ret [ExpectedArrayTypeMissmatch] RNil 0 else   (* :745 *)
    match check_type1 elems t n n with                                          (* :751 *)
    | (ds, false) => Ret ds RNil 0
    | (_, true) =>
      let do_sort (al : Z) :=
        if swo_check (sort_cmp df flag) elems then Ret [] ROther al
        else UB "std::sort: the comparator is not a strict weak ordering on the elements" in
      match e0 with
      | VArr r0 =>
        let tys := map ty_of r0 in                                              (* :757-759 *)
        match rows_check elems tys with
        | None => UB "check_type: p_t[i] behind the end of the type vector"
        | Some (ds, false) => Ret ds RNil (zlen r0)
        | Some (_, true) => do_sort (zlen r0 + 2 * zlen r0)                     (* rows are copied per comparison *)
        end
      | _ => do_sort 0
      end
    end
  end.

(* ================================================================================================================ *)
(* param: ops_generic.cpp:1615-1734; input = the values param reads from (a non-array left operand is wrapped) *)
Definition found_ty (l : list val) (v : val) : bool := existsb (fun e => ty_eqb (ty_of e) (ty_of v)) l.

Definition param_model (df : defects) (input d : list val) : outcome :=
  let m := zlen d in
  let al := zlen input + m in                                                   (* :1630 the descriptors are copied *)
  match d with
  | [] => Ret [] RNil al                                                        (* :1634, :1733 *)
  | VNum f0 :: _ =>
    match cast_int df (ip_trunc f0) with                                        (* :1644 i = data<d_scalar, int>() *)
    | CUB => UB_CAST
    | CI z =>
      let i := z mod SIZE_MOD in                                                (* int -> size_t *)
      let d2 := nth_error d 2 in
      let d3 := nth_error d 3 in
      let bad2 := match d2 with Some v2 => negb (is_arr v2) | None => false end in
      if bad2 then Ret [ExpectedArrayTypeMissmatch] RNil al else                (* :1646 *)
      let bad3 := match d3 with Some v3 => negb (is_arr v3) && negb (is_num v3) | None => false end in
      if bad3 then Ret [ExpectedArrayTypeMissmatch] RNil al else                (* :1651 *)
      (* :1656-1673 the loop over the expected sizes *)
      let sub : option (option (list dg)) :=      (* None = undefined; Some None = passed; Some (Some ds) = refused *)
        match d3 with
        | None => Some None
        | Some v3 =>
          if (if df_param_cast df then negb (is_arr v3) else is_arr v3) then
            match v3 with
            | VArr l3 => let bad := filter (fun e => negb (is_num e)) l3 in
                         if nullb bad then Some None else Some (Some (map (fun _ => ExpectedSubArrayTypeMissmatch) bad))
            | _ => None                       (* :1658 data<d_array>() of a d_scalar: static_pointer_cast to the wrong class *)
            end
          else Some None
        end in
      match sub with
      | None => UB "static_pointer_cast<d_array> of a scalar, then size() and at() on it"
      | Some (Some ds) => Ret ds RNil al                                        (* :1669 *)
      | Some None =>
        if i <? zlen input then                                                 (* :1675 *)
          match nth_error input (Z.to_nat i) with
          | None => Throw "std::out_of_range (vector::at)"
          | Some cur =>
            let l2 := match d2 with Some (VArr l) => l | _ => [] end in
            if negb (nullb l2) && negb (found_ty l2 cur)                        (* :1678-1697 *)
            then Ret [ExpectedArrayTypeMissmatchWeak] RDefault (al + zlen l2)
            else if (4 <=? m) && is_arr cur && negb (found_ty l2 cur)           (* :1699-1724 *)
            then Ret [ExpectedArrayTypeMissmatchWeak] RDefault (al + zlen l2)
            else Ret [] (RElem i) al                                            (* :1726 *)
          end
        else Ret [] (if m =? 2 then RDefault else RNil) al                      (* :1730 *)
      end
    end
  | _ :: _ => Ret [ExpectedArrayTypeMissmatch] RNil al                          (* :1637 *)
  end.

(* params: ops_generic.cpp:1751-1869; one entry of the format array, element index i *)
Definition params_entry (elements : list val) (i : Z) (fel : val) : outcome :=
  let pd := match fel with VArr l => l | v => [v] end in                        (* :1759-1767 *)
  let np := zlen pd in
  match pd with
  | VStr _ :: _ =>
    let d2 := nth_error pd 2 in
    let d3 := nth_error pd 3 in
    let bad2 := match d2 with Some v2 => negb (is_arr v2) | None => false end in
    if bad2 then Ret [ExpectedSubArrayTypeMissmatch] ROther np else             (* :1781 *)
    let bad3 := match d3 with Some v3 => negb (is_arr v3) && negb (is_num v3) | None => false end in
    if bad3 then Ret [ExpectedSubArrayTypeMissmatch] ROther np else             (* :1786 *)
    let bad := match d3 with Some (VArr l3) => filter (fun e => negb (is_num e)) l3 | _ => [] end in
    if negb (nullb bad) then Ret (map (fun _ => ExpectedSubArrayTypeMissmatch) bad) ROther np else   (* :1791-1807 *)
    if i <? zlen elements then                                                  (* :1810 *)
      match nth_error elements (Z.to_nat i) with
      | None => Throw "std::out_of_range (vector::at)"
      | Some cur =>
        let l2 := match d2 with Some (VArr l) => l | _ => [] end in
        if negb (nullb l2) && negb (found_ty l2 cur) then                       (* :1813-1832 *)
          match nth_error pd 1 with
          | None => Throw "std::out_of_range (vector::at)"
          | Some dflt =>
            if (4 <=? np) && is_arr dflt && negb (found_ty l2 dflt)             (* :1834-1860 on the default *)
            then Ret [ExpectedArrayTypeMissmatchWeak; ExpectedArrayTypeMissmatchWeak] ROther (np + 2 * zlen l2)
            else Ret [ExpectedArrayTypeMissmatchWeak] ROther (np + zlen l2)
          end
        else if (4 <=? np) && is_arr cur && negb (found_ty l2 cur) then
          match nth_error pd 1 with
          | None => Throw "std::out_of_range (vector::at)"
          | Some _ => Ret [ExpectedArrayTypeMissmatchWeak] ROther (np + zlen l2)
          end
        else Ret [] ROther np                                                   (* :1861 *)
      end
    else Ret [] ROther np                                                       (* :1865 *)
  | _ => Ret [if is_arr fel then ExpectedArraySizeMissmatch else ExpectedArrayTypeMissmatch] ROther np   (* :1769-1779 *)
  end.

Fixpoint params_loop (elements : list val) (i : Z) (fmt : list val) (ds : list dg) (al : Z) : outcome :=
  match fmt with
  | [] => Ret ds RNil al
  | fel :: rest =>
    match params_entry elements i fel with
    | Ret ds1 _ al1 => params_loop elements (i + 1) rest (ds ++ ds1) (al + al1)
    | o => o
    end
  end.
Definition params_model (elements fmt : list val) : outcome := params_loop elements 0 fmt [] 0.

(* ================================================================================================================ *)
(* format: ops_string.cpp:85-137 *)

(* std::string::operator[] (non-const): pos == size() is the terminator, pos > size() is undefined *)
Definition str_at (s : list Z) (i : Z) : option Z :=
  if (0 <=? i) && (i <? zlen s) then nth_error s (Z.to_nat i)
  else if i =? zlen s then Some 0 else None.
Definition is_digit (c : Z) : bool := (48 <=? c) && (c <=? 57).

(* std::string::find(c, off): position of the first c at or behind off; None = npos *)
Fixpoint find_aux (l : list Z) (c : Z) (idx : Z) : option Z :=
  match l with [] => None | x :: l' => if x =? c then Some idx else find_aux l' c (idx + 1) end.
Definition find_from (s : list Z) (c : Z) (off : Z) : option Z :=
  if zlen s <=? off then None else find_aux (skipn (Z.to_nat off) s) c off.

(* :117 for (end = newoff; format[end] is a digit; ++end): the digits and their decimal value *)
Fixpoint digits_run (l : list Z) (cnt acc : Z) : Z * Z :=
  match l with
  | x :: l' => if is_digit x then digits_run l' (cnt + 1) (acc * 10 + (x - 48)) else (cnt, acc)
  | [] => (cnt, acc)
  end.
(* the repaired accumulation: saturates at INT_MAX *)
Fixpoint digits_sat (l : list Z) (acc : Z) : Z :=
  match l with
  | x :: l' => if is_digit x
               then digits_sat l' (if (INT_MAX - 9) / 10 <? acc then INT_MAX else acc * 10 + (x - 48))
               else acc
  | [] => acc
  end.

(* plens: length of the printed form of every element of the argument array (element 0 is the format string itself);
   tx: characters copied from the format string, np: placeholders substituted, al: bytes written so far *)
Fixpoint fmt_loop (fuel : nat) (df : defects) (s : list Z) (plens : list Z) (off : Z) (ds : list dg) (al : Z) : outcome :=
  match fuel with
  | O => OutOfFuel
  | S fuel' =>
    match find_from s 37 off with                                               (* :104 find('%', off) *)
    | None =>
      (* :135 format.size() >= off ? format.substr(off) : "" *)
      if off <=? zlen s then Ret ds ROther (al + (zlen s - off)) else Ret ds ROther al
    | Some p =>
      let al1 := al + (p - off) in                                              (* :106 substr(off, newoff - off) *)
      let newoff := p + 1 in                                                    (* :107 *)
      match str_at s newoff with                                                (* :109 format[newoff] *)
      | None => UB "string::operator[]: position behind the terminator"
      | Some c =>
        if negb (is_digit c) then
          fmt_loop fuel' df s plens (newoff + 1) (ds ++ [FormatInvalidPlaceholder]) al1      (* :111-112 *)
        else
          let rest := skipn (Z.to_nat newoff) s in
          let '(cnt, value) := digits_run rest 0 0 in
          let e := newoff + cnt in
          match str_at s e with                                                 (* the read that ends the loop of :117 *)
          | None => UB "string::operator[]: position behind the terminator"
          | Some _ =>
            let num := if df_stoi df then (if INT_MAX <? value then None else Some value)   (* :118 std::stoi *)
                       else Some (digits_sat rest 0) in
            match num with
            | None => Throw "std::out_of_range (stoi)"
            | Some nm =>
              if zlen plens <=? nm then
                fmt_loop fuel' df s plens e (ds ++ [IndexOutOfRangeWeak]) al1   (* :120 *)
              else
                match nth_error plens (Z.to_nat nm) with                        (* :124-130 r->at(num) *)
                | None => Throw "std::out_of_range (vector::at)"
                | Some pl => fmt_loop fuel' df s plens e ds (al1 + pl)
                end
            end
          end
      end
    end
  end.

Definition format_model (df : defects) (args : list val) (plens : list Z) : outcome :=
  match args with
  | [] => Ret [ExpectedArrayToHaveElementsWeak; ReturningEmptyString] ROther 0                (* :88 *)
  | VStr s :: _ => fmt_loop (S (S (List.length s))) df s plens 0 [] 0
  | _ :: _ => Ret [ExpectedArrayTypeMissmatchWeak; ReturningEmptyString] ROther 0             (* :94 *)
  end.

(* ================================================================================================================ *)
(* toArray / toString: ops_string.cpp:138-165 *)
Definition to_array (len : Z) : outcome := Ret [] ROther len.                  (* :141 vector(r.size()), :144 arr[i], i < size *)

Fixpoint to_string_loop (df : defects) (l : list val) (ds : list dg) (al : Z) : outcome :=
  match l with
  | [] => Ret ds ROther al
  | VNum f :: l' =>
    match cast_int df (ip_trunc f) with                                         (* :157 static_cast<char>(data<d_scalar, int>()) *)
    | CUB => UB_CAST
    | CI _ => to_string_loop df l' ds (al + 1)
    end
  | _ :: l' => to_string_loop df l' (ds ++ [ExpectedArrayTypeMissmatch]) al     (* :161 *)
  end.
Definition to_string (df : defects) (l : list val) : outcome := to_string_loop df l [] 0.

(* splitString: ops_string.cpp:215-258; i = index of the character c, ml = match_length *)
Fixpoint split_loop (l : list Z) (delims : list Z) (i ml : Z) (toks : list (Z * Z)) : outcome :=
  match l with
  | [] =>
    (* :253 l.substr(l.size() - match_length): i = l.size() here; substr throws when pos > size() *)
    if ml =? 0 then Ret [] (RTokens (rev toks)) (i + 2 * zlen toks)
    else if (0 <=? i - ml) && (i - ml <=? i) then Ret [] (RTokens (rev ((i - ml, ml) :: toks))) (i + 2 * (zlen toks + 1))
         else Throw "std::out_of_range (basic_string::substr)"
  | c :: l' =>
    if existsb (Z.eqb c) delims then                                            (* :235-246 *)
      if 0 <? ml then
        (* :241 l.substr(i - match_length, match_length): size_t subtraction *)
        if (0 <=? i - ml) && (i - ml <=? i + 1 + zlen l')
        then split_loop l' delims (i + 1) 0 ((i - ml, ml) :: toks)
        else Throw "std::out_of_range (basic_string::substr)"
      else split_loop l' delims (i + 1) 0 toks
    else split_loop l' delims (i + 1) (ml + 1) toks                             (* :248-251 *)
  end.
Definition split_string (l delims : list Z) : outcome :=
  match delims with
  | [] => Ret [] (RTokens (map (fun k => (Z.of_nat k, 1)) (seq 0 (List.length l)))) (2 * zlen l)   (* :220-227 *)
  | _ => split_loop l delims 0 0 []
  end.

(* ================================================================================================================ *)
(* selectMax / selectMin: ops_generic.cpp:1364-1427: for (size_t i = size() - 1; i != ~(size_t)0; i--) r->at(i) *)
Fixpoint minmax_loop (fuel : nat) (elems : list val) (i : Z) (ds : list dg) : outcome :=
  match fuel with
  | O => OutOfFuel
  | S fuel' =>
    if i =? SIZE_MOD - 1 then Ret ds ROther 0                                   (* i != ~(size_t)0 *)
    else
      match (if vec_ok (zlen elems) i then nth_error elems (Z.to_nat i) else None) with   (* :1370 r->at(i) *)
      | None => Throw "std::out_of_range (vector::at)"
      | Some v =>
        let ds' := match v with VNum _ | VBool _ => ds | _ => ds ++ [ExpectedArrayTypeMissmatchWeak] end in
        minmax_loop fuel' elems ((i - 1) mod SIZE_MOD) ds'                      (* i-- on size_t *)
      end
  end.
Definition select_minmax (elems : list val) : outcome :=
  minmax_loop (S (List.length elems)) elems ((zlen elems - 1) mod SIZE_MOD) [].      (* size() - 1 on size_t *)

(* selectRandom: ops_generic.cpp:1889-1893; r = what rand() returns (0 <= r) *)
Definition select_random (df : defects) (n r : Z) : outcome :=
  if n =? 0 then
    if df_rand0 df then UB "integer division by zero: rand() % size()"
    else Ret [ExpectedArrayToHaveElementsWeak; ReturningNil] RNil 0
  else let i := r mod n in
       if vec_ok n i then Ret [] (RElem i) 0 else Throw "std::out_of_range (vector::at)".

(* toFixed: ops_math.cpp:422-447; the result is the number of decimals handed to setprecision / s_decimals *)
Definition to_fixed_unary (df : defects) (f : fl) : outcome :=
  match cast_int df (ip_trunc f) with                                           (* :424 *)
  | CUB => UB_CAST
  | CI i => Ret [] (RNum (if 20 <? i then 20 else if i <? 0 then -1 else i)) 0
  end.
Definition to_fixed_binary (df : defects) (f : fl) : outcome :=
  match cast_int df (ip_trunc f) with                                           (* :437 *)
  | CUB => UB_CAST
  | CI i => let d := if 20 <? i then 20 else if i <=? 0 then 0 else i in
            Ret [] (RNum d) (64 + d)              (* "%.*f" of a float: at most 39 digits, sign, point, d decimals *)
  end.

(* ================================================================================================================ *)
(* config iterator: runtime/confighost.h:134-197 (iterator_base<false>), used by ops_config.cpp:241-312 (configClasses)
   and 314-395 (configProperties).  children = m_children_vec of the class: container ids, -1 standing for
   config::invalid_id (the slot of a deleted entry).  ncont = m_containers.size(). *)
Definition INVALID : Z := -1.

(* operator* / nav(): m_containers[container[m_index]] *)
Definition cfg_deref (children : list Z) (ncont idx : Z) : option Z :=
  if vec_ok (zlen children) idx then
    match nth_error children (Z.to_nat idx) with
    | Some id => if vec_ok ncont id then Some id else None
    | None => None
    end
  else None.

(* as is: operator++ :157-181: (container.size() - 1) > m_index on size_t;  Some idx = still inside, None = end() *)
Definition cfg_next_asis (children : list Z) (idx : Z) : option Z :=
  if idx <? (zlen children - 1) mod SIZE_MOD then Some (idx + 1) else None.
(* repaired: settle(): skip the slots of deleted entries; end() behind the last entry *)
Fixpoint cfg_settle (l : list Z) (idx : Z) : option Z :=
  match l with
  | [] => None
  | id :: l' => if id =? INVALID then cfg_settle l' (idx + 1) else Some idx
  end.
Definition cfg_settle_at (children : list Z) (idx : Z) : option Z := cfg_settle (skipn (Z.to_nat idx) children) idx.

Fixpoint cfg_walk (fuel : nat) (df : defects) (children : list Z) (ncont : Z) (cur : option Z) (acc : list Z) : outcome :=
  match fuel with
  | O => OutOfFuel
  | S fuel' =>
    match cur with
    | None => Ret [] (RWalk (rev acc)) (zlen acc)
    | Some idx =>
      match cfg_deref children ncont idx with                                   (* _x = *it, it.nav() *)
      | None => UB "m_containers[id] / container[m_index]: index out of range"
      | Some id =>
        let nxt := if df_cfg_iter df then cfg_next_asis children idx else cfg_settle_at children (idx + 1) in
        cfg_walk fuel' df children ncont nxt (id :: acc)
      end
    end
  end.
(* the operator: :295 / :373 `if (nav->size() == 0) return []` as is, `if (nav.begin() == nav.end())` repaired *)
Definition cfg_iterate (df : defects) (children : list Z) (ncont : Z) : outcome :=
  if df_cfg_iter df then
    if zlen children =? 0 then Ret [] (RWalk []) 0
    else cfg_walk (S (List.length children)) df children ncont (Some 0) []
  else cfg_walk (S (List.length children)) df children ncont (cfg_settle_at children 0) [].

(* ================================================================================================================ *)
(* fromAssembly__: ops_sqfvm.cpp:45-151 *)

(* :62-75 split "NAME ARG" at the first space; None = the instruction is refused (InvalidAssemblyInstruction) *)
Definition asm_split (full : list Z) : option (list Z * list Z) :=
  let len := zlen full in
  match find_from full 32 0 with
  | None => (* npos + 1 wraps to 0: the test :63 never fires *) Some (full, [])
  | Some p => if len <? p + 1 then None
              else Some (firstn (Z.to_nat p) full, skipn (Z.to_nat (p + 1)) full)
  end.

(* runtime/d_string.h:73-92  d_string::from_sqf on a string_view of the bytes v: the number of bytes produced *)
Definition sv_at (v : list Z) (i : Z) : option Z :=          (* string_view::operator[]: pos < size() required *)
  if vec_ok (zlen v) i then nth_error v (Z.to_nat i) else None.
Fixpoint from_sqf_loop (fuel : nat) (v : list Z) (start i out : Z) : outcome :=
  match fuel with
  | O => OutOfFuel
  | S fuel' =>
    if i <? zlen v - 1 then                                                     (* :82 i < length() - 1 *)
      match sv_at v i with
      | None => UB "string_view::operator[]: position out of range"
      | Some c =>
        if c =? start then
          match sv_at v (i + 1) with                                            (* :85 sview[i + 1] *)
          | None => UB "string_view::operator[]: position out of range"
          | Some c2 => from_sqf_loop fuel' v start (if c2 =? start then i + 2 else i + 1) (out + 1)
          end
        else from_sqf_loop fuel' v start (i + 1) (out + 1)
      end
    else Ret [] ROther (zlen v + out)                                           (* :81 reserve(size), :91 *)
  end.
Definition from_sqf (df : defects) (v : list Z) : outcome :=
  if df_asm df then
    match sv_at v 0 with                                                        (* :75 sview[0] before the length test *)
    | None => UB "string_view::operator[]: position out of range"
    | Some start =>
      if zlen v =? 0 then Ret [] ROther 0
      else if negb (start =? 34) && negb (start =? 39) then Ret [] ROther 0
      else if zlen v =? 2 then Ret [] ROther 0
      else from_sqf_loop (List.length v) v start 1 0
    end
  else
    if zlen v =? 0 then Ret [] ROther 0
    else match sv_at v 0 with
         | None => UB "string_view::operator[]: position out of range"
         | Some start =>
           if negb (start =? 34) && negb (start =? 39) then Ret [] ROther 0
           else if zlen v =? 2 then Ret [] ROther 0
           else from_sqf_loop (List.length v) v start 1 0
         end.

(* :123-127 makeArray N.  As is: std::stof(arg) then (size_t)len; what stof does with the text is the C library's
   business and an input of the model: SInvalid = no conversion (std::invalid_argument), SRange = out of the range of
   float (std::out_of_range), SVal f = the float.  Repaired: decimal digits only, at most code.size() *)
Inductive stof_res := SInvalid | SRange | SVal (f : fl).
Fixpoint digits_only (l : list Z) (acc bound : Z) : option Z :=
  match l with
  | [] => Some acc
  | c :: l' => if negb (is_digit c) || (bound <? acc) then None else digits_only l' (acc * 10 + (c - 48)) bound
  end.
Definition asm_make_array (df : defects) (arg : list Z) (sf : stof_res) (codesize : Z) : outcome :=
  if df_asm df then
    match sf with
    | SInvalid => Throw "std::invalid_argument (stof)"
    | SRange => Throw "std::out_of_range (stof)"
    | SVal f =>
      match ip_trunc f with
      | IP z => if (0 <=? z) && (z <? SIZE_MOD) then Ret [] (RNum z) 0
                else UB "float-cast-overflow: the value is not representable in size_t"
      | _ => UB "float-cast-overflow: the value is not representable in size_t"
      end
    end
  else
    match arg with
    | [] => Ret [InvalidAssemblyInstruction] RNil 0
    | _ => match digits_only arg 0 codesize with
           | Some n => if codesize <? n then Ret [InvalidAssemblyInstruction] RNil 0 else Ret [] (RNum n) 0
           | None => Ret [InvalidAssemblyInstruction] RNil 0
           end
    end.

(* :89-101 callBinary NAME: sqfop_exists_binary folds the name to lower case, sqfop_binary_by_name(...).at does not;
   registered = the names that have binary operators (always lower case), lower = the fold *)
Definition asm_call_binary (df : defects) (registered : list Z -> bool) (lower : list Z -> list Z) (name : list Z) : outcome :=
  let key := if df_asm df then name else lower name in
  if negb (registered (lower key)) then Ret [InvalidAssemblyInstruction] RNil 0               (* :92 *)
  else if registered key then Ret [] ROther 0                                                  (* :99 by_name(str) *)
       else Throw "std::out_of_range (unordered_map::at)".

(* one instruction text, :62-147: split, fold the name, decode the argument.  push (:128-147) hands its argument to the
   SQF parser, which is outside this model: ROther *)
Fixpoint bytes_eqb (a b : list Z) : bool :=
  match a, b with [] , [] => true | x :: a', y :: b' => (x =? y) && bytes_eqb a' b' | _, _ => false end.
Definition asm_instr (df : defects) (registered : list Z -> bool) (lower : list Z -> list Z)
                     (full : list Z) (sf : stof_res) (codesize : Z) : outcome :=
  match asm_split full with
  | None => Ret [InvalidAssemblyInstruction] RNil 0                             (* :63-69 *)
  | Some (name, arg) =>
    let nm := lower name in
    let is (k : list Z) := bytes_eqb nm k in
    if is [97;115;115;105;103;110;116;111] then from_sqf df arg                                  (* assignto *)
    else if is [97;115;115;105;103;110;116;111;108;111;99;97;108] then from_sqf df arg           (* assigntolocal *)
    else if is [99;97;108;108;98;105;110;97;114;121] then asm_call_binary df registered lower arg (* callbinary *)
    else if is [99;97;108;108;110;117;108;97;114] then Ret [] ROther 0                           (* callnular *)
    else if is [99;97;108;108;117;110;97;114;121] then Ret [] ROther 0                           (* callunary *)
    else if is [101;110;100;115;116;97;116;101;109;101;110;116] then Ret [] ROther 0             (* endstatement *)
    else if is [103;101;116;118;97;114;105;97;98;108;101] then from_sqf df arg                   (* getvariable *)
    else if is [109;97;107;101;97;114;114;97;121] then asm_make_array df arg sf codesize         (* makearray *)
    else if is [112;117;115;104] then Ret [] ROther 0                                            (* push *)
    else Ret [InvalidAssemblyInstruction] RNil 0                                                 (* :148 *)
  end.
(* the loop :50-149 over the array: the first refused element ends it; codesize = instructions decoded so far *)
Fixpoint asm_loop (df : defects) (registered : list Z -> bool) (lower : list Z -> list Z)
                  (l : list val) (sf : stof_res) (codesize : Z) : outcome :=
  match l with
  | [] => Ret [] ROther codesize
  | VStr full :: rest =>
    match asm_instr df registered lower full sf codesize with
    | Ret [] _ _ => asm_loop df registered lower rest sf (codesize + 1)
    | o => o
    end
  | _ :: _ => Ret [ExpectedArrayTypeMissmatch] RNil 0                           (* :52 *)
  end.
Definition from_assembly (df : defects) (registered : list Z -> bool) (lower : list Z -> list Z)
                         (l : list val) (sf : stof_res) : outcome := asm_loop df registered lower l sf 0.

(* ================================================================================================================ *)
(* get_bom_skip: runtime/fileio.cpp:11-76; the result is the number of bytes skipped.
   rd i = ubuff[i]: a raw pointer read, undefined behind the buffer.  Each `else if` chain of && is evaluated left to
   right and stops at the first false operand. *)
Inductive bomr := BSkip (k : Z) | BUB.

(* a conjunction of byte tests (index, accepted bytes), in order: Some true / Some false / None = a read behind the buffer *)
Fixpoint bom_conj (df : defects) (b : list Z) (tests : list (Z * list Z)) : option bool :=
  match tests with
  | [] => Some true
  | (i, allowed) :: rest =>
    if vec_ok (zlen b) i then
      match nth_error b (Z.to_nat i) with
      | Some x => if existsb (Z.eqb x) allowed then bom_conj df b rest else Some false
      | None => None
      end
    else if df_bom df then None          (* ubuff[i] behind the end *)
    else Some false                      (* repaired: at(i) = -1, equal to no byte *)
  end.
(* the else-if chain: (tests, bytes to skip, optional test on a fourth byte that makes it skip + 1) *)
Fixpoint bom_chain (df : defects) (b : list Z) (cs : list (list (Z * list Z) * Z * option (Z * list Z))) : bomr :=
  match cs with
  | [] => BSkip 0
  | (tests, k, extra) :: rest =>
    match bom_conj df b tests with
    | None => BUB
    | Some false => bom_chain df b rest
    | Some true =>
      match extra with
      | None => BSkip k
      | Some t => match bom_conj df b [t] with None => BUB | Some true => BSkip (k + 1) | Some false => BSkip k end
      end
    end
  end.
Definition bom_table : list (list (Z * list Z) * Z * option (Z * list Z)) :=
  [ ([(0,[239]); (1,[187]); (2,[191])], 3, None);                      (* UTF-8 *)
    ([(0,[254]); (1,[255])], 2, None);                                 (* UTF-16 (BE) *)
    ([(0,[254]); (1,[254])], 2, None);                                 (* UTF-16 (LE), as the source has it *)
    ([(0,[0]); (1,[0]); (2,[255]); (3,[255])], 2, None);               (* UTF-32 (BE) *)
    ([(0,[255]); (1,[255]); (2,[0]); (3,[0])], 2, None);               (* UTF-32 (LE) *)
    ([(0,[43]); (1,[47]); (2,[118]); (3,[56;57;43;47])], 4, None);     (* UTF-7 *)
    ([(0,[247]); (1,[100]); (2,[76])], 3, None);                       (* UTF-1 *)
    ([(0,[221]); (1,[115]); (2,[102]); (3,[115])], 3, None);           (* UTF-EBCDIC *)
    ([(0,[14]); (1,[254]); (2,[255])], 3, None);                       (* SCSU *)
    ([(0,[251]); (1,[238]); (2,[40])], 3, Some (3,[255]));             (* BOCU-1 *)
    ([(0,[132]); (1,[49]); (2,[149]); (3,[51])], 3, None) ].           (* GB 18030 *)
Definition bom_model (df : defects) (b : list Z) : bomr :=
  if zlen b =? 0 then BSkip 0 else bom_chain df b bom_table.
