(* C09 (b) - the comparator of `sort`: three-way comparisons that are total preorders, their lexicographic lift, and
   the strict weak ordering std::sort needs, derived for every array that passes sort's type checks. *)
From Coq Require Import ZArith List Bool Lia.
From SqfVerif Require Import Ops.OpsBase Ops.Guards.
Import ListNotations.
Local Open Scope Z_scope.

(* a three-way comparison that orders its carrier as a total preorder *)
Record good_cmp {A : Type} (c : A -> A -> comparison) : Prop := {
  gc_refl : forall a, c a a = Eq;
  gc_anti : forall a b, c b a = CompOpp (c a b);
  gc_trans : forall a b d, c a b = Lt -> c b d = Lt -> c a d = Lt;
  gc_eq_l : forall a b d, c a b = Eq -> c a d = c b d
}.

Lemma gc_eq_r {A} (c : A -> A -> comparison) (G : good_cmp c) a b d : c a b = Eq -> c d a = c d b.
Proof. intro H. rewrite (gc_anti c G a d), (gc_anti c G b d). f_equal. apply (gc_eq_l c G); auto. Qed.

Lemma gc_gt_lt {A} (c : A -> A -> comparison) (G : good_cmp c) a b : c a b = Gt <-> c b a = Lt.
Proof. rewrite (gc_anti c G a b). destruct (c a b); cbn; split; congruence. Qed.

Lemma good_Z : good_cmp Z.compare.
Proof.
  constructor.
  - apply Z.compare_refl.
  - intros a b. apply Z.compare_antisym.
  - intros a b d H1 H2. change (a < b) in H1. change (b < d) in H2. change (a < d). lia.
  - intros a b d H. apply Z.compare_eq_iff in H. subst. reflexivity.
Qed.

Section Lex.
  Context {A : Type} (c : A -> A -> comparison) (G : good_cmp c).

  Lemma lexc_refl : forall a, lexc c a a = Eq.
  Proof. induction a as [|x a IH]; cbn; auto. rewrite (gc_refl c G). auto. Qed.

  Lemma lexc_anti : forall a b, lexc c b a = CompOpp (lexc c a b).
  Proof.
    induction a as [|x a IH]; destruct b as [|y b]; cbn; auto.
    rewrite (gc_anti c G x y). destruct (c x y); cbn; auto.
  Qed.

  Lemma lexc_eq_l : forall a b d, lexc c a b = Eq -> lexc c a d = lexc c b d.
  Proof.
    induction a as [|x a IH]; destruct b as [|y b]; cbn; intros d H; try discriminate; auto.
    destruct (c x y) eqn:E; try discriminate.
    destruct d as [|z d]; cbn; auto.
    rewrite (gc_eq_l c G x y z E). destruct (c y z); auto.
  Qed.

  Lemma lexc_trans : forall a b d, lexc c a b = Lt -> lexc c b d = Lt -> lexc c a d = Lt.
  Proof.
    induction a as [|x a IH]; destruct b as [|y b]; destruct d as [|z d]; cbn; intros H1 H2; try discriminate; auto.
    destruct (c x y) eqn:E1; try discriminate.
    - rewrite (gc_eq_l c G x y z E1). destruct (c y z) eqn:E2; try discriminate; auto. eapply IH; eauto.
    - destruct (c y z) eqn:E2; try discriminate.
      + rewrite <- (gc_eq_r c G y z x E2). rewrite E1. auto.
      + rewrite (gc_trans c G x y z E1 E2). auto.
  Qed.

  Lemma good_lexc : good_cmp (lexc c).
  Proof. constructor; [apply lexc_refl | apply lexc_anti | apply lexc_trans | apply lexc_eq_l]. Qed.
End Lex.

(* ---------------------------------------------------------------------------------------------------------------- *)
(* scalars under less_scalar *)
Lemma good_fl : good_cmp fl_cmp.
Proof.
  constructor.
  - intros [| | |x]; cbn; auto. apply Z.compare_refl.
  - intros [| | |x] [| | |y]; cbn; auto. apply Z.compare_antisym.
  - intros [| | |x] [| | |y] [| | |z]; cbn; intros H1 H2; try discriminate; auto.
    change (x < y) in H1. change (y < z) in H2. change (x < z). lia.
  - intros [| | |x] [| | |y] [| | |z]; cbn; intros H; try discriminate; auto.
    apply Z.compare_eq_iff in H. subst. reflexivity.
Qed.

Lemma fl_less_lt a b : fl_less a b = true <-> fl_cmp a b = Lt.
Proof. unfold fl_less. destruct (fl_cmp a b); split; congruence. Qed.

(* sort keys of the elements of a row: strings and scalars count, everything else is skipped by the comparator *)
Inductive key := KNum (f : fl) | KStr (s : list Z) | KIgn.
Definition key_of (v : val) : key := match v with VNum f => KNum f | VStr s => KStr s | _ => KIgn end.
Definition key_rank (k : key) : Z := match k with KNum _ => 0 | KStr _ => 1 | KIgn => 2 end.
Definition kcmp (a b : key) : comparison :=
  match a, b with
  | KNum x, KNum y => fl_cmp x y
  | KStr x, KStr y => str_cmp x y
  | _, _ => key_rank a ?= key_rank b
  end.

Lemma good_str : good_cmp str_cmp.
Proof. apply good_lexc. apply good_Z. Qed.

Lemma good_key : good_cmp kcmp.
Proof.
  pose proof good_fl as GF. pose proof good_str as GS.
  constructor.
  - intros [x|x|]; cbn; auto; [apply (gc_refl _ GF) | apply (gc_refl _ GS)].
  - intros [x|x|] [y|y|]; cbn; auto; [apply (gc_anti _ GF) | apply (gc_anti _ GS)].
  - intros [x|x|] [y|y|] [z|z|]; cbn; intros H1 H2; try discriminate; auto;
      [eapply (gc_trans _ GF); eauto | eapply (gc_trans _ GS); eauto].
  - intros [x|x|] [y|y|] [z|z|]; cbn; intros H; try discriminate; auto;
      [apply (gc_eq_l _ GF); auto | apply (gc_eq_l _ GS); auto].
Qed.

Definition row_keys (v : val) : list key := match v with VArr r => map key_of r | _ => [] end.

(* ---------------------------------------------------------------------------------------------------------------- *)
(* a comparator that decodes a good three-way comparison of keys is a strict weak ordering *)
Section FromKey.
  Context {K : Type} (cK : K -> K -> comparison) (G : good_cmp cK) (k : val -> K) (flag : bool).
  Variable f : val -> val -> option bool.
  Variable l : list val.
  Hypothesis Hf : forall a b, In a l -> In b l -> f a b = Some (decode flag (cK (k a) (k b))).

  Lemma ct_decode a b : In a l -> In b l -> cmp_true f a b = decode flag (cK (k a) (k b)).
  Proof. intros Ha Hb. unfold cmp_true. rewrite (Hf a b Ha Hb). destruct (decode flag (cK (k a) (k b))); auto. Qed.

  Lemma decode_true x : decode flag x = true <-> (if flag then x = Lt else x = Gt).
  Proof. destruct flag, x; cbn; split; congruence. Qed.

  Lemma swo_from_key : swo_check f l = true.
  Proof.
    unfold swo_check. rewrite !andb_true_iff. repeat split.
    - apply forallb_forall. intros a Ha. apply forallb_forall. intros b Hb. unfold cmp_def. rewrite (Hf a b Ha Hb). auto.
    - apply forallb_forall. intros a Ha. rewrite (ct_decode a a Ha Ha). rewrite (gc_refl _ G). cbn. auto.
    - apply forallb_forall. intros a Ha. apply forallb_forall. intros b Hb. apply forallb_forall. intros x Hx.
      rewrite (ct_decode a b Ha Hb), (ct_decode b x Hb Hx), (ct_decode a x Ha Hx), (ct_decode b a Hb Ha),
              (ct_decode x b Hx Hb), (ct_decode x a Hx Ha).
      pose proof (gc_anti _ G (k a) (k b)) as Aab. pose proof (gc_anti _ G (k b) (k x)) as Abx.
      pose proof (gc_anti _ G (k a) (k x)) as Aax.
      pose proof (gc_trans _ G (k a) (k b) (k x)) as T1. pose proof (gc_trans _ G (k x) (k b) (k a)) as T2.
      pose proof (gc_eq_l _ G (k a) (k b) (k x)) as E1.
      destruct (cK (k a) (k b)) eqn:Cab; destruct (cK (k b) (k x)) eqn:Cbx; cbn in Aab, Abx;
        rewrite ?Aab, ?Abx;
        try (specialize (E1 eq_refl); rewrite E1 in *; rewrite ?Aax; destruct flag; cbn; reflexivity);
        try (specialize (T1 eq_refl eq_refl); rewrite T1 in *; rewrite ?Aax; destruct flag; cbn; reflexivity).
      + (* a < b, b = x *)
        assert (cK (k a) (k x) = Lt) as C by (rewrite <- (gc_eq_r _ G (k b) (k x) (k a) Cbx); auto).
        rewrite Aax, C. destruct flag; cbn; reflexivity.
      + (* a < b, b > x *) destruct (cK (k a) (k x)) eqn:Cax; rewrite Aax; destruct flag; cbn; reflexivity.
      + (* a > b, b = x *)
        assert (cK (k a) (k x) = Gt) as C by (rewrite <- (gc_eq_r _ G (k b) (k x) (k a) Cbx); auto).
        rewrite Aax, C. destruct flag; cbn; reflexivity.
      + (* a > b, b < x *) destruct (cK (k a) (k x)) eqn:Cax; rewrite Aax; destruct flag; cbn; reflexivity.
      + (* a > b, b > x: x < b < a *)
        assert (cK (k x) (k b) = Lt) as C1 by (rewrite Abx; reflexivity).
        assert (cK (k b) (k a) = Lt) as C2 by (rewrite Aab; reflexivity).
        specialize (T2 C1 C2). rewrite T2. rewrite (gc_anti _ G (k x) (k a)), T2. destruct flag; cbn; reflexivity.
  Qed.
End FromKey.

(* ---------------------------------------------------------------------------------------------------------------- *)
(* the repaired row comparator is the lexicographic comparison of the keys, on rows of the same types *)
Lemma ty_eqb_eq a b : ty_eqb a b = true <-> a = b.
Proof.
  destruct a, b; cbn; split; intro H; try discriminate; try reflexivity; try congruence.
  - apply Z.eqb_eq in H. subst. reflexivity.
  - inversion H. apply Z.eqb_refl.
Qed.

Lemma row_cmp_lex flag : forall ra rb, map ty_of ra = map ty_of rb ->
  row_cmp_rep flag ra rb = Some (decode flag (lexc kcmp (map key_of ra) (map key_of rb))).
Proof.
  induction ra as [|x ra IH]; destruct rb as [|y rb]; cbn; intro H; try discriminate; auto.
  inversion H as [[H1 H2]].
  destruct x, y; cbn in H1; try discriminate; cbn.
  - destruct (fl_cmp f f0); auto.
  - unfold str_cmp. destruct (lexc Z.compare s s0); auto.
  - auto.
  - auto.
  - auto.
Qed.

(* check_typeN that passes means: the row has exactly the types of the vector *)
Lemma check_typeN_loop_true : forall r tys ds, check_typeN_loop r tys = Some (ds, true) -> map ty_of r = firstn (List.length r) tys.
Proof.
  induction r as [|v r IH]; cbn; intros tys ds H; auto.
  destruct tys as [|t ts]; try discriminate.
  destruct (check_typeN_loop r ts) as [[ds' ok]|] eqn:E; try discriminate.
  destruct (ty_eqb (ty_of v) t) eqn:Et; inversion H; subst.
  apply ty_eqb_eq in Et. cbn. f_equal; auto. eapply IH; eauto.
Qed.

Lemma check_typeN_true r tys ds : check_typeN r tys (zlen tys) (zlen tys) = Some (ds, true) -> map ty_of r = tys.
Proof.
  unfold check_typeN. destruct ((zlen r <? zlen tys) || (zlen tys <? zlen r)) eqn:E; [intro H; inversion H|].
  intro H. apply orb_false_iff in E. destruct E as [E1 E2]. apply Z.ltb_ge in E1. apply Z.ltb_ge in E2.
  unfold zlen in *. assert (List.length r = List.length tys) as L by lia.
  apply check_typeN_loop_true in H. rewrite H, L. apply firstn_all.
Qed.

Lemma rows_check_true tys : forall rows ds, rows_check rows tys = Some (ds, true) ->
  forall v, In v rows -> exists r, v = VArr r /\ map ty_of r = tys.
Proof.
  induction rows as [|x rows IH]; cbn; intros ds H v Hv; [contradiction|].
  destruct x as [| | |r|]; try discriminate.
  destruct (check_typeN r tys (zlen tys) (zlen tys)) as [[ds1 [|]]|] eqn:E; try discriminate.
  destruct Hv as [Hv | Hv].
  - subst. exists r. split; auto. eapply check_typeN_true; eauto.
  - eapply IH; eauto.
Qed.

Lemma check_type1_true elems t mn mx ds : check_type1 elems t mn mx = (ds, true) -> forall v, In v elems -> ty_of v = t.
Proof.
  unfold check_type1. destruct ((zlen elems <? mn) || (mx <? zlen elems)); [intro H; inversion H|].
  intro H. inversion H as [[H1 H2]]. intros v Hv.
  destruct (ty_eqb (ty_of v) t) eqn:E; [apply ty_eqb_eq; auto|].
  assert (In v (filter (fun v0 => negb (ty_eqb (ty_of v0) t)) elems)) as Hin by (apply filter_In; split; auto; rewrite E; auto).
  destruct (filter (fun v0 => negb (ty_eqb (ty_of v0) t)) elems); [contradiction | discriminate].
Qed.

(* the three homogeneous cases *)
Lemma swo_strings flag l : (forall v, In v l -> ty_of v = TString) -> swo_check (sort_cmp repaired flag) l = true.
Proof.
  intro H.
  apply (swo_from_key str_cmp good_str (fun v => match v with VStr s => s | _ => [] end) flag).
  intros a b Ha Hb. pose proof (H a Ha) as Ta. pose proof (H b Hb) as Tb.
  destruct a; cbn in Ta; try discriminate. destruct b; cbn in Tb; try discriminate. reflexivity.
Qed.

Lemma swo_scalars flag l : (forall v, In v l -> ty_of v = TScalar) -> swo_check (sort_cmp repaired flag) l = true.
Proof.
  intro H.
  apply (swo_from_key fl_cmp good_fl (fun v => match v with VNum f => f | _ => FNan end) flag).
  intros a b Ha Hb. pose proof (H a Ha) as Ta. pose proof (H b Hb) as Tb.
  destruct a as [x| | | |]; cbn in Ta; try discriminate. destruct b as [y| | | |]; cbn in Tb; try discriminate.
  cbn. unfold num_cmp_bool. cbn. f_equal.
  pose proof (gc_anti _ good_fl x y) as A. unfold fl_less. rewrite A.
  destruct (fl_cmp x y); destruct flag; reflexivity.
Qed.

Lemma swo_rows flag l tys : (forall v, In v l -> exists r, v = VArr r /\ map ty_of r = tys) ->
  swo_check (sort_cmp repaired flag) l = true.
Proof.
  intro H.
  apply (swo_from_key (lexc kcmp) (good_lexc kcmp good_key) row_keys flag).
  intros a b Ha Hb. destruct (H a Ha) as [ra [-> Ta]]. destruct (H b Hb) as [rb [-> Tb]].
  cbn. apply row_cmp_lex. congruence.
Qed.
