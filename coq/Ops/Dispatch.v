(* C09 (a) - operator dispatch of call_nular / call_unary / call_binary over the registry of the built runtime.

   Mirrors (file:line of /repo/src):
     opcodes/call_binary.h:23-96   right operand popped first; nil right -> NilValueFoundForRightArgumentWeak, nil left ->
                                   NilValueFoundForRightArgumentWeak (sic) - both return before any lookup;
                                   key {name, tleft, tright}; then {name, ANY, tright}; then {name, tleft, ANY};
                                   then {name, ANY, ANY}; else UnknownInputTypeCombinationBinary
     opcodes/call_unary.h:22-58    nil operand rejected; key {name, tright}; then {name, ANY}; else UnknownInputTypeCombinationUnary
     opcodes/call_nular.h:27-37    key {name}; else UnknownInputTypeCombinationNular
     runtime/runtime.h:178-223     sqfop_exists = find in an unordered_map keyed by (name, types); register_sqfop inserts once per key
   The registry tables are generated (Gen/RegistryFull.v, translators/registry_full.py).
   Definitions and proofs of this part are in one file: the definitions are a dozen lines. *)
From Coq Require Import String List Bool Lia.
From SqfVerif Require Import Gen.RegistryFull.
Import ListNotations.
Local Open Scope string_scope.

Definition ANY : string := "ANY".

(* the dynamic type of an operand; Nil = a value without data (type NOTHING), which the dispatcher rejects *)
Inductive operand := Nil | Val (t : string).

Definition ukey := (string * string)%type.
Definition bkey := (string * (string * string))%type.

Definition ukey_eqb (a b : ukey) : bool := String.eqb (fst a) (fst b) && String.eqb (snd a) (snd b).
Definition bkey_eqb (a b : bkey) : bool :=
  String.eqb (fst a) (fst b) && String.eqb (fst (snd a)) (fst (snd b)) && String.eqb (snd (snd a)) (snd (snd b)).

Lemma ukey_eqb_eq a b : ukey_eqb a b = true <-> a = b.
Proof.
  destruct a as [a1 a2], b as [b1 b2]; unfold ukey_eqb; cbn [fst snd].
  rewrite andb_true_iff, !String.eqb_eq. split; [intros [-> ->]; reflexivity | intros H; inversion H; auto].
Qed.
Lemma bkey_eqb_eq a b : bkey_eqb a b = true <-> a = b.
Proof.
  destruct a as [a1 [a2 a3]], b as [b1 [b2 b3]]; unfold bkey_eqb; cbn [fst snd].
  rewrite !andb_true_iff, !String.eqb_eq. split; [intros [[-> ->] ->]; reflexivity | intros H; inversion H; auto].
Qed.

Section Tables.
  (* the theorems that do not depend on the content of the table are proved for any table *)
  Variable nul : list string.
  Variable una : list ukey.
  Variable bin : list bkey.

  Definition has_n (n : string) : bool := existsb (String.eqb n) nul.
  Definition has_u (k : ukey) : bool := existsb (ukey_eqb k) una.
  Definition has_b (k : bkey) : bool := existsb (bkey_eqb k) bin.

  Lemma has_n_In n : has_n n = true <-> In n nul.
  Proof. unfold has_n. rewrite existsb_exists. split; [intros [x [Hi He]]; apply String.eqb_eq in He; subst; auto | intros H; exists n; split; auto; apply String.eqb_refl]. Qed.
  Lemma has_u_In k : has_u k = true <-> In k una.
  Proof. unfold has_u. rewrite existsb_exists. split; [intros [x [Hi He]]; apply ukey_eqb_eq in He; subst; auto | intros H; exists k; split; auto; apply ukey_eqb_eq; auto]. Qed.
  Lemma has_b_In k : has_b k = true <-> In k bin.
  Proof. unfold has_b. rewrite existsb_exists. split; [intros [x [Hi He]]; apply bkey_eqb_eq in He; subst; auto | intros H; exists k; split; auto; apply bkey_eqb_eq; auto]. Qed.

  Inductive nres := NFound | NUnknown.
  Inductive ures := UNilRight | UFound (r : string) | UUnknown.
  Inductive bres := BNilRight | BNilLeft | BFound (l r : string) | BUnknown.

  Definition dispatch_nular (n : string) : nres := if has_n n then NFound else NUnknown.

  Definition dispatch_unary (n : string) (r : operand) : ures :=
    match r with
    | Nil => UNilRight
    | Val tr => if has_u (n, tr) then UFound tr
                else if has_u (n, ANY) then UFound ANY
                else UUnknown
    end.

  Definition dispatch_binary (n : string) (l r : operand) : bres :=
    match r with
    | Nil => BNilRight
    | Val tr =>
      match l with
      | Nil => BNilLeft
      | Val tl => if has_b (n, (tl, tr)) then BFound tl tr
                  else if has_b (n, (ANY, tr)) then BFound ANY tr
                  else if has_b (n, (tl, ANY)) then BFound tl ANY
                  else if has_b (n, (ANY, ANY)) then BFound ANY ANY
                  else BUnknown
      end
    end.

  (* a registered type accepts a dynamic type when it is that type or ANY *)
  Definition accepts (registered dynamic : string) : Prop := registered = dynamic \/ registered = ANY.

  (* "the argument tuple's types match one of its registered signatures" *)
  Definition type_correct_u (n tr : string) : Prop := exists r', In (n, r') una /\ accepts r' tr.
  Definition type_correct_b (n tl tr : string) : Prop := exists l' r', In (n, (l', r')) bin /\ accepts l' tl /\ accepts r' tr.

  (* dispatch_total: whatever the name and the operand types, the dispatcher ends in one of its outcomes, a found key is
     registered and accepts the operand types, and "unknown" is reported exactly when no registered signature matches *)
  Theorem dispatch_nular_total n :
    (dispatch_nular n = NFound /\ In n nul) \/ (dispatch_nular n = NUnknown /\ ~ In n nul).
  Proof.
    unfold dispatch_nular. destruct (has_n n) eqn:E; [left | right]; split; auto.
    - apply has_n_In; auto.
    - intro H. apply has_n_In in H. congruence.
  Qed.

  Theorem dispatch_unary_total n tr :
    (exists r', dispatch_unary n (Val tr) = UFound r' /\ In (n, r') una /\ accepts r' tr)
    \/ (dispatch_unary n (Val tr) = UUnknown /\ ~ type_correct_u n tr).
  Proof.
    unfold dispatch_unary.
    destruct (has_u (n, tr)) eqn:E1.
    { left. exists tr. split; auto. split; [apply has_u_In; auto | left; auto]. }
    destruct (has_u (n, ANY)) eqn:E2.
    { left. exists ANY. split; auto. split; [apply has_u_In; auto | right; auto]. }
    right. split; auto. intros [r' [Hin [Ha | Ha]]]; subst; apply has_u_In in Hin; congruence.
  Qed.

  Theorem dispatch_binary_total n tl tr :
    (exists l' r', dispatch_binary n (Val tl) (Val tr) = BFound l' r' /\ In (n, (l', r')) bin /\ accepts l' tl /\ accepts r' tr)
    \/ (dispatch_binary n (Val tl) (Val tr) = BUnknown /\ ~ type_correct_b n tl tr).
  Proof.
    unfold dispatch_binary.
    destruct (has_b (n, (tl, tr))) eqn:E1.
    { left. exists tl, tr. repeat split; auto; [apply has_b_In; auto | left; auto | left; auto]. }
    destruct (has_b (n, (ANY, tr))) eqn:E2.
    { left. exists ANY, tr. repeat split; auto; [apply has_b_In; auto | right; auto | left; auto]. }
    destruct (has_b (n, (tl, ANY))) eqn:E3.
    { left. exists tl, ANY. repeat split; auto; [apply has_b_In; auto | left; auto | right; auto]. }
    destruct (has_b (n, (ANY, ANY))) eqn:E4.
    { left. exists ANY, ANY. repeat split; auto; [apply has_b_In; auto | right; auto | right; auto]. }
    right. split; auto.
    intros [l' [r' [Hin [[Hl | Hl] [Hr | Hr]]]]]; subst; apply has_b_In in Hin; congruence.
  Qed.

  (* nil operands never reach a lookup *)
  Theorem dispatch_rejects_nil n l :
    dispatch_unary n Nil = UNilRight /\ dispatch_binary n l Nil = BNilRight /\ dispatch_binary n Nil (Val "x") = BNilLeft.
  Proof. repeat split. Qed.

  (* exact_before_any: a signature registered for exactly the operand types wins over every ANY signature *)
  Theorem exact_before_any_u n tr : In (n, tr) una -> dispatch_unary n (Val tr) = UFound tr.
  Proof. intro H. unfold dispatch_unary. apply has_u_In in H. rewrite H. reflexivity. Qed.
  Theorem exact_before_any_b n tl tr : In (n, (tl, tr)) bin -> dispatch_binary n (Val tl) (Val tr) = BFound tl tr.
  Proof. intro H. unfold dispatch_binary. apply has_b_In in H. rewrite H. reflexivity. Qed.

  (* the order of the three fallbacks: (ANY, right) before (left, ANY) before (ANY, ANY) *)
  Theorem fallback_order n tl tr :
    ~ In (n, (tl, tr)) bin ->
    (In (n, (ANY, tr)) bin -> dispatch_binary n (Val tl) (Val tr) = BFound ANY tr) /\
    (~ In (n, (ANY, tr)) bin -> In (n, (tl, ANY)) bin -> dispatch_binary n (Val tl) (Val tr) = BFound tl ANY) /\
    (~ In (n, (ANY, tr)) bin -> ~ In (n, (tl, ANY)) bin -> In (n, (ANY, ANY)) bin ->
       dispatch_binary n (Val tl) (Val tr) = BFound ANY ANY).
  Proof.
    intro H0. unfold dispatch_binary.
    assert (E0 : has_b (n, (tl, tr)) = false).
    { destruct (has_b (n, (tl, tr))) eqn:E; auto. apply has_b_In in E. contradiction. }
    rewrite E0. repeat split.
    - intro H. apply has_b_In in H. rewrite H. reflexivity.
    - intros H1 H2.
      assert (E1 : has_b (n, (ANY, tr)) = false) by (destruct (has_b (n, (ANY, tr))) eqn:E; auto; apply has_b_In in E; contradiction).
      rewrite E1. apply has_b_In in H2. rewrite H2. reflexivity.
    - intros H1 H2 H3.
      assert (E1 : has_b (n, (ANY, tr)) = false) by (destruct (has_b (n, (ANY, tr))) eqn:E; auto; apply has_b_In in E; contradiction).
      assert (E2 : has_b (n, (tl, ANY)) = false) by (destruct (has_b (n, (tl, ANY))) eqn:E; auto; apply has_b_In in E; contradiction).
      rewrite E1, E2. apply has_b_In in H3. rewrite H3. reflexivity.
  Qed.

  (* type-correct arguments are always dispatched to a registered, accepting signature *)
  Corollary type_correct_dispatched_b n tl tr :
    type_correct_b n tl tr ->
    exists l' r', dispatch_binary n (Val tl) (Val tr) = BFound l' r' /\ In (n, (l', r')) bin /\ accepts l' tl /\ accepts r' tr.
  Proof. intro H. destruct (dispatch_binary_total n tl tr) as [Hf | [_ Hn]]; [exact Hf | contradiction]. Qed.
  Corollary type_correct_dispatched_u n tr :
    type_correct_u n tr ->
    exists r', dispatch_unary n (Val tr) = UFound r' /\ In (n, r') una /\ accepts r' tr.
  Proof. intro H. destruct (dispatch_unary_total n tr) as [Hf | [_ Hn]]; [exact Hf | contradiction]. Qed.
End Tables.


(* ------------------------------------------------------------------------------------------------------------- *)
(* the dispatcher of the built runtime *)
Definition d_nular := dispatch_nular reg_nular.
Definition d_unary := dispatch_unary reg_unary.
Definition d_binary := dispatch_binary reg_binary.

(* finite-table facts, each swept over the generated table (the bound is the table) *)
Fixpoint nodupb {A} (eqb : A -> A -> bool) (l : list A) : bool :=
  match l with [] => true | x :: l' => negb (existsb (eqb x) l') && nodupb eqb l' end.

Lemma nodupb_NoDup {A} (eqb : A -> A -> bool) (Heq : forall a b, eqb a b = true <-> a = b) l :
  nodupb eqb l = true -> NoDup l.
Proof.
  induction l as [|x l IH]; cbn; intro H; [constructor|].
  apply andb_true_iff in H. destruct H as [H1 H2]. constructor; auto.
  intro Hin. apply negb_true_iff in H1.
  assert (existsb (eqb x) l = true) by (apply existsb_exists; exists x; split; auto; apply Heq; auto). congruence.
Qed.

(* one callback per key: what a lookup finds is determined by the key (unordered_map semantics) *)
Lemma nodup_nular_ok : nodupb String.eqb reg_nular = true. Proof. vm_compute. reflexivity. Qed.
Lemma nodup_unary_ok : nodupb ukey_eqb reg_unary = true. Proof. vm_compute. reflexivity. Qed.
Lemma nodup_binary_ok : nodupb bkey_eqb reg_binary = true. Proof. vm_compute. reflexivity. Qed.

Theorem registry_keys_unique : NoDup reg_nular /\ NoDup reg_unary /\ NoDup reg_binary.
Proof.
  exact (conj (nodupb_NoDup String.eqb String.eqb_eq reg_nular nodup_nular_ok)
        (conj (nodupb_NoDup ukey_eqb ukey_eqb_eq reg_unary nodup_unary_ok)
              (nodupb_NoDup bkey_eqb bkey_eqb_eq reg_binary nodup_binary_ok))).
Qed.

(* no signature is registered for NOTHING: rejecting nil operands loses no registered signature *)
Definition not_nothing (t : string) : bool := negb (String.eqb t "NOTHING").
Lemma not_nothing_neq t : not_nothing t = true -> t <> "NOTHING".
Proof. unfold not_nothing. intros H E. subst t. discriminate H. Qed.
Lemma no_nothing_unary_ok : forallb (fun k : ukey => not_nothing (snd k)) reg_unary = true.
Proof. vm_compute. reflexivity. Qed.
Lemma no_nothing_binary_ok : forallb (fun k : bkey => not_nothing (fst (snd k)) && not_nothing (snd (snd k))) reg_binary = true.
Proof. vm_compute. reflexivity. Qed.

Theorem registry_no_nothing :
  (forall k, In k reg_unary -> snd k <> "NOTHING") /\
  (forall k, In k reg_binary -> fst (snd k) <> "NOTHING" /\ snd (snd k) <> "NOTHING").
Proof.
  split.
  - intros k Hk. apply not_nothing_neq. exact (proj1 (forallb_forall _ _) no_nothing_unary_ok k Hk).
  - intros k Hk. pose proof (proj1 (forallb_forall _ _) no_nothing_binary_ok k Hk) as H.
    apply andb_true_iff in H. destruct H as [Ha Hb]. split; apply not_nothing_neq; assumption.
Qed.

(* every registered signature is reachable: called with exactly its own types (ANY standing for itself) it is the
   one that is found *)
Theorem registry_all_reachable :
  (forall n r, In (n, r) reg_unary -> d_unary n (Val r) = UFound r) /\
  (forall n l r, In (n, (l, r)) reg_binary -> d_binary n (Val l) (Val r) = BFound l r) /\
  (forall n, In n reg_nular -> d_nular n = NFound).
Proof.
  repeat split.
  - intros n r H. apply exact_before_any_u; auto.
  - intros n l r H. apply exact_before_any_b; auto.
  - intros n H. unfold d_nular, dispatch_nular. apply has_n_In in H. rewrite H. reflexivity.
Qed.
