(* C09 (b) - proofs about the guard models: for the repaired code every modelled operator ends in Ret (no undefined
   behaviour, no escaping exception, fuel suffices), its result refers to existing elements and its allocation is
   bounded by the size of its arguments plus the explicitly requested size; for the code as it is, witnesses that
   reach UB / Throw. *)
From Coq Require Import ZArith List String Bool Lia.
From SqfVerif Require Import Ops.OpsBase Ops.Guards Ops.SortOrder.
Import ListNotations.
Local Open Scope Z_scope.

Ltac b2z :=
  repeat match goal with
  | H : (_ && _) = true |- _ => apply andb_true_iff in H; destruct H
  | H : (_ && _) = false |- _ => apply andb_false_iff in H; destruct H
  | H : (_ || _) = true |- _ => apply orb_true_iff in H; destruct H
  | H : (_ || _) = false |- _ => apply orb_false_iff in H; destruct H
  | H : negb _ = true |- _ => apply negb_true_iff in H
  | H : negb _ = false |- _ => apply negb_false_iff in H
  | H : (_ <? _) = true |- _ => apply Z.ltb_lt in H
  | H : (_ <? _) = false |- _ => apply Z.ltb_ge in H
  | H : (_ <=? _) = true |- _ => apply Z.leb_le in H
  | H : (_ <=? _) = false |- _ => apply Z.leb_gt in H
  | H : (_ =? _) = true |- _ => apply Z.eqb_eq in H
  | H : (_ =? _) = false |- _ => apply Z.eqb_neq in H
  end.

Ltac split_all := repeat match goal with |- _ /\ _ => split end.

(* case analysis on every test of the model; the constants are unfolded only when the arithmetic needs them *)
Ltac cases :=
  repeat match goal with
  | |- context [if ?c then _ else _] => destruct c eqn:?
  | |- context [match ?x with _ => _ end] => destruct x eqn:?
  end.

(* splitString: every token lies inside the string *)
Definition tokens_ok (n : Z) (o : outcome) : Prop :=
  match o with Ret _ (RTokens l) _ => forall s c, In (s, c) l -> 0 <= s /\ 0 < c /\ s + c <= n | Ret _ _ _ => True | _ => False end.

Ltac hyp_cases :=
  repeat match goal with
  | H : context [if ?c then _ else _] |- _ => destruct c eqn:?
  end.

Lemma zlen_nonneg {A} (l : list A) : 0 <= zlen l.
Proof. unfold zlen. lia. Qed.
Lemma zlen_cons {A} (x : A) l : zlen (x :: l) = 1 + zlen l.
Proof. unfold zlen. cbn [List.length]. lia. Qed.
Lemma zlen_nil {A} : zlen (@nil A) = 0.
Proof. reflexivity. Qed.
Lemma zlen_app {A} (a b : list A) : zlen (a ++ b) = zlen a + zlen b.
Proof. unfold zlen. rewrite app_length. lia. Qed.

(* ---------------------------------------------------------------------------------------------------------------- *)
(* conversions *)
Lemma clamp_in z : INT_MIN <= clamp_int z <= INT_MAX.
Proof. unfold clamp_int, INT_MIN, INT_MAX. destruct (z <? -2147483648) eqn:E1; [lia|]. destruct (2147483647 <? z) eqn:E2; b2z; lia. Qed.

Lemma cast_repaired p : exists z, cast_int repaired p = CI z /\ INT_MIN <= z <= INT_MAX.
Proof.
  destruct p; cbn; eexists; split; try reflexivity; try apply clamp_in; unfold INT_MIN, INT_MAX; lia.
Qed.

Lemma cast_as_is_range p z : cast_int as_is p = CI z -> INT_MIN <= z <= INT_MAX.
Proof.
  destruct p; cbn; try discriminate. destruct (in_int z0) eqn:E; try discriminate. intro H; inversion H; subst.
  unfold in_int in E. b2z. lia.
Qed.

Ltac use_cast p :=
  let z := fresh "z" in let Hc := fresh "Hc" in let Hz := fresh "Hz" in
  destruct (cast_repaired p) as [z [Hc Hz]]; rewrite Hc; unfold INT_MIN, INT_MAX in Hz.

(* ---------------------------------------------------------------------------------------------------------------- *)
(* select *)
Lemma select_scalar_safe n f : 0 <= n ->
  safe (select_scalar repaired n f) /\ res_ok n (select_scalar repaired n f) /\ alloc_of (select_scalar repaired n f) <= n.
Proof.
  intro Hn. unfold select_scalar. use_cast (ip_round f).
  cases; cbn [safe res_ok alloc_of tokens_ok]; split_all; auto; unfold vec_ok in *; b2z; lia.
Qed.

Lemma select_scalar_refuted : exists n f, select_scalar as_is n f = UB_CAST.
Proof. exists 3, (FFin (100000000000000000000 * SCALE)). vm_compute. reflexivity. Qed.

Lemma select_bool_safe n flag : 0 <= n ->
  safe (select_bool n flag) /\ res_ok n (select_bool n flag) /\ alloc_of (select_bool n flag) <= n.
Proof.
  intro Hn. unfold select_bool.
  destruct flag; cbn [negb andb orb]; cases; cbn [safe res_ok alloc_of tokens_ok]; split_all; auto; unfold vec_ok in *; b2z; try lia.
Qed.

Lemma select_range_safe n args : 0 <= n ->
  safe (select_range repaired n args) /\ res_ok n (select_range repaired n args) /\
  alloc_of (select_range repaired n args) <= 2 * n + zlen args.
Proof.
  intro Hn. pose proof (zlen_nonneg args) as Hm. unfold select_range. cbn [df_range_add repaired].
  destruct (zlen args <? 1) eqn:E0; [cbn [safe res_ok alloc_of tokens_ok]; split_all; auto; lia|].
  destruct (nth_error args 0) as [[f0| | | |]|] eqn:E1; cbn [safe res_ok alloc_of tokens_ok]; try (split_all; auto; lia).
  2:{ destruct args; [rewrite zlen_nil in E0; discriminate | cbn in E1; discriminate]. }
  use_cast (ip_round f0).
  destruct (z <? 0) eqn:E2; [cbn [safe res_ok alloc_of tokens_ok]; split_all; auto; lia|].
  destruct (n <? z) eqn:E3; [cbn [safe res_ok alloc_of tokens_ok]; split_all; auto; lia|].
  destruct (2 <=? zlen args) eqn:E4; [|cbn [safe res_ok alloc_of tokens_ok]; split_all; auto; lia].
  destruct (nth_error args 1) as [[f1| | | |]|] eqn:E5; cbn [safe res_ok alloc_of tokens_ok]; try (split_all; auto; lia).
  2:{ destruct args as [|a [|b r]]; cbn in E5; try discriminate; rewrite ?zlen_cons, ?zlen_nil in E4; b2z; pose proof (zlen_nonneg r); lia. }
  use_cast (ip_round f1).
  destruct (z0 <? 0) eqn:E6; [cbn [safe res_ok alloc_of tokens_ok]; split_all; auto; lia|].
  b2z.
  destruct (n - z <? z0) eqn:E7; b2z; unfold it_ok.
  - replace ((0 <=? z) && (z <=? n) && ((0 <=? n) && (n <=? n)) && (z <=? n)) with true
      by (symmetry; rewrite !andb_true_iff; repeat split; (apply Z.leb_le; lia)).
    cbn [safe res_ok alloc_of tokens_ok]. split_all; auto; lia.
  - replace ((0 <=? z) && (z <=? n) && ((0 <=? z + z0) && (z + z0 <=? n)) && (z <=? z + z0)) with true
      by (symmetry; rewrite !andb_true_iff; repeat split; (apply Z.leb_le; lia)).
    cbn [safe res_ok alloc_of tokens_ok]. split_all; auto; lia.
Qed.

(* start <= size, start + length > INT_MAX: an array of 200 elements, [200, 2147483520] *)
Lemma select_range_refuted :
  select_range as_is 200 [VNum (FFin (200 * SCALE)); VNum (FFin (2147483520 * SCALE))]
  = UB "signed integer overflow: start + length".
Proof. vm_compute. reflexivity. Qed.

Lemma select_string_safe len args : 0 <= len ->
  safe (select_string repaired len args) /\ res_ok len (select_string repaired len args) /\
  alloc_of (select_string repaired len args) <= 2 * len + zlen args.
Proof.
  intro Hn. pose proof (zlen_nonneg args) as Hm. unfold select_string.
  destruct args as [|[f0| | | |] rest]; cbn [safe res_ok alloc_of]; try (split_all; auto; lia).
  use_cast (ip_round f0).
  destruct (z <? 0) eqn:E2; [cbn [safe res_ok alloc_of tokens_ok]; split_all; auto; lia|].
  destruct (len <=? z) eqn:E3; [cbn [safe res_ok alloc_of tokens_ok]; split_all; auto; lia|].
  b2z. assert (len <? z = false) as E4 by (apply Z.ltb_ge; lia). rewrite E4.
  destruct rest as [|[f1| | | |] rest']; cbn [safe res_ok alloc_of]; try (split_all; auto; lia).
  use_cast (ip_round f1).
  destruct (z0 <? 0) eqn:E6; cbn [safe res_ok alloc_of]; split_all; auto; b2z; lia.
Qed.

(* ---------------------------------------------------------------------------------------------------------------- *)
(* resize: the allocation is the requested size, itself at most ARR_MAX *)
Lemma quot_bound k : 0 <= k -> k <= ARR_MAX * SCALE -> 0 <= Z.quot k SCALE <= ARR_MAX.
Proof.
  intros H0 H1. unfold SCALE, ARR_MAX in *. rewrite Z.quot_div_nonneg by lia.
  split; [apply Z.div_pos; lia|]. apply Z.div_le_upper_bound; lia.
Qed.

Lemma resize_safe n f :
  safe (resize_model repaired n f) /\ alloc_of (resize_model repaired n f) <= ARR_MAX /\
  (forall k, f = FFin k -> alloc_of (resize_model repaired n f) * SCALE <= Z.max 0 k).
Proof.
  unfold resize_model. cbn [df_nolimit repaired negb andb].
  destruct f as [| | |k]; cbn [fl_ge0 negb ip_trunc].
  - cbn [safe res_ok alloc_of]. split_all; auto; unfold ARR_MAX; try lia; try (intros k H; discriminate).
  - cbn [safe res_ok alloc_of]. split_all; auto; unfold ARR_MAX; try lia; try (intros k H; discriminate).
  - cbn [safe res_ok alloc_of]. split_all; auto; unfold ARR_MAX; try lia; try (intros k H; discriminate).
  - destruct (0 <=? k) eqn:E; cbn [negb]; b2z.
    2:{ cbn [safe res_ok alloc_of]. split_all; auto; unfold ARR_MAX; try lia; try (intros k0 H; lia). }
    destruct (ARR_MAX * SCALE <? k) eqn:E2; b2z.
    { cbn [safe res_ok alloc_of]. split_all; auto; unfold ARR_MAX; try lia; try (intros k0 H; lia). }
    pose proof (quot_bound k E E2) as [Q0 Q1].
    assert (Z.quot k SCALE <? SIZE_MOD = true) as E3 by (apply Z.ltb_lt; unfold SIZE_MOD, ARR_MAX in *; lia).
    assert (VEC_MAX <? Z.quot k SCALE = false) as E4 by (apply Z.ltb_ge; unfold VEC_MAX, ARR_MAX in *; lia).
    rewrite E3, E4. cbn [safe res_ok alloc_of]. split_all; auto.
    intros k0 Hk. inversion Hk; subst k0.
    unfold SCALE in *. rewrite Z.quot_div_nonneg by lia.
    pose proof (Z.mul_div_le k 713623846352979940529142984724747568191373312 ltac:(lia)). lia.
Qed.

Lemma resize_refuted :
  resize_model as_is 3 (FFin (1000000000000000019884624838656 * SCALE))
    = UB "float-cast-overflow: the value is not representable in size_t" /\
  resize_model as_is 3 (FFin (4611686018427387904 * SCALE)) = Throw "std::length_error (vector::resize)".
Proof. split; vm_compute; reflexivity. Qed.

(* ---------------------------------------------------------------------------------------------------------------- *)
(* d_array::check_type with a type vector: never reads behind the vector when max <= its length (every caller passes
   max = the length: d_array.h:248-256) *)
Lemma check_typeN_loop_safe : forall elems tys, (List.length elems <= List.length tys)%nat -> check_typeN_loop elems tys <> None.
Proof.
  induction elems as [|v es IH]; cbn; intros tys H; [discriminate|].
  destruct tys as [|t ts]; cbn in H; [lia|].
  specialize (IH ts ltac:(lia)). destruct (check_typeN_loop es ts) as [[ds ok]|]; [|contradiction].
  destruct (ty_eqb (ty_of v) t); discriminate.
Qed.

Lemma check_typeN_safe elems tys mn mx : mx <= zlen tys -> check_typeN elems tys mn mx <> None.
Proof.
  intro H. unfold check_typeN. destruct ((zlen elems <? mn) || (mx <? zlen elems)) eqn:E; [discriminate|].
  b2z. apply check_typeN_loop_safe. unfold zlen in *. lia.
Qed.

Lemma check_typeN_refuted : check_typeN [VNum FNan; VNum FNan] [TScalar] 0 5 = None.
Proof. reflexivity. Qed.

(* ---------------------------------------------------------------------------------------------------------------- *)
Lemma delete_range_safe n args : 0 <= n -> n <= INT_MAX ->
  safe (delete_range repaired n args) /\ res_ok n (delete_range repaired n args) /\
  alloc_of (delete_range repaired n args) <= zlen args.
Proof.
  intros Hn Hn2. unfold INT_MAX in Hn2. unfold delete_range.
  destruct (check_type1 args TScalar 2 2) as [ds [|]] eqn:EC; [|cbn [safe res_ok alloc_of tokens_ok]; split_all; auto; lia].
  pose proof (check_type1_true _ _ _ _ _ EC) as HT.
  unfold check_type1 in EC. destruct ((zlen args <? 2) || (2 <? zlen args)) eqn:E0; [inversion EC|]. b2z.
  destruct args as [|a0 [|a1 r]]; rewrite ?zlen_cons, ?zlen_nil in *; try lia.
  pose proof (HT a0 (or_introl eq_refl)) as T0. pose proof (HT a1 (or_intror (or_introl eq_refl))) as T1.
  destruct a0; cbn in T0; try discriminate. destruct a1; cbn in T1; try discriminate.
  use_cast (ip_round f). use_cast (ip_round f0).
  unfold iadd, in_int, it_ok, INT_MIN, INT_MAX.
  cases; cbn [safe res_ok alloc_of tokens_ok]; split_all; auto; b2z; try lia; hyp_cases; b2z; lia.
Qed.

Lemma delete_at_safe n f : 0 <= n ->
  safe (delete_at repaired n f) /\ res_ok n (delete_at repaired n f) /\ alloc_of (delete_at repaired n f) <= 0.
Proof.
  intro Hn. unfold delete_at. use_cast (ip_trunc f). unfold vec_ok.
  cases; cbn [safe res_ok alloc_of tokens_ok]; split_all; auto; b2z; lia.
Qed.

Lemma delete_at_refuted : exists n f, delete_at as_is n f = UB_CAST.
Proof. exists 3, FNan. reflexivity. Qed.

Lemma set_safe n args : 0 <= n -> n <= INT_MAX ->
  safe (set_model repaired n args) /\ res_ok n (set_model repaired n args) /\
  alloc_of (set_model repaired n args) <= zlen args + ARR_MAX.
Proof.
  intros Hn Hn2. unfold INT_MAX in Hn2. pose proof (zlen_nonneg args) as Hm. unfold set_model.
  destruct (zlen args =? 2) eqn:E0; cbn [negb]; [|cbn [safe res_ok alloc_of tokens_ok]; split_all; auto; unfold ARR_MAX; lia].
  destruct args as [|[f0| | | |] rest]; try (cbn [safe res_ok alloc_of tokens_ok]; split_all; auto; unfold ARR_MAX; lia).
  - cbn in E0. discriminate.
  - use_cast (ip_trunc f0). cbn [df_nolimit df_cast repaired negb andb]. unfold vec_ok, VEC_MAX, ARR_MAX.
    cases; cbn [safe res_ok alloc_of tokens_ok]; split_all; auto; b2z; try lia.
Qed.

Lemma set_refuted :
  set_model as_is 3 [VNum FNan; VNum FNan] = UB_CAST /\
  set_model (Build_defects false true true true true true true true true true) 3 [VNum (FFin (2000000000 * SCALE)); VNum FNan]
    = Ret [] (RStored 2000000000 2000000001) 2000000003.
Proof. split; vm_compute; reflexivity. Qed.

Lemma push_append_safe n m found : 0 <= n -> 0 <= m ->
  safe (push_back n) /\ alloc_of (push_back n) <= 2 * n + 1 /\
  safe (push_back_unique n found) /\ alloc_of (push_back_unique n found) <= 2 * n + 1 /\
  safe (append_model n m) /\ alloc_of (append_model n m) <= 3 * (n + m).
Proof. intros. unfold push_back, push_back_unique, append_model. destruct found; cbn [safe res_ok alloc_of tokens_ok]; split_all; auto; lia. Qed.

(* ---------------------------------------------------------------------------------------------------------------- *)
(* sort *)
Lemma sort_safe elems flag : safe (sort_model repaired elems flag).
Proof.
  unfold sort_model.
  destruct (zlen elems <=? 1) eqn:E1; [cbn; auto|].
  destruct elems as [|e0 rest] eqn:EE; [rewrite zlen_nil in E1; discriminate|]. rewrite <- EE.
  destruct (is_sortable (ty_of e0)) eqn:ES; cbn [negb]; [|cbn; auto].
  destruct (check_type1 elems (ty_of e0) (zlen elems) (zlen elems)) as [ds [|]] eqn:EC; [|cbn; auto].
  pose proof (check_type1_true _ _ _ _ _ EC) as HT.
  destruct e0 as [f|s|b|r0|t]; cbn in ES; try discriminate.
  - rewrite (swo_scalars flag elems HT). cbn. auto.
  - rewrite (swo_strings flag elems HT). cbn. auto.
  - destruct (rows_check elems (map ty_of r0)) as [[ds2 [|]]|] eqn:ER.
    + rewrite (swo_rows flag elems (map ty_of r0) (rows_check_true _ _ _ ER)). cbn. auto.
    + cbn. auto.
    + (* rows_check cannot read behind the type vector: max = its length *)
      exfalso. clear - ER HT. revert ER. generalize (map ty_of r0) as tys. intro tys.
      assert (forall v, In v elems -> ty_of v = TArray) as HA by (intros v Hv; rewrite (HT v Hv); reflexivity).
      clear HT. induction elems as [|x xs IH]; cbn; [discriminate|].
      pose proof (HA x (or_introl eq_refl)) as Tx. destruct x; cbn in Tx; try discriminate.
      pose proof (check_typeN_safe l tys (zlen tys) (zlen tys) ltac:(lia)) as Hs.
      destruct (check_typeN l tys (zlen tys) (zlen tys)) as [[d [|]]|]; try discriminate; [|contradiction].
      apply IH. intros v Hv. apply HA. right. auto.
Qed.

(* as is: on rows, with sort_flag = false, comp(a, a) = true: not irreflexive *)
Lemma sort_cmp_refuted_rows :
  sort_cmp as_is false (VArr [VNum (FFin 0)]) (VArr [VNum (FFin 0)]) = Some true /\
  sort_model as_is [VArr [VNum (FFin 0)]; VArr [VNum (FFin SCALE)]] false
    = UB "std::sort: the comparator is not a strict weak ordering on the elements".
Proof. split; vm_compute; reflexivity. Qed.

(* as is: with a NaN among the numbers incomparability is not transitive (1 ~ NaN, NaN ~ 2, 1 < 2) *)
Lemma sort_cmp_refuted_nan :
  sort_model as_is [VNum (FFin SCALE); VNum FNan; VNum (FFin (2 * SCALE))] true
    = UB "std::sort: the comparator is not a strict weak ordering on the elements".
Proof. vm_compute. reflexivity. Qed.

(* ---------------------------------------------------------------------------------------------------------------- *)
(* param / params *)
Lemma nth_error_zlen {A} (l : list A) i : 0 <= i < zlen l -> nth_error l (Z.to_nat i) <> None.
Proof. intros H. apply nth_error_Some. unfold zlen in H. lia. Qed.

Lemma param_safe input d :
  safe (param_model repaired input d) /\ res_ok (zlen input) (param_model repaired input d) /\
  alloc_of (param_model repaired input d) <= zlen input + 2 * zlen d + List.fold_right (fun v a => a + match v with VArr l => zlen l | _ => 0 end) 0 d.
Proof.
  pose proof (zlen_nonneg input) as Hi. pose proof (zlen_nonneg d) as Hd.
  assert (forall (l : list val), 0 <= fold_right (fun v a => a + match v with VArr l => zlen l | _ => 0 end) 0 l) as Hf.
  { induction l as [|x l IH]; cbn; [lia|]. destruct x; try lia. pose proof (zlen_nonneg l0). lia. }
  assert (forall (l : list val) k l2, nth_error l k = Some (VArr l2) ->
            zlen l2 <= fold_right (fun v a => a + match v with VArr l => zlen l | _ => 0 end) 0 l) as Hnth.
  { induction l as [|x l IH]; intros k l2 H; destruct k; cbn in H; try discriminate.
    - inversion H; subst. cbn. specialize (Hf l). lia.
    - cbn. specialize (IH _ _ H). destruct x; try lia. pose proof (zlen_nonneg l0). lia. }
  unfold param_model.
  destruct d as [|d0 dr] eqn:ED.
  { cbn [safe res_ok alloc_of fold_right]. rewrite zlen_nil. split_all; auto; lia. }
  destruct d0 as [f0| | | |];
    try (cbn [safe res_ok alloc_of fold_right]; split_all; auto; specialize (Hf dr); rewrite ?zlen_cons in *;
         try lia; pose proof (zlen_nonneg dr); pose proof (zlen_nonneg l); lia).
  rewrite <- ED. use_cast (ip_trunc f0). cbn [df_param_cast repaired]. pose proof (zlen_nonneg d) as Hd'.
  assert (0 <= z mod SIZE_MOD) as Hmod by (apply Z.mod_pos_bound; unfold SIZE_MOD; lia).
  set (F := fold_right (fun v a => a + match v with VArr l => zlen l | _ => 0 end) 0 d) in *.
  assert (0 <= F) as HF by apply Hf.
  destruct (nth_error d 2) as [v2|] eqn:E2; [destruct (is_arr v2) eqn:A2; cbn [negb]|]; try (cbn [safe res_ok alloc_of tokens_ok]; split_all; auto; lia).
  - (* d2 is an array *)
    destruct v2 as [| | |l2|]; cbn in A2; try discriminate.
    pose proof (Hnth d 2%nat l2 E2) as Hl2. fold F in Hl2.
    destruct (nth_error d 3) as [v3|] eqn:E3.
    + destruct (negb (is_arr v3) && negb (is_num v3)) eqn:B3; [cbn [safe res_ok alloc_of tokens_ok]; split_all; auto; lia|]. clear B3.
      destruct (is_arr v3) eqn:A3.
      * destruct v3 as [| | |l3|]; cbn in A3; try discriminate.
        destruct (nullb (filter (fun e => negb (is_num e)) l3)); [|cbn [safe res_ok alloc_of tokens_ok]; split_all; auto; lia].
        destruct (z mod SIZE_MOD <? zlen input) eqn:EI; [|destruct (zlen d =? 2); cbn [safe res_ok alloc_of tokens_ok]; split_all; auto; lia].
        b2z. destruct (nth_error input (Z.to_nat (z mod SIZE_MOD))) eqn:EN; [|exfalso; eapply nth_error_zlen; eauto; lia].
        cases; cbn [safe res_ok alloc_of tokens_ok]; split_all; auto; try lia.
      * destruct (z mod SIZE_MOD <? zlen input) eqn:EI; [|destruct (zlen d =? 2); cbn [safe res_ok alloc_of tokens_ok]; split_all; auto; lia].
        b2z. destruct (nth_error input (Z.to_nat (z mod SIZE_MOD))) eqn:EN; [|exfalso; eapply nth_error_zlen; eauto; lia].
        cases; cbn [safe res_ok alloc_of tokens_ok]; split_all; auto; lia.
    + destruct (z mod SIZE_MOD <? zlen input) eqn:EI; [|destruct (zlen d =? 2); cbn [safe res_ok alloc_of tokens_ok]; split_all; auto; lia].
      b2z. destruct (nth_error input (Z.to_nat (z mod SIZE_MOD))) eqn:EN; [|exfalso; eapply nth_error_zlen; eauto; lia].
      cases; cbn [safe res_ok alloc_of tokens_ok]; split_all; auto; lia.
  - (* fewer than 3 descriptors: there is no 4th either *)
    assert (nth_error d 3 = None) as E3.
    { apply nth_error_None. apply nth_error_None in E2. lia. }
    rewrite E3. cbn [nullb negb andb].
    destruct (z mod SIZE_MOD <? zlen input) eqn:EI; [|destruct (zlen d =? 2); cbn [safe res_ok alloc_of tokens_ok]; split_all; auto; lia].
    b2z. destruct (nth_error input (Z.to_nat (z mod SIZE_MOD))) eqn:EN; [|exfalso; eapply nth_error_zlen; eauto; lia].
    cbn [nullb negb andb found_ty existsb].
    cases; cbn [safe res_ok alloc_of tokens_ok]; split_all; auto; rewrite ?zlen_nil; try lia.
Qed.

(* as is: [x] param [0, d, [], 1] takes the scalar 1 for an array *)
Lemma param_refuted :
  param_model as_is [VNum (FFin SCALE)] [VNum (FFin 0); VNum (FFin 0); VArr []; VNum (FFin SCALE)]
    = UB "static_pointer_cast<d_array> of a scalar, then size() and at() on it".
Proof. vm_compute. reflexivity. Qed.

Lemma params_entry_safe elements i fel : 0 <= i -> safe (params_entry elements i fel).
Proof.
  intro Hi. unfold params_entry.
  set (pd := match fel with VArr l => l | v => [v] end).
  destruct pd as [|[| s | | |] pr] eqn:EP; try (cbn; auto; fail).
  cases; cbn [safe]; auto; b2z; exfalso.
  all: try (eapply (nth_error_zlen elements i); eauto; lia).
  all: repeat match goal with
       | H : nth_error _ _ = None |- _ => apply nth_error_None in H
       | H : nth_error ?l ?k = Some _ |- _ => assert (nth_error l k <> None) as HH by congruence; apply nth_error_Some in HH; clear H
       | H : 4 <= zlen _ |- _ => unfold zlen in H
       end; cbn [List.length] in *; try lia.
  all: destruct pr as [|p1 [|p2 pr2]]; cbn [nth_error nullb List.length] in *; try discriminate; try lia.
Qed.

Lemma params_loop_safe elements : forall fmt i ds al, 0 <= i -> safe (params_loop elements i fmt ds al).
Proof.
  induction fmt as [|fel rest IH]; intros i ds al Hi; cbn; auto.
  pose proof (params_entry_safe elements i fel Hi) as Hs.
  destruct (params_entry elements i fel); cbn in Hs; try contradiction. apply IH. lia.
Qed.

Lemma params_safe elements fmt : safe (params_model elements fmt).
Proof. apply params_loop_safe. lia. Qed.

(* ---------------------------------------------------------------------------------------------------------------- *)
(* format *)
Lemma find_aux_bounds : forall l c idx p, find_aux l c idx = Some p -> idx <= p < idx + zlen l.
Proof.
  induction l as [|x l IH]; cbn [find_aux]; intros c idx p H; [discriminate|].
  rewrite zlen_cons. pose proof (zlen_nonneg l).
  destruct (x =? c); [inversion H; lia|]. apply IH in H. lia.
Qed.

Lemma zlen_skipn {A} (l : list A) k : 0 <= k <= zlen l -> zlen (skipn (Z.to_nat k) l) = zlen l - k.
Proof. intro H. unfold zlen in *. rewrite skipn_length. lia. Qed.

Lemma find_from_bounds s c off p : 0 <= off -> find_from s c off = Some p -> off <= p < zlen s.
Proof.
  intros H0 H. unfold find_from in H. destruct (zlen s <=? off) eqn:E; [discriminate|]. b2z.
  apply find_aux_bounds in H. rewrite zlen_skipn in H by lia. lia.
Qed.

Lemma digits_run_bounds : forall l cnt acc c v, digits_run l cnt acc = (c, v) -> cnt <= c <= cnt + zlen l.
Proof.
  induction l as [|x l IH]; cbn [digits_run]; intros cnt acc c v H.
  - inversion H; subst. rewrite zlen_nil. lia.
  - rewrite zlen_cons. pose proof (zlen_nonneg l). destruct (is_digit x).
    + apply IH in H. lia.
    + inversion H; subst. lia.
Qed.

Lemma digits_run_first l x acc c v : is_digit x = true -> digits_run (x :: l) 0 acc = (c, v) -> 1 <= c.
Proof. intros Hd H. cbn [digits_run] in H. rewrite Hd in H. apply digits_run_bounds in H. lia. Qed.

Lemma digits_sat_bounds : forall l acc, 0 <= acc <= INT_MAX -> 0 <= digits_sat l acc <= INT_MAX.
Proof.
  induction l as [|x l IH]; cbn [digits_sat]; intros acc H; auto.
  destruct (is_digit x) eqn:D; auto. apply IH.
  unfold is_digit in D. b2z. unfold INT_MAX in *.
  destruct ((2147483647 - 9) / 10 <? acc) eqn:E; [lia|]. b2z.
  change ((2147483647 - 9) / 10) with 214748363 in E. lia.
Qed.

Lemma str_at_ok s i : 0 <= i <= zlen s -> str_at s i <> None.
Proof.
  intro H. unfold str_at. destruct ((0 <=? i) && (i <? zlen s)) eqn:E.
  - b2z. apply nth_error_zlen. lia.
  - destruct (i =? zlen s) eqn:E2; [discriminate|]. b2z; lia.
Qed.

Lemma skipn_cons_nth {A} (l : list A) k x : nth_error l k = Some x -> exists r, skipn k l = x :: r.
Proof.
  revert k. induction l as [|y l IH]; intros k H; destruct k; cbn in *; try discriminate.
  - inversion H. eexists; reflexivity.
  - apply IH; auto.
Qed.

(* the loop ends within its fuel and the number of bytes written is bounded; M bounds the printed length of every
   argument: bytes <= (|format| + 1) * (1 + M)  (a placeholder needs two characters of the format string) *)
Lemma fmt_loop_safe plens M (HM0 : 0 <= M) (HM : forall x, In x plens -> 0 <= x <= M) s :
  forall fuel off ds al,
    0 <= off <= zlen s + 1 -> Z.of_nat fuel + off >= zlen s + 2 ->
    0 <= al <= off + off * M ->
    safe (fmt_loop fuel repaired s plens off ds al) /\
    alloc_of (fmt_loop fuel repaired s plens off ds al) <= (zlen s + 1) + (zlen s + 1) * M.
Proof.
  pose proof (zlen_nonneg s) as Hs.
  induction fuel as [|fuel IH]; intros off ds al H0 Hfuel Hal; [lia|].
  cbn [fmt_loop].
  assert (off * M <= (zlen s + 1) * M) as HoffM by (apply Z.mul_le_mono_nonneg_r; lia).
  destruct (find_from s 37 off) as [p|] eqn:EF.
  2:{ destruct (off <=? zlen s) eqn:E; b2z; cbn [safe res_ok alloc_of tokens_ok]; split; auto; lia. }
  apply find_from_bounds in EF; [|lia].
  assert (str_at s (p + 1) <> None) as Hat by (apply str_at_ok; lia).
  destruct (str_at s (p + 1)) as [c|] eqn:EA; [|contradiction].
  assert ((off + 1) * M <= (p + 2) * M) as HpM by (apply Z.mul_le_mono_nonneg_r; lia).
  destruct (is_digit c) eqn:ED; cbn [negb].
  - (* a placeholder number *)
    assert (p + 1 < zlen s) as Hlt.
    { unfold str_at in EA. destruct ((0 <=? p + 1) && (p + 1 <? zlen s)) eqn:E1; [b2z; lia|].
      destruct (p + 1 =? zlen s); inversion EA; subst. cbn in ED. discriminate. }
    assert (nth_error s (Z.to_nat (p + 1)) = Some c) as Hn.
    { unfold str_at in EA. destruct ((0 <=? p + 1) && (p + 1 <? zlen s)) eqn:E1; auto. b2z; lia. }
    destruct (skipn_cons_nth _ _ _ Hn) as [r Hr]. rewrite Hr.
    destruct (digits_run (c :: r) 0 0) as [cnt value] eqn:EDR.
    pose proof (digits_run_first _ _ _ _ _ ED EDR) as Hc1.
    pose proof (digits_run_bounds _ _ _ _ _ EDR) as Hc2. rewrite <- Hr in Hc2. rewrite zlen_skipn in Hc2 by lia.
    assert (str_at s (p + 1 + cnt) <> None) as Hat2 by (apply str_at_ok; lia).
    destruct (str_at s (p + 1 + cnt)) as [c2|] eqn:EA2; [|contradiction].
    cbn [df_stoi repaired].
    pose proof (digits_sat_bounds (c :: r) 0 ltac:(unfold INT_MAX; lia)) as Hsat.
    assert ((p + 2) * M <= (p + 1 + cnt) * M) as HeM by (apply Z.mul_le_mono_nonneg_r; lia).
    destruct (zlen plens <=? digits_sat (c :: r) 0) eqn:EN.
    + apply IH; lia.
    + b2z. destruct (nth_error plens (Z.to_nat (digits_sat (c :: r) 0))) as [pl|] eqn:EP;
        [|exfalso; eapply (nth_error_zlen plens); eauto; lia].
      pose proof (HM pl (nth_error_In _ _ EP)) as Hpl.
      apply IH; lia.
  - (* not a digit: invalid placeholder *)
    apply IH; lia.
Qed.

Lemma format_safe args plens M : 0 <= M -> (forall x, In x plens -> 0 <= x <= M) ->
  safe (format_model repaired args plens) /\
  (forall s r, args = VStr s :: r -> alloc_of (format_model repaired args plens) <= (zlen s + 1) + (zlen s + 1) * M) /\
  ((forall s r, args <> VStr s :: r) -> alloc_of (format_model repaired args plens) <= 0).
Proof.
  intros HM0 HM. unfold format_model.
  destruct args as [|[| s | | |] r]; cbn [safe res_ok alloc_of tokens_ok]; split_all; auto; try (intros; lia); try (intros s0 r0 H; discriminate).
  - apply (fmt_loop_safe plens M HM0 HM s); try lia; pose proof (zlen_nonneg s); unfold zlen in *; lia.
  - intros s0 r0 H. inversion H; subst. apply (fmt_loop_safe plens M HM0 HM s0); try lia; pose proof (zlen_nonneg s0); unfold zlen in *; lia.
  - intros H. exfalso. eapply H. reflexivity.
Qed.

(* as is: format ["%99999999999"] *)
Lemma format_refuted :
  format_model as_is [VStr [37;57;57;57;57;57;57;57;57;57;57;57]] [14] = Throw "std::out_of_range (stoi)".
Proof. vm_compute. reflexivity. Qed.

(* ---------------------------------------------------------------------------------------------------------------- *)
Lemma to_string_loop_safe : forall l ds al, 0 <= al ->
  safe (to_string_loop repaired l ds al) /\ alloc_of (to_string_loop repaired l ds al) <= al + zlen l.
Proof.
  induction l as [|v l IH]; intros ds al Hal; cbn [to_string_loop].
  - cbn [safe res_ok alloc_of tokens_ok]. rewrite zlen_nil. split; auto; lia.
  - rewrite zlen_cons. pose proof (zlen_nonneg l). destruct v as [f| | | |];
      try (destruct (IH (ds ++ [ExpectedArrayTypeMissmatch]) al Hal) as [I1 I2]; split; auto; lia).
    use_cast (ip_trunc f). destruct (IH ds (al + 1) ltac:(lia)) as [I1 I2]. split; auto; lia.
Qed.
Lemma to_string_safe l : safe (to_string repaired l) /\ alloc_of (to_string repaired l) <= zlen l.
Proof. unfold to_string. destruct (to_string_loop_safe l [] 0 ltac:(lia)). split; auto; lia. Qed.
Lemma to_string_refuted : to_string as_is [VNum (FFin (10000000000 * SCALE))] = UB_CAST.
Proof. vm_compute. reflexivity. Qed.

Lemma to_array_safe len : safe (to_array len) /\ alloc_of (to_array len) <= len.
Proof. cbn [safe res_ok alloc_of tokens_ok]. unfold to_array. cbn [safe res_ok alloc_of tokens_ok]. split; auto; lia. Qed.


Lemma split_loop_safe delims : forall l i ml toks n,
  0 <= ml <= i -> n = i + zlen l ->
  (forall s c, In (s, c) toks -> 0 <= s /\ 0 < c /\ s + c <= n) ->
  tokens_ok n (split_loop l delims i ml toks) /\ alloc_of (split_loop l delims i ml toks) <= n + 2 * (zlen toks + zlen l + 1).
Proof.
  induction l as [|c l IH]; intros i ml toks n Hml Hn Ht; cbn [split_loop].
  - change (zlen (@nil Z)) with 0 in *. pose proof (zlen_nonneg toks).
    destruct (ml =? 0) eqn:E0; b2z.
    + cbn [safe res_ok alloc_of tokens_ok]. split; [|lia]. intros s c Hin. apply in_rev in Hin. auto.
    + assert ((0 <=? i - ml) && (i - ml <=? i) = true) as E1 by (apply andb_true_iff; split; [apply Z.leb_le | apply Z.leb_le]; lia).
      rewrite E1. cbn [safe res_ok alloc_of tokens_ok]. split; [|lia]. intros s c Hin. apply in_rev in Hin. destruct Hin as [Hin | Hin]; [inversion Hin; subst; lia | auto].
  - rewrite zlen_cons in *. pose proof (zlen_nonneg l). pose proof (zlen_nonneg toks).
    destruct (existsb (Z.eqb c) delims).
    + destruct (0 <? ml) eqn:E0; b2z.
      * assert ((0 <=? i - ml) && (i - ml <=? i + 1 + zlen l) = true) as E1 by (apply andb_true_iff; split; apply Z.leb_le; lia).
        rewrite E1. destruct (IH (i + 1) 0 ((i - ml, ml) :: toks) n ltac:(lia) ltac:(lia)) as [I1 I2].
        { intros s c0 [Hin | Hin]; [inversion Hin; subst; lia | auto]. }
        split; auto. rewrite zlen_cons in I2. lia.
      * destruct (IH (i + 1) 0 toks n ltac:(lia) ltac:(lia) Ht) as [I1 I2]. split; auto. lia.
    + destruct (IH (i + 1) (ml + 1) toks n ltac:(lia) ltac:(lia) Ht) as [I1 I2]. split; auto. lia.
Qed.

Lemma split_string_safe l delims :
  tokens_ok (zlen l) (split_string l delims) /\ alloc_of (split_string l delims) <= 3 * zlen l + 2.
Proof.
  pose proof (zlen_nonneg l) as Hl. unfold split_string. destruct delims as [|d ds].
  - cbn [safe res_ok alloc_of tokens_ok]. split; [|lia]. intros s c Hin. apply in_map_iff in Hin. destruct Hin as [k [Hk Hin]]. inversion Hk; subst.
    apply in_seq in Hin. unfold zlen. lia.
  - destruct (split_loop_safe (d :: ds) l 0 0 [] (zlen l) ltac:(lia) ltac:(lia)) as [I1 I2].
    { intros s c []. }
    split; auto. change (zlen (@nil (Z * Z))) with 0 in I2. lia.
Qed.

(* selectMax / selectMin: the down-counting size_t loop stays inside the array and ends *)
Lemma minmax_loop_safe elems : zlen elems < SIZE_MOD -> forall fuel i ds,
  (i = SIZE_MOD - 1 /\ 1 <= Z.of_nat fuel) \/ (0 <= i < zlen elems /\ i + 2 <= Z.of_nat fuel) ->
  safe (minmax_loop fuel elems i ds) /\ alloc_of (minmax_loop fuel elems i ds) <= 0.
Proof.
  intros Hsz. induction fuel as [|fuel IH]; intros i ds Hi; [lia|].
  cbn [minmax_loop]. destruct (i =? SIZE_MOD - 1) eqn:E; [cbn [safe res_ok alloc_of tokens_ok]; split; auto; lia|]. b2z.
  destruct Hi as [[Hi _] | [Hi Hf]]; [contradiction|].
  assert (vec_ok (zlen elems) i = true) as Hv by (unfold vec_ok; apply andb_true_iff; split; [apply Z.leb_le | apply Z.ltb_lt]; lia).
  rewrite Hv. destruct (nth_error elems (Z.to_nat i)) as [v|] eqn:EN; [|exfalso; eapply (nth_error_zlen elems); eauto].
  apply IH. destruct (Z.eq_dec i 0) as [-> | Hnz].
  - left. split; [reflexivity | lia].
  - right. rewrite Z.mod_small by (unfold SIZE_MOD in *; lia). lia.
Qed.

Lemma select_minmax_safe elems : zlen elems <= INT_MAX ->
  safe (select_minmax elems) /\ alloc_of (select_minmax elems) <= 0.
Proof.
  intro H. unfold INT_MAX in H. pose proof (zlen_nonneg elems) as H0. unfold select_minmax.
  apply minmax_loop_safe; [unfold SIZE_MOD; lia|].
  destruct (Z.eq_dec (zlen elems) 0) as [E | E].
  - left. rewrite E. split; [reflexivity | lia].
  - right. rewrite Z.mod_small by (unfold SIZE_MOD; lia). unfold zlen in *. lia.
Qed.

Lemma select_random_safe n r : 0 <= n -> 0 <= r ->
  safe (select_random repaired n r) /\ res_ok n (select_random repaired n r) /\ alloc_of (select_random repaired n r) <= 0.
Proof.
  intros Hn Hr. unfold select_random. cbn [df_rand0 repaired]. destruct (n =? 0) eqn:E; [cbn [safe res_ok alloc_of tokens_ok]; split_all; auto; lia|]. b2z.
  pose proof (Z.mod_pos_bound r n ltac:(lia)) as Hm.
  assert (vec_ok n (r mod n) = true) as Hv by (unfold vec_ok; apply andb_true_iff; split; [apply Z.leb_le | apply Z.ltb_lt]; lia).
  rewrite Hv. cbn [safe res_ok alloc_of tokens_ok]. split_all; auto; lia.
Qed.
Lemma select_random_refuted : forall r, select_random as_is 0 r = UB "integer division by zero: rand() % size()".
Proof. reflexivity. Qed.

Lemma to_fixed_safe f :
  (exists d, to_fixed_unary repaired f = Ret [] (RNum d) 0 /\ -1 <= d <= 20) /\
  (exists d, to_fixed_binary repaired f = Ret [] (RNum d) (64 + d) /\ 0 <= d <= 20).
Proof.
  unfold to_fixed_unary, to_fixed_binary. use_cast (ip_trunc f). split; eexists; split; try reflexivity.
  - destruct (20 <? z) eqn:E1; [lia|]. destruct (z <? 0) eqn:E2; b2z; lia.
  - destruct (20 <? z) eqn:E1; [lia|]. destruct (z <=? 0) eqn:E2; b2z; lia.
Qed.
Lemma to_fixed_refuted : to_fixed_unary as_is FPInf = UB_CAST /\ to_fixed_binary as_is FNan = UB_CAST.
Proof. split; reflexivity. Qed.

(* ---------------------------------------------------------------------------------------------------------------- *)
(* config iterator *)
Definition cfg_valid (id : Z) : bool := negb (id =? INVALID).

Lemma cfg_walk_settle ncont : forall l pre acc fuel,
  (forall id, In id (pre ++ l) -> id = INVALID \/ 0 <= id < ncont) ->
  (List.length l < fuel)%nat ->
  cfg_walk fuel repaired (pre ++ l) ncont (cfg_settle l (zlen pre)) acc
    = Ret [] (RWalk (rev acc ++ filter cfg_valid l)) (zlen acc + zlen (filter cfg_valid l)).
Proof.
  induction l as [|id l IH]; intros pre acc fuel Hwf Hfuel.
  - destruct fuel; [cbn in Hfuel; lia|]. cbn [cfg_walk cfg_settle filter]. rewrite app_nil_r.
    change (zlen (@nil Z)) with 0. f_equal. lia.
  - cbn [cfg_settle filter]. destruct (id =? INVALID) eqn:EI;
      (assert (cfg_valid id = negb (id =? INVALID)) as CV by reflexivity); rewrite EI in CV; cbn [negb] in CV; rewrite CV.
    + replace (pre ++ id :: l) with ((pre ++ [id]) ++ l) by (rewrite <- app_assoc; reflexivity).
      replace (zlen pre + 1) with (zlen (pre ++ [id])) by (rewrite zlen_app; reflexivity).
      apply IH; [rewrite <- app_assoc; exact Hwf | cbn in Hfuel; lia].
    + destruct fuel; [cbn in Hfuel; lia|]. cbn [cfg_walk].
      b2z. assert (0 <= id < ncont) as Hid.
      { destruct (Hwf id) as [H | H]; [apply in_or_app; right; left; reflexivity | contradiction | exact H]. }
      assert (cfg_deref (pre ++ id :: l) ncont (zlen pre) = Some id) as HD.
      { unfold cfg_deref. pose proof (zlen_nonneg pre). pose proof (zlen_nonneg l).
        assert (vec_ok (zlen (pre ++ id :: l)) (zlen pre) = true) as Hv.
        { unfold vec_ok. rewrite zlen_app, zlen_cons. apply andb_true_iff; split; [apply Z.leb_le | apply Z.ltb_lt]; lia. }
        rewrite Hv. unfold zlen at 1. rewrite Nat2Z.id. rewrite nth_error_app2 by lia. rewrite Nat.sub_diag. cbn.
        unfold vec_ok. replace ((0 <=? id) && (id <? ncont)) with true; auto.
        symmetry. apply andb_true_iff; split; [apply Z.leb_le | apply Z.ltb_lt]; lia. }
      rewrite HD. cbn [df_cfg_iter repaired].
      assert (cfg_settle_at (pre ++ id :: l) (zlen pre + 1) = cfg_settle l (zlen (pre ++ [id]))) as HS.
      { unfold cfg_settle_at. rewrite zlen_app. change (zlen [id]) with 1. f_equal.
        unfold zlen. replace (Z.to_nat (Z.of_nat (List.length pre) + 1)) with (List.length pre + 1)%nat by lia.
        replace (pre ++ id :: l) with ((pre ++ [id]) ++ l) by (rewrite <- app_assoc; reflexivity).
        replace (List.length pre + 1)%nat with (List.length (pre ++ [id])) by (rewrite app_length; reflexivity).
        rewrite skipn_app, skipn_all, Nat.sub_diag. reflexivity. }
      rewrite HS. replace (pre ++ id :: l) with ((pre ++ [id]) ++ l) by (rewrite <- app_assoc; reflexivity).
      rewrite IH; [|rewrite <- app_assoc; exact Hwf | cbn in Hfuel; lia].
      cbn [rev]. rewrite <- app_assoc. cbn [app]. f_equal. rewrite !zlen_cons. lia.
Qed.

(* repaired: the walk visits exactly the entries that still exist, in declaration order, whatever was deleted *)
Lemma cfg_iterate_safe children ncont :
  (forall id, In id children -> id = INVALID \/ 0 <= id < ncont) ->
  cfg_iterate repaired children ncont
    = Ret [] (RWalk (filter cfg_valid children)) (zlen (filter cfg_valid children)).
Proof.
  intro Hwf. unfold cfg_iterate. cbn [df_cfg_iter repaired]. unfold cfg_settle_at. cbn [Z.to_nat skipn].
  pose proof (cfg_walk_settle ncont children [] [] (S (List.length children))) as H.
  cbn [app zlen List.length Z.of_nat rev] in H. rewrite H; auto.
Qed.

Lemma cfg_iterate_refuted :
  cfg_iterate as_is [INVALID; 5] 10 = UB "m_containers[id] / container[m_index]: index out of range" /\
  cfg_next_asis [] 0 = Some 1.
Proof. split; vm_compute; reflexivity. Qed.

(* ---------------------------------------------------------------------------------------------------------------- *)
(* fromAssembly__ *)
Lemma from_sqf_loop_safe v start : forall fuel i out,
  1 <= i <= zlen v -> Z.of_nat fuel + i >= zlen v + 1 -> 0 <= out <= i - 1 ->
  safe (from_sqf_loop fuel v start i out) /\ alloc_of (from_sqf_loop fuel v start i out) <= 2 * zlen v.
Proof.
  induction fuel as [|fuel IH]; intros i out Hi Hf Ho; [lia|].
  cbn [from_sqf_loop]. destruct (i <? zlen v - 1) eqn:E; b2z; [|cbn [safe res_ok alloc_of tokens_ok]; split; auto; lia].
  assert (forall j, 0 <= j < zlen v -> sv_at v j <> None) as Hsv.
  { intros j Hj. unfold sv_at, vec_ok. replace ((0 <=? j) && (j <? zlen v)) with true
      by (symmetry; apply andb_true_iff; split; [apply Z.leb_le | apply Z.ltb_lt]; lia). apply nth_error_zlen. lia. }
  destruct (sv_at v i) as [c|] eqn:E1; [|exfalso; eapply Hsv; eauto; lia].
  destruct (c =? start).
  - destruct (sv_at v (i + 1)) as [c2|] eqn:E2; [|exfalso; eapply (Hsv (i + 1)); eauto; lia].
    destruct (c2 =? start); apply IH; lia.
  - apply IH; lia.
Qed.

Lemma from_sqf_safe v : safe (from_sqf repaired v) /\ alloc_of (from_sqf repaired v) <= 2 * zlen v.
Proof.
  pose proof (zlen_nonneg v) as H0. unfold from_sqf. cbn [df_asm repaired].
  destruct (zlen v =? 0) eqn:E0; [cbn [safe res_ok alloc_of tokens_ok]; split; auto; lia|]. b2z.
  assert (sv_at v 0 <> None) as Hsv.
  { unfold sv_at, vec_ok. replace ((0 <=? 0) && (0 <? zlen v)) with true
      by (symmetry; apply andb_true_iff; split; [apply Z.leb_le | apply Z.ltb_lt]; lia). apply (nth_error_zlen v 0). lia. }
  destruct (sv_at v 0) as [st|]; [|contradiction].
  destruct (negb (st =? 34) && negb (st =? 39)); [cbn [safe res_ok alloc_of tokens_ok]; split; auto; lia|].
  destruct (zlen v =? 2); [cbn [safe res_ok alloc_of tokens_ok]; split; auto; lia|].
  apply from_sqf_loop_safe; unfold zlen in *; lia.
Qed.
Lemma from_sqf_refuted : from_sqf as_is [] = UB "string_view::operator[]: position out of range".
Proof. reflexivity. Qed.

Lemma digits_only_nonneg : forall l acc bound n, 0 <= acc -> digits_only l acc bound = Some n -> 0 <= n.
Proof.
  induction l as [|c l IH]; cbn; intros acc bound n Ha H; [inversion H; lia|].
  destruct (negb (is_digit c) || (bound <? acc)) eqn:E; [discriminate|]. b2z.
  unfold is_digit in *. b2z. eapply IH; [|eauto]. lia.
Qed.

(* repaired: never throws, and an accepted count is at most the number of instructions decoded so far *)
Lemma asm_make_array_safe arg sf codesize :
  safe (asm_make_array repaired arg sf codesize) /\
  (forall n ds al, asm_make_array repaired arg sf codesize = Ret ds (RNum n) al -> 0 <= n <= codesize).
Proof.
  unfold asm_make_array. cbn [df_asm repaired]. destruct arg as [|c r]; [cbn [safe res_ok alloc_of tokens_ok]; split; auto; intros; discriminate|].
  destruct (digits_only (c :: r) 0 codesize) as [n|] eqn:E; [|cbn [safe res_ok alloc_of tokens_ok]; split; auto; intros; discriminate].
  destruct (codesize <? n) eqn:E2; cbn [safe res_ok alloc_of tokens_ok]; split; auto; intros n0 ds al H; inversion H; subst.
  b2z. split; [eapply digits_only_nonneg; eauto; lia | lia].
Qed.
Lemma asm_make_array_refuted :
  asm_make_array as_is [120] SInvalid 0 = Throw "std::invalid_argument (stof)" /\
  asm_make_array as_is [45;49] (SVal (FFin (- SCALE))) 0 = UB "float-cast-overflow: the value is not representable in size_t".
Proof. split; vm_compute; reflexivity. Qed.

Lemma asm_call_binary_safe registered lower name :
  (forall x, lower (lower x) = lower x) -> safe (asm_call_binary repaired registered lower name).
Proof.
  intro Hidem. unfold asm_call_binary. cbn [df_asm repaired]. rewrite Hidem.
  destruct (registered (lower name)); cbn; auto.
Qed.
(* as is: the name is registered in lower case only ("select"), the instruction spells it "SELECT" *)
Lemma asm_call_binary_refuted :
  asm_call_binary as_is (fun n => match n with [115] => true | _ => false end) (fun n => [115]) [83]
    = Throw "std::out_of_range (unordered_map::at)".
Proof. reflexivity. Qed.

Lemma asm_split_safe full a b : asm_split full = Some (a, b) -> zlen a + zlen b <= zlen full.
Proof.
  unfold asm_split. destruct (find_from full 32 0) as [p|] eqn:E.
  - apply find_from_bounds in E; [|lia]. destruct (zlen full <? p + 1); [discriminate|].
    intro H; inversion H; subst. unfold zlen in *. rewrite firstn_length, skipn_length. lia.
  - intro H; inversion H; subst. rewrite zlen_nil. lia.
Qed.

Lemma asm_instr_safe registered lower full sf codesize :
  (forall x, lower (lower x) = lower x) -> safe (asm_instr repaired registered lower full sf codesize).
Proof.
  intro Hid. unfold asm_instr. destruct (asm_split full) as [[name arg]|]; [|cbn; auto].
  repeat match goal with |- context [if ?c then _ else _] => destruct c end;
    try apply from_sqf_safe; try apply asm_make_array_safe; try (apply asm_call_binary_safe; auto); cbn; auto.
Qed.

Lemma from_assembly_safe registered lower l sf :
  (forall x, lower (lower x) = lower x) -> safe (from_assembly repaired registered lower l sf).
Proof.
  intro Hid. unfold from_assembly. generalize 0 as cs.
  induction l as [|v l IH]; intro cs; cbn [asm_loop]; [cbn; auto|].
  destruct v; try (cbn; auto; fail).
  pose proof (asm_instr_safe registered lower s sf cs Hid) as Hs.
  destruct (asm_instr repaired registered lower s sf cs) as [ds r al| | |]; cbn in Hs; try contradiction.
  destruct ds; [apply IH | cbn; auto].
Qed.

Lemma from_assembly_refuted :
  from_assembly as_is (fun n => match n with [115] => true | _ => false end) (fun n => n)
                [VStr [109;97;107;101;97;114;114;97;121;32;120]] SInvalid
    = Throw "std::invalid_argument (stof)" /\
  from_assembly as_is (fun _ => false) (fun n => n) [VStr [97;115;115;105;103;110;116;111]] SInvalid
    = UB "string_view::operator[]: position out of range".
Proof. split; vm_compute; reflexivity. Qed.

(* ---------------------------------------------------------------------------------------------------------------- *)
(* BOM sniff *)
Lemma bom_conj_true b : forall tests, bom_conj repaired b tests = Some true -> forall i a, In (i, a) tests -> 0 <= i < zlen b.
Proof.
  induction tests as [|[i0 a0] rest IH]; cbn [bom_conj]; intros H i a Hin; [contradiction|].
  destruct (vec_ok (zlen b) i0) eqn:Ev.
  - destruct (nth_error b (Z.to_nat i0)); [|discriminate]. destruct (existsb (Z.eqb z) a0); [|discriminate].
    destruct Hin as [Hin | Hin]; [inversion Hin; subst; unfold vec_ok in Ev; b2z; lia | eapply IH; eauto].
  - cbn in H. discriminate.
Qed.
Lemma bom_conj_def b : forall tests, bom_conj repaired b tests <> None.
Proof.
  induction tests as [|[i0 a0] rest IH]; cbn [bom_conj]; [discriminate|].
  destruct (vec_ok (zlen b) i0) eqn:Ev; [|cbn; discriminate].
  destruct (nth_error b (Z.to_nat i0)) eqn:En.
  - destruct (existsb (Z.eqb z) a0); [auto | discriminate].
  - exfalso. unfold vec_ok in Ev. b2z. eapply (nth_error_zlen b i0); eauto.
Qed.

(* every branch of the chain looks at the last byte it promises to skip *)
Definition bom_entry_ok (e : list (Z * list Z) * Z * option (Z * list Z)) : bool :=
  let '(tests, k, extra) := e in
  (0 <=? k) && existsb (fun t => k <=? fst t + 1) tests &&
  match extra with None => true | Some t => k + 1 <=? fst t + 1 end.
Lemma bom_table_ok : forallb bom_entry_ok bom_table = true.
Proof. vm_compute. reflexivity. Qed.

Lemma bom_chain_safe b : forall cs, forallb bom_entry_ok cs = true ->
  exists k, bom_chain repaired b cs = BSkip k /\ 0 <= k <= zlen b.
Proof.
  pose proof (zlen_nonneg b) as Hb.
  induction cs as [|[[tests k] extra] rest IH]; cbn [bom_chain forallb]; intro H.
  - exists 0. split; auto; lia.
  - apply andb_true_iff in H. destruct H as [He Hr]. unfold bom_entry_ok in He. b2z.
    pose proof (bom_conj_def b tests) as Hd.
    destruct (bom_conj repaired b tests) as [[|]|] eqn:EC; [|apply IH; auto | contradiction].
    match goal with H : existsb _ tests = true |- _ => apply existsb_exists in H; destruct H as [[i a] [Hin Hk]] end.
    cbn [fst] in Hk. apply Z.leb_le in Hk.
    pose proof (bom_conj_true b tests EC i a Hin) as Hi.
    destruct extra as [[i3 a3]|].
    + pose proof (bom_conj_def b [(i3, a3)]) as Hd2.
      destruct (bom_conj repaired b [(i3, a3)]) as [[|]|] eqn:EC2; [| |contradiction].
      * pose proof (bom_conj_true b _ EC2 i3 a3 (or_introl eq_refl)) as Hi3. cbn [fst] in *. exists (k + 1). split; auto. lia.
      * exists k. split; auto. lia.
    + exists k. split; auto. lia.
Qed.

(* repaired: no read behind the buffer, and never more bytes skipped than the file has *)
Lemma bom_safe b : exists k, bom_model repaired b = BSkip k /\ 0 <= k <= zlen b.
Proof.
  unfold bom_model. destruct (zlen b =? 0) eqn:E; [exists 0; split; auto; b2z; lia|].
  apply bom_chain_safe. apply bom_table_ok.
Qed.
Lemma bom_refuted : bom_model as_is [239] = BUB /\ bom_model as_is [0; 0] = BUB /\ bom_model as_is [251; 238; 40] = BUB.
Proof. repeat split; vm_compute; reflexivity. Qed.
