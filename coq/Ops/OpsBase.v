(* C09 (b) - common vocabulary of the operator guard models: machine integers, the abstract float domain, SQF values as
   far as argument validation looks at them, diagnostics, outcomes, defect switches.  Definitions only.

   Floats.  A finite binary32 value is an integer multiple of 2^-149 (the smallest subnormal), so a finite scalar is
   modelled by that integer: FFin k stands for k * 2^-149.  Every finite float has exactly one k; the theorems
   quantify over all k (a superset).  Comparisons are integer comparisons, std::round / truncation are integer
   divisions.  +inf, -inf and NaN are separate constructors.

   Integers.  int is Z with explicit range tests: a conversion or an addition whose mathematical result is outside
   [INT_MIN, INT_MAX] is undefined behaviour in C++ and is an explicit UB outcome here, never a wrapped or defaulted
   number.  size_t arithmetic wraps modulo 2^64 (defined behaviour) and is written with explicit "mod".
   Sizes of vectors and strings are Z.of_nat (length _); static_cast<int>(size) is taken to be the size itself, which
   holds below 2^31 elements (a vector of 2^31 values needs 32 GB) - the theorems carry that as a hypothesis where the
   code narrows a size. *)
From Coq Require Import ZArith List String Bool Lia.
From SqfVerif Require Import Gen.DiagCodes.
Import ListNotations.
Local Open Scope Z_scope.

Definition INT_MIN : Z := -2147483648.
Definition INT_MAX : Z := 2147483647.
Definition SIZE_MOD : Z := 18446744073709551616.          (* 2^64 *)
Definition VEC_MAX : Z := 576460752303423487.             (* std::vector<value>::max_size(): PTRDIFF_MAX / 16 *)
Definition ARR_MAX : Z := 9999999.                        (* d_array::max_size() of the repaired code *)
Definition SCALE : Z := 713623846352979940529142984724747568191373312.   (* 2^149 *)

Definition in_int (z : Z) : bool := (INT_MIN <=? z) && (z <=? INT_MAX).
Definition clamp_int (z : Z) : Z := if z <? INT_MIN then INT_MIN else if INT_MAX <? z then INT_MAX else z.

(* ---------------------------------------------------------------------------------------------------------------- *)
(* defect switches: as_is mirrors the code before the proposed repairs (proposed_fixes/C09-NN-*.diff), repaired the
   code with all of them applied; the correspondence runs against the setting that matches the tree under test *)
Record defects := {
  df_cast : bool;        (* 01 float -> int conversions are plain casts (undefined outside the range of int, for NaN) *)
  df_range_add : bool;   (* 02 select [start, length]: start + length is computed in int *)
  df_sort_cmp : bool;    (* 03 sort: sub-array comparator tests the row instead of its elements and answers !flag for
                               equal rows; scalars are compared with < and > only (NaN) *)
  df_stoi : bool;        (* 04 format: std::stoi on the digits behind % *)
  df_rand0 : bool;       (* 05 selectRandom: rand() % size() with size() = 0 *)
  df_param_cast : bool;  (* 06 param: the loop over the expected-size array runs when the 4th descriptor is a scalar *)
  df_bom : bool;         (* 07 get_bom_skip reads ubuff[1..3] without looking at the size *)
  df_nolimit : bool;     (* 08 resize / set: no upper bound on the requested size *)
  df_asm : bool;         (* 09 fromAssembly__: unordered_map::at with the unfolded name, std::stof, (size_t)len, sview[0] *)
  df_cfg_iter : bool     (* 10 config iterator: size() - 1 on an empty class, deleted entries dereferenced *)
}.
Definition as_is : defects := Build_defects true true true true true true true true true true.
Definition repaired : defects := Build_defects false false false false false false false false false false.

(* ---------------------------------------------------------------------------------------------------------------- *)
Inductive fl := FNan | FPInf | FNInf | FFin (k : Z).

(* integer part of a float, before the conversion to int *)
Inductive ipart := IP (z : Z) | IPNan | IPPInf | IPNInf.

(* std::round / std::roundf: nearest integer, halfway cases away from zero *)
Definition ip_round (f : fl) : ipart :=
  match f with
  | FFin k => IP (if k <? 0 then - ((2 * (- k) + SCALE) / (2 * SCALE)) else (2 * k + SCALE) / (2 * SCALE))
  | FNan => IPNan | FPInf => IPPInf | FNInf => IPNInf
  end.
(* (int)f, (size_t)f: truncation towards zero *)
Definition ip_trunc (f : fl) : ipart :=
  match f with FFin k => IP (Z.quot k SCALE) | FNan => IPNan | FPInf => IPPInf | FNInf => IPNInf end.

Inductive cres := CI (z : Z) | CUB.
(* as is: static_cast<int>(x) - [conv.fpint]: undefined unless the truncated value is representable.
   repaired: d_scalar::to_int - NaN and everything below the range INT_MIN, everything above INT_MAX *)
Definition cast_int (df : defects) (p : ipart) : cres :=
  if df_cast df then
    match p with IP z => if in_int z then CI z else CUB | _ => CUB end
  else
    match p with IP z => CI (clamp_int z) | IPNan => CI INT_MIN | IPNInf => CI INT_MIN | IPPInf => CI INT_MAX end.

Definition fl_ge0 (f : fl) : bool := match f with FFin k => 0 <=? k | FPInf => true | _ => false end.   (* f >= 0 *)
(* IEEE a < b *)
Definition fl_lt (a b : fl) : bool :=
  match a, b with
  | FNan, _ | _, FNan => false
  | FNInf, FNInf => false | FNInf, _ => true
  | _, FNInf => false
  | FPInf, _ => false
  | FFin _, FPInf => true
  | FFin x, FFin y => x <? y
  end.
(* less_scalar of the repaired sort: NaN in front of every other number, all NaN equal *)
Definition fl_rank (f : fl) : Z := match f with FNan => 0 | FNInf => 1 | FFin _ => 2 | FPInf => 3 end.
Definition fl_cmp (a b : fl) : comparison :=
  match a, b with
  | FFin x, FFin y => x ?= y
  | _, _ => fl_rank a ?= fl_rank b
  end.
Definition fl_less (a b : fl) : bool := match fl_cmp a b with Lt => true | _ => false end.

(* ---------------------------------------------------------------------------------------------------------------- *)
(* values as argument validation sees them: the dynamic type, numbers, string bytes, element lists *)
Inductive val := VNum (f : fl) | VStr (s : list Z) | VBool (b : bool) | VArr (l : list val) | VOther (t : Z).
Inductive ty := TScalar | TString | TBool | TArray | TOther (t : Z).
Definition ty_of (v : val) : ty :=
  match v with VNum _ => TScalar | VStr _ => TString | VBool _ => TBool | VArr _ => TArray | VOther t => TOther t end.
Definition ty_eqb (a b : ty) : bool :=
  match a, b with
  | TScalar, TScalar | TString, TString | TBool, TBool | TArray, TArray => true
  | TOther x, TOther y => x =? y
  | _, _ => false
  end.

Definition zlen {A} (l : list A) : Z := Z.of_nat (List.length l).
(* vector::operator[] / at, string::operator[] on a container of n elements *)
Definition vec_ok (n i : Z) : bool := (0 <=? i) && (i <? n).
(* begin() + k is a valid iterator of a container of n elements *)
Definition it_ok (n k : Z) : bool := (0 <=? k) && (k <=? n).
Definition iadd (a b : Z) : option Z := if in_int (a + b) then Some (a + b) else None.

(* ---------------------------------------------------------------------------------------------------------------- *)
(* message classes the modelled operators log (runtime/logging.h); (level, code) comes from the generated table *)
Inductive dg :=
| ExpectedArraySizeMissmatch | ExpectedArraySizeMissmatchWeak | ExpectedMinimumArraySizeMissmatch
| ExpectedArrayTypeMissmatch | ExpectedArrayTypeMissmatchWeak | ExpectedSubArrayTypeMissmatch
| IndexOutOfRange | IndexOutOfRangeWeak | IndexEqualsRange | NegativeIndex | NegativeIndexWeak | NegativeSize
| StartIndexExceedsToIndexWeak | ReturningNil | ReturningEmptyArray | ReturningEmptyString
| ExpectedArrayToHaveElements | ExpectedArrayToHaveElementsWeak | FormatInvalidPlaceholder
| InvalidAssemblyInstruction
| MarkerNotExisting | MarkerAlreadyExisting | ExpectedNonNullValue | ExpectedNonNullValueWeak | ReturningConfigNull
| LibraryNameContainsPath | ExtensionRuntimeError | ReturningErrorCode.
Definition dg_code (d : dg) : Z * Z :=
  match d with
  | ExpectedArraySizeMissmatch => d_ExpectedArraySizeMissmatch
  | ExpectedArraySizeMissmatchWeak => d_ExpectedArraySizeMissmatchWeak
  | ExpectedMinimumArraySizeMissmatch => d_ExpectedMinimumArraySizeMissmatch
  | ExpectedArrayTypeMissmatch => d_ExpectedArrayTypeMissmatch
  | ExpectedArrayTypeMissmatchWeak => d_ExpectedArrayTypeMissmatchWeak
  | ExpectedSubArrayTypeMissmatch => d_ExpectedSubArrayTypeMissmatch
  | IndexOutOfRange => d_IndexOutOfRange
  | IndexOutOfRangeWeak => d_IndexOutOfRangeWeak
  | IndexEqualsRange => d_IndexEqualsRange
  | NegativeIndex => d_NegativeIndex
  | NegativeIndexWeak => d_NegativeIndexWeak
  | NegativeSize => d_NegativeSize
  | StartIndexExceedsToIndexWeak => d_StartIndexExceedsToIndexWeak
  | ReturningNil => d_ReturningNil
  | ReturningEmptyArray => d_ReturningEmptyArray
  | ReturningEmptyString => d_ReturningEmptyString
  | ExpectedArrayToHaveElements => d_ExpectedArrayToHaveElements
  | ExpectedArrayToHaveElementsWeak => d_ExpectedArrayToHaveElementsWeak
  | FormatInvalidPlaceholder => d_FormatInvalidPlaceholder
  | InvalidAssemblyInstruction => d_InvalidAssemblyInstruction
  | MarkerNotExisting => d_MarkerNotExisting
  | MarkerAlreadyExisting => d_MarkerAlreadyExisting
  | ExpectedNonNullValue => d_ExpectedNonNullValue
  | ExpectedNonNullValueWeak => d_ExpectedNonNullValueWeak
  | ReturningConfigNull => d_ReturningConfigNull
  | LibraryNameContainsPath => d_LibraryNameContainsPath
  | ExtensionRuntimeError => d_ExtensionRuntimeError
  | ReturningErrorCode => d_ReturningErrorCode
  end.

(* what a call leaves behind, as far as the guard decides it *)
Inductive res :=
| RNil                          (* nil / nothing *)
| RElem (i : Z)                 (* element i of the array operand *)
| RSlice (from n : Z)           (* n elements (characters) of the array (string) operand, starting at from *)
| RNum (z : Z)                  (* the number z *)
| RDefault                      (* param: the default value of the descriptor *)
| RResized (n : Z)              (* the array now has n elements *)
| RErased (from n : Z)          (* n elements starting at from were removed *)
| RStored (i n : Z)             (* element i was written, the array now has n elements *)
| RTokens (l : list (Z * Z))    (* splitString: (start, length) of every token *)
| RWalk (l : list Z)            (* the container ids an iteration visits, in order *)
| RShape (rows cols : Z)        (* a new array of rows arrays of cols numbers each *)
| ROther.                       (* a value the guard model does not describe *)

(* Ret: the call completes with these diagnostics (in order), this result, and at most al element slots / bytes
   allocated;  UB: the C++ abstract machine has no defined behaviour;  Throw: a C++ exception leaves the operator
   (nothing between the operator and the embedder catches it);  OutOfFuel: the fuel of a loop model ran out *)
Inductive outcome := Ret (ds : list dg) (v : res) (al : Z) | UB (why : string) | Throw (why : string) | OutOfFuel.

Definition safe (o : outcome) : Prop := match o with Ret _ _ _ => True | _ => False end.
Definition alloc_of (o : outcome) : Z := match o with Ret _ _ al => al | _ => 0 end.
(* the result refers to existing elements of a container of n elements *)
Definition res_ok (n : Z) (o : outcome) : Prop :=
  match o with
  | Ret _ (RElem i) _ => 0 <= i < n
  | Ret _ (RSlice from c) _ => 0 <= from /\ 0 <= c /\ from + c <= n
  | Ret _ (RErased from c) _ => 0 <= from /\ 0 <= c /\ from + c <= n
  | Ret _ (RStored i m) _ => 0 <= i < m
  | _ => True
  end.
