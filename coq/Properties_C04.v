(* C04 - runtime errors are never silent, never skipped over, never leak into later code.
   Theorems only; proofs live in VM/C04Shape.v and VM/C04Proofs.v.  They speak about the shared
   executable VM model (VM/VmDefs.v, VM/VmExec.v: mirror of runtime.cpp / runtime.h / frame.h /
   ops_generic.cpp / ops_sqfvm.cpp), which checks/C04.py ties to the C++ on every run. *)
From Coq Require Import String Ascii.
From Coq Require Import ZArith List Bool.
Import ListNotations.
From SqfVerif Require Import Gen.DiagCodes VM.VmDefs VM.VmExec VM.C04Defs VM.C04Shape VM.C04Proofs.
Local Open Scope string_scope.
Local Open Scope list_scope.

(* ---- __logmsg: error level or worse raises the flag and records the message; warnings do not *)
Theorem C04_error_raises_flag : forall r d, (fst d <= 1)%Z ->
  r_err (logmsg r d) = true /\ r_msgs (logmsg r d) = r_msgs r ++ [d] /\ r_out (logmsg r d) = ev_of d :: r_out r.
Proof. exact error_raises_flag. Qed.
Print Assumptions C04_error_raises_flag.

Theorem C04_warning_keeps_flag : forall r d, (1 < fst d)%Z ->
  r_err (logmsg r d) = r_err r /\ r_msgs (logmsg r d) = r_msgs r /\ r_out (logmsg r d) = ev_of d :: r_out r.
Proof. exact warning_keeps_flag. Qed.
Print Assumptions C04_warning_keeps_flag.

(* ---- every instruction and every exit behaviour (all modelled operators): the events it logs
   (s, newest first) are appended, and the flag afterwards is up exactly if it was up before or one of
   them is error-level.  Nothing raises the flag silently, nothing lowers it. *)
Theorem C04_instr_flag_iff_error_logged : forall i r c r' c', exec_instr i r c = Ok (r', c') ->
  exists s, r_out r' = s ++ r_out r /\ r_err r' = orb (has_err s) (r_err r).
Proof. exact instr_flag_iff_error_logged. Qed.
Print Assumptions C04_instr_flag_iff_error_logged.

Theorem C04_behaviour_flag_iff_error_logged : forall fuel r c fr r' c', frame_next fuel r c = Ok (fr, r', c') ->
  exists s, r_out r' = s ++ r_out r /\ r_err r' = orb (has_err s) (r_err r).
Proof. exact behaviour_flag_iff_error_logged. Qed.
Print Assumptions C04_behaviour_flag_iff_error_logged.

(* ---- one pass of execute_do's loop is exactly one of the eleven cases of `pass` (C04Defs.v; two of them are the round of a
   restarted scope without instructions: deadline test, nothing executed) *)
Theorem C04_do_iter_iff_pass : forall r it, do_iter r = Ok it <-> pass r it.
Proof. exact do_iter_iff_pass. Qed.
Print Assumptions C04_do_iter_iff_pass.

(* ---- instr_error_stops: the flag was raised in this pass - by the instruction or by the exit
   behaviour inside frame.next() - and no frame of the active context accepts it (no handler, or all
   decline): this very pass returns runtime_error, the fatal stack-trace diagnostic is logged right
   after the error, the flag is consumed, and execute_do returns - no further instruction runs. *)
Theorem C04_instr_error_stops : forall r c rE cE, ready r c -> raised_in_pass r c rE ->
  cur rE = Some cE -> (forall j g, nth_error (c_frames cE) j = Some g -> declines rE g) ->
  exists rF, do_iter r = Ok (Return RRuntimeError rF) /\
    r_err rF = false /\ r_out rF = ev_of d_Stacktrace :: r_out rE /\
    forall fuel ea, execute_do (S fuel) r (S ea) = Ok (RRuntimeError, rF).
Proof. exact instr_error_stops. Qed.
Print Assumptions C04_instr_error_stops.

(* ---- handler_takes_over_once: frame K accepts and everything above it has no handler or declines
   (K is the nearest taker): the pass goes on, nothing is logged, the frames above K are popped, frame K
   runs its handler code from position 0 with _exception bound (to the messages of the failing
   instruction for except__, when the operand stack is well-formed), its error behaviour is uninstalled,
   flag and messages are consumed. *)
Theorem C04_handler_takes_over_once : forall r c rE cE K f, ready r c -> raised_in_pass r c rE ->
  cur rE = Some cE -> nth_error (c_frames cE) K = Some f -> accepts rE f ->
  (forall j g, j < K -> nth_error (c_frames cE) j = Some g -> declines rE g) ->
  exists rF cF exc, (do_iter r = Ok (Continue rF) \/ do_iter r = Ok (Executed rF)) /\
    r_err rF = false /\ r_msgs rF = [] /\ r_out rF = r_out rE /\
    cur rF = Some cF /\
    c_frames cF = handler_frame f exc :: skipn (S K) (c_frames cE) /\
    f_code (handler_frame f exc) = handler_code f /\ f_pos (handler_frame f exc) = 0 /\
    f_vars (handler_frame f exc) = [("_exception", exc)] /\ f_err (handler_frame f exc) = None /\
    (exc = exception_value f (messages_value (r_msgs rE)) \/ exc = VNil) /\
    (f_base f <= length (c_values cE) -> exc = exception_value f (messages_value (r_msgs rE))).
Proof. exact handler_takes_over_once. Qed.
Print Assumptions C04_handler_takes_over_once.

(* ... once: the taker of an error always has an installed behaviour, and after taking over it has
   none - so a second error inside the handler is not delivered to it again *)
Theorem C04_taker_has_behaviour : forall r r', on_error r = Ok (true, r') ->
  exists c K f, cur r = Some c /\ nth_error (c_frames c) K = Some f /\ f_err f <> None /\
    forall c', cur r' = Some c' -> exists g, nth_error (c_frames c') 0 = Some g /\ f_err g = None /\ f_code g = handler_code f.
Proof. exact taker_has_behaviour. Qed.
Print Assumptions C04_taker_has_behaviour.

Theorem C04_handler_not_reentered : forall f exc rest, find_handler (handler_frame f exc :: rest) 0 <> Some 0.
Proof. exact handler_not_reentered. Qed.
Print Assumptions C04_handler_not_reentered.

(* ---- unhandled: exactly the stack trace is logged; handled: nothing is *)
Theorem C04_unhandled_logs_stacktrace : forall r r', on_error r = Ok (false, r') ->
  r_err r' = false /\ r_out r' = ev_of d_Stacktrace :: r_out r /\
  forall c, cur r = Some c -> forall j g, nth_error (c_frames c) j = Some g -> declines r g.
Proof. exact on_error_unhandled. Qed.
Print Assumptions C04_unhandled_logs_stacktrace.

(* ---- try-catch frames decline runtime errors and accept throw *)
Theorem C04_try_catch_declines_runtime_errors : forall r c k f h,
  nth_error (c_frames c) k = Some f -> f_err f = Some (ECatch h) -> r_err r = true ->
  err_enact r c k = Ok (true, r, c).
Proof. exact try_catch_declines_runtime_errors. Qed.
Print Assumptions C04_try_catch_declines_runtime_errors.

Theorem C04_try_catch_only_unhandled : forall r c, cur r = Some c -> r_err r = true ->
  (forall j g, nth_error (c_frames c) j = Some g -> f_err g = None \/ exists h, f_err g = Some (ECatch h)) ->
  exists r', on_error r = Ok (false, r').
Proof. exact try_catch_only_unhandled. Qed.
Print Assumptions C04_try_catch_only_unhandled.

Theorem C04_try_catch_accepts_throw : forall r c v k f h g,
  find_handler (c_frames c) 0 = Some k -> nth_error (c_frames c) k = Some f -> f_err f = Some (ECatch h) ->
  r_err r = false ->
  nth_error (c_frames c) 0 = Some g -> f_base g <= length (c_values c) ->
  exists c', op_throw r c v = Ok (r, c', VNil) /\
    c_frames c' = handler_frame f v :: skipn (S k) (c_frames c) /\
    f_code (handler_frame f v) = h /\ f_vars (handler_frame f v) = [("_exception", v)] /\
    f_err (handler_frame f v) = None.
Proof. exact try_catch_accepts_throw. Qed.
Print Assumptions C04_try_catch_accepts_throw.

(* ---- flag_cleared_after_handling: the flag is down after every pass, hence after every slice *)
Theorem C04_flag_cleared_after_pass : forall r it, r_err r = false -> do_iter r = Ok it -> r_err (rt_of it) = false.
Proof. exact do_iter_clears_flag. Qed.
Print Assumptions C04_flag_cleared_after_pass.

Theorem C04_flag_cleared_after_execute_do : forall fuel r ea x r', r_err r = false ->
  execute_do fuel r ea = Ok (x, r') -> r_err r' = false.
Proof. exact execute_do_clears_flag. Qed.
Print Assumptions C04_flag_cleared_after_execute_do.

(* ---- an error is never silent: a pass that logged an error-level diagnostic returns
   runtime_error or a handler took over; a pass that returns runtime_error logged the time-limit
   diagnostic or the stack trace directly after this pass's error-level diagnostics *)
Theorem C04_error_never_silent : forall r it, r_err r = false -> pass r it ->
  exists s, r_out (rt_of it) = s ++ r_out r /\
    (forall rF, it = Return RRuntimeError rF ->
       exists s', s = ev_of d_MaximumRuntimeReached :: s' \/ (s = ev_of d_Stacktrace :: s' /\ has_err s' = true)) /\
    (has_err s = true ->
       (exists rF, it = Return RRuntimeError rF) \/
       (exists rE, on_error rE = Ok (true, rt_of it) /\ (it = Continue (rt_of it) \/ it = Executed (rt_of it)))).
Proof. exact pass_events. Qed.
Print Assumptions C04_error_never_silent.

(* ---- no_error_no_failure: a call of execute_do that logged no error-level diagnostic does not
   return runtime_error; one that does is explained by its own events *)
Theorem C04_no_error_no_failure : forall fuel r ea x r', r_err r = false -> execute_do fuel r ea = Ok (x, r') ->
  exists s, r_out r' = s ++ r_out r /\ (has_err s = false -> x <> RRuntimeError).
Proof. exact no_error_no_failure. Qed.
Print Assumptions C04_no_error_no_failure.

Theorem C04_failure_has_cause : forall fuel r ea x r', r_err r = false -> execute_do fuel r ea = Ok (x, r') ->
  exists s, r_out r' = s ++ r_out r /\ r_err r' = false /\ (x = RRuntimeError -> failure_explained s).
Proof. exact execute_do_events. Qed.
Print Assumptions C04_failure_has_cause.

(* ---- error_not_carried: every return of execute (start with its scheduler loop, assembly_step,
   stop, abort) has the flag down and blames only its own events; a run that starts on an empty
   runtime is judged on its own even if the flag had been left up *)
Theorem C04_error_not_carried : forall a r x r', r_err r = false -> execute a r = Ok (x, r') ->
  exists s, r_out r' = s ++ r_out r /\ r_err r' = false /\ (x = RRuntimeError -> failure_explained s).
Proof. exact execute_events. Qed.
Print Assumptions C04_error_not_carried.

Theorem C04_begin_run_resets : forall r, r_state r = StEmpty ->
  r_err (begin_run_if_empty r) = false /\ r_msgs (begin_run_if_empty r) = [] /\ r_out (begin_run_if_empty r) = r_out r.
Proof. exact begin_run_resets. Qed.
Print Assumptions C04_begin_run_resets.

Theorem C04_run_on_empty_judged_alone : forall a r x r', r_state r = StEmpty -> r_run r = false -> a = AStart \/ a = AAssemblyStep ->
  execute a r = Ok (x, r') ->
  exists s, r_out r' = s ++ r_out r /\ r_err r' = false /\ (x = RRuntimeError -> failure_explained s).
Proof. exact execute_on_empty_events. Qed.
Print Assumptions C04_run_on_empty_judged_alone.

(* ---- all sequences of runs on one machine (load, start, the embedder's abort or not): every run
   starts and ends with the flag down; a reported failure is explained by that run's events; a run that
   logged no error-level diagnostic is not reported as failed - whatever earlier runs did *)
Theorem C04_history_runs_judged_alone : forall hs r os r', r_err r = false -> hist r hs = Ok (os, r') ->
  Forall run_judged_alone os /\ r_err r' = false.
Proof. exact history_runs_judged_alone. Qed.
Print Assumptions C04_history_runs_judged_alone.

(* ---- sqfvm_call / the CLI after a failed run: the embedder's abort leaves no context behind, so no
   later statement of the failed script can run in a later run, which starts on an empty runtime *)
Theorem C04_failed_run_leaves_no_script : forall r r1 xa r2,
  execute AStart r = Ok (RRuntimeError, r1) -> execute AAbort r1 = Ok (xa, r2) ->
  r_ctxs r2 = [] /\ r_state r2 = StEmpty /\ r_run r2 = false.
Proof. exact failed_run_leaves_no_script. Qed.
Print Assumptions C04_failed_run_leaves_no_script.

(* ================================================================== non-vacuity *)
Definition P (b:list stmt) : code := compile_block b.
Definition fresh : rt := create_rt [] 0 0 10000 150.
Fixpoint steps (n:nat) (r:rt) : rt :=
  match n with O => r | S n' => match execute AAssemblyStep r with Ok (_, r') => steps n' r' | _ => r end end.
Definition ctx_of (r:rt) : context := match cur r with Some c => c | None => new_context 0 false end.

(* evaluate the left-hand side with the VM, then unify the (evar-carrying) right-hand side with the value *)
Ltac vmsolve :=
  match goal with |- ?lhs = _ =>
    let v := eval vm_compute in lhs in transitivity v; [vm_cast_no_check (eq_refl v) | reflexivity] end.

Definition fault : stmt := SExpr (EBinary "select" (EArr [ENum 1; ENum 2]) (ENum 9)).
Definition mk (n:Z) : stmt := SExpr (EUnary "diag_log" (ENum n)).

(* [1,2] select 9; diag_log 1  - the machine just before the select instruction (4 instructions done) *)
Definition ex_r : rt := entry_state (steps 4 (load fresh (P [fault; mk 1]))).
Example ex_instr_error_stops : exists r c rE cE, ready r c /\ raised_in_pass r c rE /\ cur rE = Some cE /\
  (forall j g, nth_error (c_frames cE) j = Some g -> declines rE g).
Proof.
  exists ex_r, (ctx_of ex_r). eexists. eexists. split; [|split; [|split]].
  - vm_compute. repeat split; discriminate.
  - eapply RaisedByInstr; [vmsolve|vmsolve|left; reflexivity|vmsolve|vmsolve|vmsolve|vmsolve].
  - vmsolve.
  - intros j g H. destruct j as [|[|j]]; cbn in H; try discriminate. injection H as <-. exact I.
Qed.
Example ex_instr_error_run : run_final (load fresh (P [fault; mk 1])) = "2:3:1:60009,0:60001,".
Proof. vm_compute. reflexivity. Qed.

(* {5} count [1]  as the LAST statement: the error is raised by the exit behaviour inside frame.next() *)
Definition behaviour_fault : stmt := SExpr (EBinary "count" (ECode [SExpr (ENum 5)]) (EArr [ENum 1])).
Definition ex_rb : rt := entry_state (steps 8 (load fresh (P [mk 1; behaviour_fault]))).
Example ex_behaviour_error_stops : exists r c rE cE, ready r c /\ raised_in_pass r c rE /\ cur rE = Some cE /\
  (forall j g, nth_error (c_frames cE) j = Some g -> declines rE g).
Proof.
  exists ex_rb, (ctx_of ex_rb). eexists. eexists. split; [|split; [|split]].
  - vm_compute. repeat split; discriminate.
  - eapply RaisedByBehaviour; vmsolve.
  - vmsolve.
  - intros j g H. destruct j as [|[|[|j]]]; cbn in H; try discriminate; injection H as <-; exact I.
Qed.
Example ex_behaviour_error_run : run_final (load fresh (P [mk 1; behaviour_fault])) = "2:3:3:60019,M<1>,1:60068,0:60001,".
Proof. vm_compute. reflexivity. Qed.

(* { [1,2] select 9; diag_log 1 } except__ { diag_log 2 }; diag_log 3 *)
Definition guarded : stmt := SExpr (EBinary "except__" (ECode [fault; mk 1]) (ECode [mk 2])).
Definition ex_rh : rt := entry_state (steps 7 (load fresh (P [guarded; mk 3]))).
Example ex_handler_takes_over : exists r c rE cE K f, ready r c /\ raised_in_pass r c rE /\ cur rE = Some cE /\
  nth_error (c_frames cE) K = Some f /\ accepts rE f /\
  (forall j g, j < K -> nth_error (c_frames cE) j = Some g -> declines rE g) /\ f_base f <= length (c_values cE).
Proof.
  exists ex_rh, (ctx_of ex_rh). eexists. eexists. exists 0. eexists. split; [|split; [|split; [|split; [|split; [|split]]]]].
  - vm_compute. repeat split; discriminate.
  - eapply RaisedByInstr; [vmsolve|vmsolve|left; reflexivity|vmsolve|vmsolve|vmsolve|vmsolve].
  - vmsolve.
  - vmsolve.
  - vm_compute. reflexivity.
  - intros j g H. inversion H.
  - vm_compute. repeat constructor.
Qed.
Example ex_handler_run : run_final (load fresh (P [guarded; mk 3])) = "-1:0:1:60009,3:60019,M<2>,3:60019,M<3>,3:60095,M<VALUE nil>,".
Proof. vm_compute. reflexivity. Qed.

(* try { [1,2] select 9; diag_log 1 } catch { diag_log 2 }; diag_log 3 : declined, the run fails *)
Definition tried : stmt := SExpr (EBinary "catch" (EUnary "try" (ECode [fault; mk 1])) (ECode [mk 2])).
Example ex_try_declines_run : run_final (load fresh (P [tried; mk 3])) = "2:3:1:60009,0:60001,".
Proof. vm_compute. reflexivity. Qed.
(* try { throw 7; diag_log 1 } catch { diag_log _exception }; diag_log 3 *)
Definition thrown : stmt :=
  SExpr (EBinary "catch" (EUnary "try" (ECode [SExpr (EUnary "throw" (ENum 7)); mk 1])) (ECode [SExpr (EUnary "diag_log" (EVar "_exception"))])).
Example ex_throw_caught_run : run_final (load fresh (P [thrown; mk 3])) = "-1:0:3:60019,M<7>,3:60019,M<3>,3:60095,M<VALUE nil>,".
Proof. vm_compute. reflexivity. Qed.

(* a history: a run that ends with a behaviour error, then a clean run on the same machine *)
Definition ex_hist : list hrun :=
  [ {| h_code := P [mk 1; behaviour_fault]; h_mode := HAbortOnFailure |};
    {| h_code := P [mk 2]; h_mode := HAbortOnFailure |} ].
Example ex_history : hist_trace fresh ex_hist [] = ["2:3:3:60019,M<1>,1:60068,0:60001,:0:0"; "-1:0:3:60019,M<2>,3:60095,M<VALUE nil>,"].
Proof. vm_compute. reflexivity. Qed.
Example ex_history_ok : exists os r', hist fresh ex_hist = Ok (os, r') /\ length os = 2.
Proof. eexists. eexists. split; [vm_compute; reflexivity|reflexivity]. Qed.

(* {} forEach [1,2,3] : the exit behaviour restarts a scope that has no instructions - frame.next() reports
   `restarted`, the pass executes nothing (cases PRestarted / PRestartExpired of `pass`) *)
Definition spin : stmt := SExpr (EBinary "foreach" (ECode []) (EArr [ENum 1; ENum 2; ENum 3])).
Definition ex_rr : rt := entry_state (steps 6 (load fresh (P [spin]))).
Example ex_restarted_round : exists r1 c1 r2, pass ex_rr (Executed (upd_cur r2 c1)) /\
  frame_next frame_fuel ex_rr (ctx_of ex_rr) = Ok (FRestarted, r1, c1) /\ deadline_test r1 = (false, r2).
Proof.
  eexists. eexists. eexists. split; [|split].
  - eapply (PRestarted ex_rr (ctx_of ex_rr)); [vm_compute; repeat split; discriminate|vmsolve|vmsolve|vmsolve].
  - vmsolve.
  - vmsolve.
Qed.
Example ex_restarted_run : run_final (load fresh (P [spin])) = "-1:0:3:60095,M<VALUE nil>,".
Proof. vm_compute. reflexivity. Qed.
(* the same with a time limit of 6 ticks: the limit is reached in the restarted round, the run fails with
   the time-limit diagnostic *)
Definition limited : rt := create_rt [] 6 1 10000 150.
Definition ex_rx : rt := entry_state (steps 6 (load limited (P [spin]))).
Example ex_restarted_round_expired : exists r1 c1 r2, pass ex_rx (Return RRuntimeError (expired_machine r2 c1)) /\
  frame_next frame_fuel ex_rx (ctx_of ex_rx) = Ok (FRestarted, r1, c1) /\ deadline_test r1 = (true, r2).
Proof.
  eexists. eexists. eexists. split; [|split].
  - eapply (PRestartExpired ex_rx (ctx_of ex_rx)); [vm_compute; repeat split; discriminate|vmsolve|vmsolve|vmsolve].
  - vmsolve.
  - vmsolve.
Qed.
Example ex_restarted_expired_run : run_final (load limited (P [spin])) = "2:0:0:60002,".
Proof. vm_compute. reflexivity. Qed.
