(* C10 - totality of the preprocessor's character reader (repaired setting): next(), move_back(),
   get_word(), get_line(true) end within a number of steps linear in the bytes left, stay inside
   the content and make progress; the recursion of the code as it stands is unbounded. *)
From Coq Require Import ZArith NArith List Bool Lia.
Import ListNotations.
From SqfVerif Require Import Front.Machine Front.Tok Front.Reader.
Local Open Scope N_scope.

Section Proofs.
Variable budget : N.
Variable get : N -> option byte.
Variable len : N.
Hypothesis ok : buf_ok get len.

Lemma peek_in : forall o k c, (peek get o k =? c)%Z = true -> c <> 0%Z -> o + k < len.
Proof.
  intros o k c H Hc. unfold peek in H. destruct (get (o + k)) eqn:G.
  - eapply get_inside; eauto.
  - apply Z.eqb_eq in H. congruence.
Qed.

Lemma get_none_ge : forall i, get i = None -> len <= i.
Proof. intros i G. destruct (N.lt_ge_cases i len) as [H|H]; [|exact H]. apply ok in H. congruence. Qed.

Definition nmu (s:nst) : nat := (2 * N.to_nat (len - r_off (n_st s)) + match n_ph s with P0 => 1 | _ => 0 end)%nat.

(* what a finished call of next() guarantees, relative to the offset off0 it was started at: it stays inside
   the content, consumes at least one byte unless none is left, never returns a carriage return, and a
   character other than NUL is the last byte it consumed *)
Definition next_post (off0:N) (r:byte * rst) : Prop :=
  off0 <= r_off (snd r) /\ r_off (snd r) <= len /\ (off0 < len -> off0 < r_off (snd r)) /\ fst r <> CR /\
  (fst r <> 0%Z -> 1 <= r_off (snd r) /\ get (r_off (snd r) - 1) = Some (fst r)).

Ltac peeks :=
  repeat match goal with
  | H : (_ && _) = true |- _ => apply andb_prop in H; destruct H
  | H : (_ || false) = true |- _ => rewrite orb_false_r in H
  | H : (_ || true) = true |- _ => clear H
  | H : (_ || _) = true |- _ => apply orb_prop in H; destruct H
  | H : (peek get ?o ?k =? SLASH)%Z = true |- _ => apply peek_in in H; [|discriminate]
  | H : (peek get ?o ?k =? STAR)%Z = true |- _ => apply peek_in in H; [|discriminate]
  | H : (peek get ?o ?k =? NL)%Z = true |- _ => apply peek_in in H; [|discriminate]
  | H : (peek get ?o ?k =? CR)%Z = true |- _ => apply peek_in in H; [|discriminate]
  end.

Ltac fin_goal G :=
  match goal with
  | |- _ /\ _ /\ _ /\ _ /\ _ =>
    split; [lia|]; split; [lia|]; split; [lia|]; split;
    [ first [ discriminate | match goal with H : (?c =? CR)%Z = false |- ?c <> CR => apply Z.eqb_neq; exact H end ]
    | first [ intros HH; exfalso; apply HH; reflexivity
            | intros _; split; [lia|]; match goal with |- get (N.succ ?o - 1) = _ => replace (N.succ o - 1) with o by lia; exact G end ] ]
  | |- (_ /\ _) /\ _ => split; [split|]; lia
  end.

Lemma next_step_ok : forall off0 s, off0 <= r_off (n_st s) /\ r_off (n_st s) <= len ->
  match next_step rrepaired budget get s with
  | Run s' => (off0 <= r_off (n_st s') /\ r_off (n_st s') <= len) /\ (nmu s' < nmu s)%nat
  | Fin r => next_post off0 r
  | Bad _ => False
  end.
Proof.
  intros off0 [ph [off str blk] dp cr] (Hlo & Hhi). cbn [n_st r_off] in Hlo, Hhi.
  unfold next_step, tail, deeper, next_post, nmu. cbn [n_st n_ph r_off r_str r_blk n_depth n_cr d_reader_recursion rrepaired andb].
  destruct (get off) as [c|] eqn:G.
  - pose proof (get_inside get len ok _ _ G) as Hin.
    destruct ph;
    repeat match goal with
    | |- context [if ?c then _ else _] => let E := fresh "E" in destruct c eqn:E
    end; cbn [n_st n_ph r_off snd fst]; peeks; fin_goal G.
  - pose proof (get_none_ge _ G) as Hge.
    destruct ph;
    repeat match goal with
    | |- context [if ?c then _ else _] => let E := fresh "E" in destruct c eqn:E
    end; cbn [n_st n_ph r_off snd fst]; peeks; fin_goal G.
Qed.

Theorem next_total : forall st, r_off st <= len ->
  exists n r, (n <= 2 * N.to_nat (len - r_off st) + 2)%nat /\
              iter (next_step rrepaired budget get) n (mkn P0 st 0 0) = Fin r /\ next_post (r_off st) r.
Proof.
  intros st Hst.
  destruct (measure_total nst (byte * rst) (next_step rrepaired budget get)
              (fun s => r_off st <= r_off (n_st s) /\ r_off (n_st s) <= len) nmu (next_post (r_off st)))
    with (s := mkn P0 st 0 0) as (n & r & Hn & Hit & Hp).
  - intros s Hs. apply next_step_ok. exact Hs.
  - cbn. lia.
  - exists n, r. split; [|auto]. unfold nmu in Hn. cbn in Hn. lia.
Qed.

(* move_back *)
Theorem move_back_total : forall off, off <= len ->
  exists n r, (n <= N.to_nat off + 1)%nat /\ iter (mb_step rrepaired budget get) n (off, 0) = Fin r /\ r <= off.
Proof.
  intros off0 H0.
  destruct (measure_total (N * N) N (mb_step rrepaired budget get) (fun s => fst s <= off0) (fun s => N.to_nat (fst s))
             (fun r => r <= off0)) with (s := (off0, 0)) as (n & r & Hn & Hit & Hp).
  - intros [off dp] Hs. cbn [fst] in Hs. unfold mb_step. cbn [d_reader_recursion rrepaired andb].
    destruct (off =? 0) eqn:E; [apply N.eqb_eq in E; cbn; lia|]. apply N.eqb_neq in E.
    destruct (get_some get len ok (off - 1)) as (c & G); [lia|]. rewrite G.
    destruct (c =? CR)%Z; cbn [fst]; lia.
  - cbn. lia.
  - exists n, r. cbn in Hn. auto.
Qed.

(* ---- functions on the fuel supply ---- *)
Variable fl : nat.
Hypothesis Hfl : (2 * N.to_nat len + 4 <= fl)%nat.

Lemma next_char_ok : forall st, r_off st <= len ->
  exists r, next_char rrepaired budget get fl st = Done r /\ next_post (r_off st) r.
Proof.
  intros st Hst. destruct (next_total st Hst) as (n & r & Hn & Hit & Hp). exists r. split; [|exact Hp].
  unfold next_char. eapply run_of_iter; eauto. lia.
Qed.

Lemma move_back_ok : forall off, off <= len -> exists r, move_back rrepaired budget get fl off = Done r /\ r <= off.
Proof.
  intros off H. destruct (move_back_total off H) as (n & r & Hn & Hit & Hp). exists r. split; [|exact Hp].
  unfold move_back. eapply run_of_iter; eauto. lia.
Qed.

(* at the end of the content next() returns NUL *)
Lemma next_at_end : forall st c st', len <= r_off st -> next_char rrepaired budget get fl st = Done (c, st') -> c = 0%Z.
Proof.
  intros st c st' H E.
  unfold next_char in E. destruct fl as [|f]; [lia|]. unfold run in E. cbn [iter] in E.
  unfold next_step at 1 in E. cbn [n_st n_ph r_off r_str r_blk n_depth n_cr] in E.
  rewrite (get_beyond get len ok (r_off st)) in E by lia.
  destruct (negb (r_str st) && r_blk st) eqn:Q.
  - destruct f as [|f]; [lia|]. cbn [iter] in E.
    unfold next_step at 1 in E. cbn [n_st n_ph r_off r_str r_blk n_depth n_cr] in E.
    rewrite (get_beyond get len ok (r_off st)) in E by lia.
    unfold tail in E. cbn in E. injection E as <- _. reflexivity.
  - unfold tail in E. cbn in E. injection E as <- _. reflexivity.
Qed.

(* the stream of characters ends after at most (bytes left) + 1 calls *)
Theorem stream_total : forall n st, r_off st <= len -> (N.to_nat (len - r_off st) + 1 <= n)%nat ->
  exists l e, stream rrepaired budget get fl n st = Done (l, e) /\ (length l <= N.to_nat (len - r_off st))%nat /\ r_off e <= len.
Proof.
  induction n as [|n IH]; intros st Hst Hn; [lia|]. cbn [stream].
  destruct (next_char_ok st Hst) as ([c st'] & E & (A & B & C & NC & LB)). rewrite E. cbn [rbind]. cbn [snd fst] in A, B, C, NC, LB.
  destruct (c =? 0)%Z eqn:Z.
  - exists [], st'. repeat split; auto. simpl. lia.
  - destruct (N.lt_ge_cases (r_off st) len) as [Hlt|Hge].
    + specialize (C Hlt). destruct (IH st') as (l & e & El & Ll & Le); [exact B|lia|].
      rewrite El. cbn [rbind]. exists (c :: l), e. repeat split; auto. simpl. lia.
    + exfalso. rewrite (next_at_end _ _ _ Hge E) in Z. discriminate.
Qed.

Theorem gw_loop_total : forall n st oe, r_off st <= len -> (N.to_nat (len - r_off st) + 2 <= n)%nat ->
  exists st' oe', gw_loop rrepaired budget get fl n st oe = Done (st', oe') /\ r_off st <= r_off st' /\ r_off st' <= len /\
                  (oe' = oe \/ (r_off st < oe' /\ oe' <= len)).
Proof.
  induction n as [|n IH]; intros st oe Hst Hn; [lia|]. cbn [gw_loop].
  destruct (next_char_ok st Hst) as ([c st'] & E & (A & B & C & NC & LB)). rewrite E. cbn [rbind]. cbn [snd fst] in A, B, C, NC, LB.
  destruct (negb (c =? 0)%Z && is_wordc c) eqn:W.
  - assert (Hlt : r_off st < len).
    { destruct (N.lt_ge_cases (r_off st) len) as [H|H]; [exact H|]. exfalso.
      apply andb_prop in W. destruct W as (W & _). rewrite (next_at_end _ _ _ H E) in W. discriminate. }
    specialize (C Hlt). destruct (IH st' (r_off st')) as (s2 & o2 & E2 & A2 & B2 & C2); [exact B|lia|].
    exists s2, o2. split; [exact E2|]. repeat split; try lia.
  - exists st', oe. split; [reflexivity|]. repeat split; try lia.
Qed.

Theorem get_word_total : forall st, r_off st <= len ->
  exists w st', get_word rrepaired budget get len fl st = Done (w, st') /\ r_off st' <= len.
Proof.
  intros st Hst. unfold get_word.
  destruct (gw_loop_total fl st (r_off st) Hst) as (s2 & o2 & E & A & B & C); [lia|]. rewrite E. cbn [rbind].
  destruct (move_back_ok (r_off s2) B) as (o & Em & Lo). rewrite Em. cbn [rbind].
  destruct (len <? r_off st) eqn:L; [apply N.ltb_lt in L; lia|].
  eexists. eexists. split; [reflexivity|]. cbn [r_off]. lia.
Qed.

Theorem gl_loop_total : forall n st esc acc, r_off st <= len -> (N.to_nat (len - r_off st) + 1 <= n)%nat ->
  exists l st', gl_loop rrepaired budget get fl n st esc acc = Done (l, st') /\ r_off st <= r_off st' /\ r_off st' <= len.
Proof.
  induction n as [|n IH]; intros st esc acc Hst Hn; [lia|]. cbn [gl_loop].
  destruct (next_char_ok st Hst) as ([c st'] & E & (A & B & C & NC & LB)). rewrite E. cbn [rbind]. cbn [snd fst] in A, B, C, NC, LB.
  destruct (c =? 0)%Z eqn:Z; [eexists; eexists; split; [reflexivity|lia]|].
  assert (Hlt : r_off st < len).
  { destruct (N.lt_ge_cases (r_off st) len) as [H|H]; [exact H|]. rewrite (next_at_end _ _ _ H E) in Z. discriminate. }
  specialize (C Hlt).
  destruct (c =? BSL)%Z.
  { destruct (IH st' true (if esc then BSL :: acc else acc)) as (l & s2 & E2 & A2 & B2); [exact B|lia|].
    exists l, s2. split; [exact E2|lia]. }
  destruct (c =? NL)%Z.
  { destruct esc.
    - destruct (IH st' false acc) as (l & s2 & E2 & A2 & B2); [exact B|lia|]. exists l, s2. split; [exact E2|lia].
    - eexists; eexists; split; [reflexivity|lia]. }
  destruct (IH st' false (c :: (if esc then BSL :: acc else acc))) as (l & s2 & E2 & A2 & B2); [exact B|lia|].
  exists l, s2. split; [exact E2|lia].
Qed.

Theorem get_line_total : forall st, r_off st <= len ->
  exists l st', get_line rrepaired budget get fl st = Done (l, st') /\ r_off st' <= len.
Proof.
  intros st Hst. unfold get_line. destruct (gl_loop_total fl st false [] Hst) as (l & s2 & E & A & B); [lia|].
  exists l, s2. split; [exact E|exact B].
Qed.

End Proofs.
