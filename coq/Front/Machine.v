(* C10 - loop-level transition systems.

   Every scanning loop of the front ends is written as a step function on a small state whose
   cursor is a NUMBER (an index into the input, not a list suffix).  A step either goes on
   ([Run s']), ends the loop ([Fin r]) or leaves defined behaviour ([Bad b]):
     BUb     the C++ reads a byte at an index >= |input| without a bounds test, or moves an
             iterator beyond one-past-the-end
     BThrow  a C++ exception leaves the front end (std::stoul / std::stod on a malformed text)
     BStack  the recursion depth of the C++ exceeds the stack budget given to the model
   [iter n] runs at most n steps; [Run _] after n steps means "not finished yet".  A total-
   correctness statement has the shape
        exists n r, n <= measure + c /\ iter n s = Fin r /\ post r
   which is at the same time the termination claim, the linear step bound (the measure is the
   number of bytes left) and, because Bad is a different constructor, the no-UB claim.
   [run] is [iter] for callers: OutOfFuel is a distinct outcome, excluded by the proved bounds. *)
From Coq Require Import ZArith List Bool Lia Arith.
Import ListNotations.

Notation byte := Z (only parsing).

Inductive bad := BUb | BThrow | BStack.
Inductive res (A:Type) := Done (a:A) | Failed (b:bad) | OutOfFuel.
Arguments Done {A} a. Arguments Failed {A} b. Arguments OutOfFuel {A}.

Definition rbind {A B} (x:res A) (f:A -> res B) : res B :=
  match x with Done a => f a | Failed b => Failed b | OutOfFuel => OutOfFuel end.

Section Machine.
Variables (S R : Type).
Inductive out := Run (s:S) | Fin (r:R) | Bad (b:bad).
Variable step : S -> out.

Fixpoint iter (n:nat) (s:S) : out :=
  match n with
  | O => Run s
  | Datatypes.S n' => match step s with Run s' => iter n' s' | o => o end
  end.

Definition run (fuel:nat) (s:S) : res R :=
  match iter fuel s with Run _ => OutOfFuel | Fin r => Done r | Bad b => Failed b end.

Lemma iter_fin_mono : forall n s r, iter n s = Fin r -> forall k, iter (n + k) s = Fin r.
Proof.
  induction n as [|n IH]; intros s r H k; simpl in *; [discriminate|].
  destruct (step s) eqn:E; auto.
Qed.

Lemma iter_fin_le : forall n m s r, iter n s = Fin r -> (n <= m)%nat -> iter m s = Fin r.
Proof. intros n m s r H L. replace m with (n + (m - n))%nat by lia. now apply iter_fin_mono. Qed.

Lemma run_of_iter : forall n m s r, iter n s = Fin r -> (n <= m)%nat -> run m s = Done r.
Proof. intros n m s r H L. unfold run. now rewrite (iter_fin_le n m s r H L). Qed.

(* The measure argument.  [I] is the loop invariant, [mu] the variant, [P] what holds of the result.
   One step from an invariant state never is Bad, keeps the invariant and lowers the variant. *)
Variables (I : S -> Prop) (mu : S -> nat) (P : R -> Prop).
Hypothesis step_ok : forall s, I s ->
  match step s with
  | Run s' => I s' /\ (mu s' < mu s)%nat
  | Fin r => P r
  | Bad _ => False
  end.

Theorem measure_total : forall s, I s -> exists n r, (n <= mu s + 1)%nat /\ iter n s = Fin r /\ P r.
Proof.
  intros s. remember (mu s) as m eqn:Em. revert s Em.
  induction m as [m IH] using lt_wf_ind. intros s Em Hs.
  pose proof (step_ok s Hs) as H. destruct (step s) eqn:E.
  - destruct H as [Hi Hl]. destruct (IH (mu s0)) with (s := s0) as (n & r & Hn & Hit & Hp); [lia|reflexivity|exact Hi|].
    exists (Datatypes.S n), r. split; [lia|]. split; [simpl; now rewrite E|exact Hp].
  - exists 1%nat, r. split; [lia|]. split; [simpl; now rewrite E|exact H].
  - contradiction.
Qed.

Corollary run_total : forall s fuel, I s -> (mu s + 1 <= fuel)%nat -> exists r, run fuel s = Done r /\ P r.
Proof.
  intros s fuel Hs Hf. destruct (measure_total s Hs) as (n & r & Hn & Hit & Hp).
  exists r. split; [eapply run_of_iter; eauto; lia|exact Hp].
Qed.
End Machine.

Arguments Run {S R} s. Arguments Fin {S R} r. Arguments Bad {S R} b.
Arguments iter {S R} step n s. Arguments run {S R} step fuel s.

(* ---------------------------------------------------------------------------------------------- *)
(* The input buffer: a length and a read function on indices.  The models are parametric in them  *)
(* (the extracted code is handed an O(1) accessor of the very byte string the implementation gets, *)
(* the theorems instantiate them with an arbitrary list of bytes: [lget]).  [buf_ok] is all that    *)
(* is known about a buffer: an index holds a byte exactly when it is below the length.             *)
(* The only ways a model obtains a byte:                                                            *)
(*   [get i]  an unguarded read ( *it, content[i] ): None is the out-of-bounds read, callers turn   *)
(*            it into Bad BUb                                                                        *)
(*   [isat]   is_match<...>(iterator) of both tokenizers (tokenizer.hpp:79-80): the test            *)
(*            value < m_end comes first, nothing is read at or behind the end                       *)
Definition buf_ok (get:N -> option byte) (len:N) : Prop := forall i, (i < len)%N <-> get i <> None.

Definition lget (inp:list byte) (i:N) : option byte := nth_error inp (N.to_nat i).
Definition llen (inp:list byte) : N := N.of_nat (length inp).
Lemma list_buf_ok : forall inp, buf_ok (lget inp) (llen inp).
Proof.
  intros inp i. unfold lget, llen. rewrite nth_error_Some. lia.
Qed.

Section Buf.
Variable get : N -> option byte.
Variable len : N.
Hypothesis ok : buf_ok get len.

Definition isat (p:byte -> bool) (i:N) : bool := match get i with Some b => p b | None => false end.

(* reads_inside_buffer: a byte only ever comes from an index below the length *)
Lemma get_inside : forall i b, get i = Some b -> (i < len)%N.
Proof. intros i b H. apply ok. congruence. Qed.
Lemma get_beyond : forall i, (len <= i)%N -> get i = None.
Proof. intros i H. destruct (get i) eqn:E; auto. assert (i < len)%N by (apply ok; congruence). lia. Qed.
Lemma get_some : forall i, (i < len)%N -> exists b, get i = Some b.
Proof. intros i H. apply ok in H. destruct (get i); [eauto|congruence]. Qed.
Lemma isat_inside : forall p i, isat p i = true -> (i < len)%N.
Proof. intros p i H. unfold isat in H. destruct (get i) eqn:E; [|discriminate]. eapply get_inside; eauto. Qed.
Lemma isat_beyond : forall p i, (len <= i)%N -> isat p i = false.
Proof. intros p i H. unfold isat. now rewrite get_beyond. Qed.

(* The span loop:  while (it < m_end && p(it[0])) ++it;   (len_match<...>, tokenizer.hpp:89-95, the   *)
(* whitespace loop :214-227, the digit / blank / to-end-of-line loops of the #line handling,       *)
(* the carriage-return loop of the preprocessor reader)                                            *)
Variable p : byte -> bool.
Definition span_step (i:N) : out N N := if isat p i then Run (N.succ i) else Fin i.

Definition span_post (i0 r:N) : Prop :=
  (i0 <= r)%N /\ (r <= N.max i0 len)%N /\ isat p r = false /\ (forall j, (i0 <= j < r)%N -> isat p j = true).

Theorem span_total : forall i, exists n r, (n <= N.to_nat (len - i) + 1)%nat /\ iter span_step n i = Fin r /\ span_post i r.
Proof.
  intros i0.
  pose (Inv := fun i : N => (i0 <= i)%N /\ (i <= N.max i0 len)%N /\ forall j, (i0 <= j < i)%N -> isat p j = true).
  destruct (measure_total N N span_step Inv (fun i => N.to_nat (len - i)) (span_post i0)) with (s := i0) as (n & r & Hn & Hit & Hp).
  - intros i (Hlo & Hhi & Hall). unfold span_step. destruct (isat p i) eqn:E.
    + pose proof (isat_inside _ _ E). split; [|lia]. repeat split; try lia.
      intros j Hj. destruct (N.eq_dec j i); [subst; exact E|apply Hall; lia].
    + repeat split; auto.
  - unfold Inv. repeat split; try lia.
  - exists n, r. split; [exact Hn|]. split; [exact Hit|]. exact Hp.
Qed.

(* the same loop as a function for the straight-line code around it; [fl] is the fuel supply *)
Definition span (fl:nat) (i:N) : res N := run span_step fl i.

Lemma span_done : forall fl i, (N.to_nat len + 1 <= fl)%nat -> exists r, span fl i = Done r /\ span_post i r.
Proof.
  intros fl i Hf. destruct (span_total i) as (n & r & Hn & Hit & Hp). exists r. split; [|exact Hp].
  unfold span. eapply run_of_iter; eauto. lia.
Qed.
End Buf.
