(* C10 - totality of the two tokenizers (repaired setting) for every buffer and every position:
   every scanner loop ends within (bytes left) + c steps without leaving defined behaviour, every
   token lies inside the buffer, the token loop ends after at most (bytes left) + 1 tokens which tile
   the input from the start position on. *)
From Coq Require Import ZArith NArith List Bool Lia.
Import ListNotations.
From SqfVerif Require Import Front.Machine Front.Tok.
Local Open Scope N_scope.

Section Proofs.
Variable get : N -> option byte.
Variable len : N.
Hypothesis ok : buf_ok get len.

Notation at_ := (isat get).

(* ---- scanner loops ---- *)

Theorem lc_total : forall i0, i0 < len ->
  exists n r, (n <= N.to_nat (len - i0) + 1)%nat /\ iter (lc_step repaired get len) n i0 = Fin r /\ i0 < r /\ r <= len.
Proof.
  intros i0 H0.
  destruct (measure_total N N (lc_step repaired get len) (fun i => i0 <= i /\ i < len) (fun i => N.to_nat (len - i))
             (fun r => i0 < r /\ r <= len)) with (s := i0) as (n & r & Hn & Hit & Hp).
  - intros i (Hlo & Hhi). unfold lc_step. cbn [d_comment_past_end repaired].
    destruct ((N.succ i <? len) && negb (at_ (eqb NL) (N.succ i))) eqn:E.
    + apply andb_prop in E. destruct E as (E & _). apply N.ltb_lt in E. split; [lia|lia].
    + lia.
  - lia.
  - exists n, r. auto.
Qed.

Theorem bc_total : forall i0, i0 <= len ->
  exists n r, (n <= N.to_nat (len - i0) + 1)%nat /\ iter (bc_step repaired get len) n i0 = Fin r /\ i0 <= r /\ r <= len.
Proof.
  intros i0 H0.
  destruct (measure_total N N (bc_step repaired get len) (fun i => i0 <= i /\ i <= len) (fun i => N.to_nat (len - i))
             (fun r => i0 <= r /\ r <= len)) with (s := i0) as (n & r & Hn & Hit & Hp).
  - intros i (Hlo & Hhi). unfold bc_step. cbn [d_comment_past_end repaired].
    destruct ((i <? len) && negb (bc_at_close get i)) eqn:E.
    + apply andb_prop in E. destruct E as (E & _). apply N.ltb_lt in E. split; lia.
    + lia.
  - lia.
  - exists n, r. auto.
Qed.

Lemma bc_close_le : forall d r, r <= len -> r <= bc_close d get r /\ bc_close d get r <= len.
Proof.
  intros d r Hr. unfold bc_close, bc_at_close.
  destruct (d_block_close_left d).
  - destruct (at_ (eqb SLASH) r && at_ (eqb SLASH) (N.succ r)) eqn:E; [|lia].
    apply andb_prop in E. destruct E as (_ & E). apply (isat_inside get len ok) in E. lia.
  - destruct (at_ (eqb STAR) r && at_ (eqb SLASH) (N.succ r)) eqn:E; [|lia].
    apply andb_prop in E. destruct E as (_ & E). apply (isat_inside get len ok) in E. lia.
Qed.

Theorem str_total : forall q i0, i0 <= len ->
  exists n r, (n <= N.to_nat (len - i0) + 1)%nat /\ iter (str_step get len q true) n i0 = Fin r /\ i0 <= r /\ r <= len.
Proof.
  intros q i0 H0.
  destruct (measure_total N N (str_step get len q true) (fun i => i0 <= i /\ i <= len) (fun i => N.to_nat (len - i))
             (fun r => i0 <= r /\ r <= len)) with (s := i0) as (n & r & Hn & Hit & Hp).
  - intros i (Hlo & Hhi). unfold str_step, str_tail.
    destruct (at_ (eqb q) i && at_ (eqb q) (N.succ i)) eqn:E.
    + apply andb_prop in E. destruct E as (_ & E). apply (isat_inside get len ok) in E.
      destruct (N.succ i =? len) eqn:E2; [apply N.eqb_eq in E2; lia|]. split; lia.
    + destruct (at_ (eqb q) i) eqn:E1.
      * apply (isat_inside get len ok) in E1. lia.
      * destruct (i =? len) eqn:E2; [apply N.eqb_eq in E2; lia|]. apply N.eqb_neq in E2. split; lia.
  - lia.
  - exists n, r. auto.
Qed.

(* ---- the functions built on the loops, with a fuel supply of |input| + 2 ---- *)
Variable fl : nat.
Hypothesis Hfl : (N.to_nat len + 2 <= fl)%nat.

Lemma spanf_ok : forall p i, exists r, span get p fl i = Done r /\ span_post get len p i r.
Proof. intros p i. apply (span_done get len ok p fl i). lia. Qed.

Lemma spanf_le : forall p i, i <= len -> exists r, span get p fl i = Done r /\ i <= r /\ r <= len.
Proof.
  intros p i Hi. destruct (spanf_ok p i) as (r & E & (A & B & _)). exists r. split; [exact E|]. lia.
Qed.

Lemma lc_run : forall i, i < len -> exists r, run (lc_step repaired get len) fl i = Done r /\ i < r /\ r <= len.
Proof.
  intros i Hi. destruct (lc_total i Hi) as (n & r & Hn & Hit & Hp). exists r. split; [|exact Hp].
  eapply run_of_iter; eauto. lia.
Qed.
Lemma bc_run : forall i, i <= len -> exists r, run (bc_step repaired get len) fl i = Done r /\ i <= r /\ r <= len.
Proof.
  intros i Hi. destruct (bc_total i Hi) as (n & r & Hn & Hit & Hp). exists r. split; [|exact Hp].
  eapply run_of_iter; eauto. lia.
Qed.
Lemma str_run : forall q i, i <= len -> exists r, run (str_step get len q true) fl i = Done r /\ i <= r /\ r <= len.
Proof.
  intros q i Hi. destruct (str_total q i Hi) as (n & r & Hn & Hit & Hp). exists r. split; [|exact Hp].
  eapply run_of_iter; eauto. lia.
Qed.

(* keyword comparison stays inside the buffer, for every defect setting *)
Lemma kw_go_le : forall kw i j c, i <= len -> kw_go get kw i = Some (j, c) -> i <= j /\ j <= len /\ (c = true -> j = i + N.of_nat (length kw)).
Proof.
  induction kw as [|k kw IH]; intros i j c Hi H; simpl in H.
  - injection H as <- <-. simpl. lia.
  - destruct (get i) eqn:G.
    + destruct (Z.eqb (lowc z) k); [|discriminate].
      pose proof (get_inside get len ok _ _ G).
      apply IH in H; [|lia]. destruct H as (A & B & C). repeat split; try lia.
      intros Hc. rewrite (C Hc). simpl length. lia.
    + injection H as <- <-. repeat split; try lia.
Qed.

Lemma lim_le : forall d l kw i, i <= len -> i + len_ident_match d get l kw i <= len.
Proof.
  intros d l kw i Hi. unfold len_ident_match.
  destruct (kw_go get kw i) as [[j c]|] eqn:E; [|lia].
  apply kw_go_le in E; [|exact Hi]. destruct E as (A & B & _).
  destruct (negb c && negb match l with LSqf => false | LCfg => d_cfg_kw_prefix d end); [lia|].
  destruct (at_ (ident_follow l) j); lia.
Qed.

(* repaired: a non-zero keyword match is a complete one *)
Lemma lim_complete : forall l kw i, i <= len -> len_ident_match repaired get l kw i <> 0 ->
  len_ident_match repaired get l kw i = N.of_nat (length kw) /\ i + N.of_nat (length kw) <= len.
Proof.
  intros l kw i Hi. unfold len_ident_match.
  destruct (kw_go get kw i) as [[j c]|] eqn:E; [|congruence].
  apply kw_go_le in E; [|exact Hi]. destruct E as (A & B & C).
  destruct c.
  - simpl. specialize (C eq_refl). destruct (at_ (ident_follow l) j); [congruence|]. intros _. split; lia.
  - simpl. destruct l; simpl; congruence.
Qed.

Lemma addsub_le : forall i c, i <= len -> c <= len -> i + (c - i) <= len.
Proof. intros. lia. Qed.

Ltac span_at p i r E A B :=
  let H := fresh "H" in
  destruct (spanf_ok p i) as (r & E & H); destruct H as (A & B & _); rewrite E; cbn [rbind].

Lemma rep2_ok : forall c i, exists b, rep2 get fl c i = Done b /\ (b = true -> i + 2 <= len).
Proof.
  intros c i. unfold rep2. span_at (eqb c) i r E A B.
  eexists. split; [reflexivity|]. intros H. apply N.leb_le in H. lia.
Qed.

Lemma op_len_ok : forall i, i < len -> exists n, op_len get fl i = Done n /\ i + n <= len.
Proof.
  intros i Hi. unfold op_len.
  destruct (rep2_ok 61%Z i) as (b1 & E1 & H1). rewrite E1. cbn [rbind].
  destruct b1; [eexists; split; [reflexivity|auto]|].
  destruct (at_ (eqb 60%Z) i && at_ (eqb 61%Z) (N.succ i)) eqn:A1.
  { apply andb_prop in A1. destruct A1 as (_ & A1). apply (isat_inside get len ok) in A1. eexists; split; [reflexivity|lia]. }
  destruct (at_ (eqb 60%Z) i); [eexists; split; [reflexivity|lia]|].
  destruct (at_ (eqb 62%Z) i && at_ (eqb 61%Z) (N.succ i)) eqn:A2.
  { apply andb_prop in A2. destruct A2 as (_ & A2). apply (isat_inside get len ok) in A2. eexists; split; [reflexivity|lia]. }
  destruct (rep2_ok 62%Z i) as (b2 & E2 & H2). rewrite E2. cbn [rbind].
  destruct b2; [eexists; split; [reflexivity|auto]|].
  destruct (at_ (eqb 62%Z) i); [eexists; split; [reflexivity|lia]|].
  match goal with |- context [at_ ?f i] => destruct (at_ f i) end; [eexists; split; [reflexivity|lia]|].
  destruct (at_ (eqb 33%Z) i && at_ (eqb 61%Z) (N.succ i)) eqn:A3.
  { apply andb_prop in A3. destruct A3 as (_ & A3). apply (isat_inside get len ok) in A3. eexists; split; [reflexivity|lia]. }
  match goal with |- context [at_ ?f i] => destruct (at_ f i) end; [eexists; split; [reflexivity|lia]|].
  destruct (rep2_ok 124%Z i) as (b3 & E3 & H3). rewrite E3. cbn [rbind].
  destruct b3; [eexists; split; [reflexivity|auto]|].
  destruct (rep2_ok 38%Z i) as (b4 & E4 & H4). rewrite E4. cbn [rbind].
  destruct b4; eexists; (split; [reflexivity|]); [auto|lia].
Qed.

Lemma hex_len_ok : forall i, i < len -> exists n, hex_len get fl i = Done n /\ i + n <= len.
Proof.
  intros i Hi. unfold hex_len. destruct (get_some get len ok i Hi) as (b & G). rewrite G.
  destruct (Z.eqb b DOLLAR).
  - destruct (spanf_le is_hexd (N.succ i)) as (r & E & A & B); [lia|]. rewrite E. cbn [rbind].
    eexists. split; [reflexivity|]. destruct (r =? N.succ i); lia.
  - destruct (at_ (eqb 120%Z) (N.succ i)) eqn:X; [|eexists; split; [reflexivity|lia]].
    apply (isat_inside get len ok) in X.
    destruct (spanf_le is_hexd (i + 2)) as (r & E & A & B); [lia|]. rewrite E. cbn [rbind].
    eexists. split; [reflexivity|]. destruct (r =? i + 2); lia.
Qed.

Lemma num_frac_ok : forall a, a <= len -> exists b, num_frac get fl a = Done b /\ a <= b /\ b <= len.
Proof.
  intros a Ha. unfold num_frac. destruct (at_ (eqb DOT) a) eqn:X; [|eexists; split; [reflexivity|lia]].
  apply (isat_inside get len ok) in X.
  destruct (spanf_le is_digit (N.succ a)) as (r & E & A & B); [lia|]. rewrite E. cbn [rbind].
  eexists. split; [reflexivity|]. destruct (r =? N.succ a); lia.
Qed.

Lemma num_exp_ok : forall b, b <= len -> exists c, num_exp get fl b = Done c /\ b <= c /\ c <= len.
Proof.
  intros b Hb. unfold num_exp. destruct (at_ is_e b) eqn:X; [|eexists; split; [reflexivity|lia]].
  apply (isat_inside get len ok) in X.
  destruct (at_ is_sign (N.succ b)) eqn:Y.
  - apply (isat_inside get len ok) in Y.
    destruct (spanf_le is_digit (N.succ (N.succ b))) as (r & E & A & B); [lia|]. rewrite E. cbn [rbind].
    eexists. split; [reflexivity|]. destruct (r =? N.succ (N.succ b)); lia.
  - destruct (spanf_le is_digit (N.succ b)) as (r & E & A & B); [lia|]. rewrite E. cbn [rbind].
    eexists. split; [reflexivity|]. destruct (r =? N.succ b); lia.
Qed.

Lemma num_sqf_ok : forall i, i < len -> exists n, num_len_sqf get fl i = Done n /\ i + n <= len.
Proof.
  intros i Hi. unfold num_len_sqf.
  assert (HA : exists oa, (if at_ (eqb DOT) i then Done (Some i)
                 else rbind (span get is_digit fl i) (fun r => Done (if r =? i then None else Some r))) = Done oa /\
                 match oa with Some a => i <= a /\ a <= len | None => True end).
  { destruct (at_ (eqb DOT) i); [eexists; split; [reflexivity|simpl; lia]|].
    destruct (spanf_le is_digit i) as (r & E & A & B); [lia|]. rewrite E. cbn [rbind].
    eexists. split; [reflexivity|]. destruct (r =? i); [exact I|lia]. }
  destruct HA as (oa & E & P). rewrite E. cbn [rbind].
  destruct oa as [a|]; [|eexists; split; [reflexivity|lia]].
  destruct P as (P1 & P2).
  destruct (num_frac_ok a P2) as (b & Eb & B1 & B2). rewrite Eb. cbn [rbind].
  destruct (num_exp_ok b B2) as (c & Ec & C1 & C2). rewrite Ec. cbn [rbind].
  eexists. split; [reflexivity|]. lia.
Qed.

Lemma num_cfg_ok : forall d i, i < len -> exists n, num_len_cfg d get fl i = Done n /\ i + n <= len.
Proof.
  intros d i Hi. unfold num_len_cfg.
  set (s := if at_ is_sign i then N.succ i else i).
  assert (Hs : i <= s /\ s <= len) by (unfold s; destruct (at_ is_sign i); lia).
  assert (HA : exists oa, (if at_ (eqb DOT) s then Done (Some (s, false))
                 else rbind (span get is_digit fl s) (fun r => Done (if r =? s then None else Some (r, true)))) = Done oa /\
                 match oa with Some (a, _) => i <= a /\ a <= len | None => True end).
  { destruct (at_ (eqb DOT) s); [eexists; split; [reflexivity|simpl; lia]|].
    destruct (spanf_le is_digit s) as (r & E & A & B); [lia|]. rewrite E. cbn [rbind].
    eexists. split; [reflexivity|]. destruct (r =? s); [exact I|lia]. }
  destruct HA as (oa & E & P). rewrite E. cbn [rbind].
  destruct oa as [[a g]|]; [|eexists; split; [reflexivity|lia]].
  destruct P as (P1 & P2).
  destruct (num_frac_ok a P2) as (b & Eb & B1 & B2). rewrite Eb. cbn [rbind].
  destruct (num_exp_ok b B2) as (c & Ec & C1 & C2). rewrite Ec. cbn [rbind].
  eexists. split; [reflexivity|].
  match goal with |- context [if ?x then _ else _] => destruct x end; lia.
Qed.

Lemma line_tail_ok : forall i k, i <= k -> k <= len -> exists n, line_tail get fl i k = Done n /\ i + n <= len.
Proof.
  intros i k Hik Hk. unfold line_tail.
  destruct (spanf_le is_blank k Hk) as (k2 & E2 & A2 & B2). rewrite E2. cbn [rbind].
  destruct (spanf_le not_nl k2 B2) as (k3 & E3 & A3 & B3). rewrite E3. cbn [rbind].
  eexists. split; [reflexivity|]. lia.
Qed.

Lemma mline_ok : forall l i, i < len -> exists n, mline_len repaired get len fl l i = Done n /\ i + n <= len.
Proof.
  intros l i Hi. unfold mline_len.
  destruct (len_ident_match repaired get l kw_line i =? 0) eqn:E0; [eexists; split; [reflexivity|lia]|].
  apply N.eqb_neq in E0. apply lim_complete in E0; [|lia]. destruct E0 as (_ & E0). simpl length in E0.
  cbn [d_line_directive repaired].
  destruct (len <? i + 5) eqn:L; [apply N.ltb_lt in L; lia|].
  set (j' := if i + 5 =? len then i + 5 else N.succ (i + 5)).
  assert (Hj : i <= j' /\ j' <= len).
  { unfold j'. destruct (i + 5 =? len) eqn:Q; [lia|]. apply N.eqb_neq in Q. lia. }
  destruct (spanf_le is_digit j') as (k & E & A & B); [lia|]. rewrite E. cbn [rbind].
  destruct ((k =? j') || at_ not_nl_sp k); [eexists; split; [reflexivity|lia]|].
  apply line_tail_ok; lia.
Qed.

Lemma one_le : forall c i, i + one get c i <= len \/ len < i.
Proof.
  intros c i. unfold one. destruct (at_ (eqb c) i) eqn:E; [apply (isat_inside get len ok) in E|]; lia.
Qed.

Theorem matcher_ok : forall l t i, i < len -> exists n, matcher repaired get len fl l t i = Done n /\ i + n <= len.
Proof.
  intros l t i Hi.
  assert (ONE : forall c, exists n, Done (A:=N) (one get c i) = Done n /\ i + n <= len).
  { intros c. eexists. split; [reflexivity|]. destruct (one_le c i); lia. }
  assert (KW : forall kw, exists n, Done (A:=N) (len_ident_match repaired get l kw i) = Done n /\ i + n <= len).
  { intros kw. eexists. split; [reflexivity|]. apply lim_le. lia. }
  destruct t; cbn [matcher]; try apply ONE; try apply KW; try (eexists; split; [reflexivity|lia]).
  - (* MLine *) apply mline_ok; exact Hi.
  - (* CLine *) destruct (rep2_ok SLASH i) as (b & E & H). rewrite E. cbn [rbind].
    destruct b; [|eexists; split; [reflexivity|lia]].
    destruct (lc_run i Hi) as (r & Er & A & B). rewrite Er. cbn [rbind]. eexists. split; [reflexivity|lia].
  - (* CBlock *) destruct (at_ (eqb SLASH) i && at_ (eqb STAR) (N.succ i)) eqn:E; [|eexists; split; [reflexivity|lia]].
    apply andb_prop in E. destruct E as (_ & E). apply (isat_inside get len ok) in E.
    destruct (bc_run (i + 2)) as (r & Er & A & B); [lia|]. rewrite Er. cbn [rbind].
    destruct (bc_close_le repaired r B). eexists. split; [reflexivity|lia].
  - (* Ws *) destruct (spanf_le is_wsc i) as (r & E & A & B); [lia|]. rewrite E. cbn [rbind]. eexists. split; [reflexivity|lia].
  - (* Op *) apply op_len_ok; exact Hi.
  - (* StrD *) assert (EC : str_endcheck repaired l DQ = true) by (destruct l; reflexivity). rewrite EC.
    destruct (str_run DQ (N.succ i)) as (r & Er & A & B); [lia|]. rewrite Er. cbn [rbind]. eexists. split; [reflexivity|lia].
  - (* StrS *) assert (EC : str_endcheck repaired l SQ = true) by (destruct l; reflexivity). rewrite EC.
    destruct (str_run SQ (N.succ i)) as (r & Er & A & B); [lia|]. rewrite Er. cbn [rbind]. eexists. split; [reflexivity|lia].
  - (* Ident *) destruct (spanf_le is_identc i) as (r & E & A & B); [lia|]. rewrite E. cbn [rbind]. eexists. split; [reflexivity|lia].
  - (* Num *) destruct l; [apply num_sqf_ok|apply num_cfg_ok]; exact Hi.
  - (* Hex *) apply hex_len_ok; exact Hi.
Qed.

Theorem try_match_ok : forall l ts i, i < len ->
  exists t n, try_match repaired get len fl l ts i = Done (t, n) /\ i + n <= len /\ (n = 0 -> t = Invalid) /\ (n <> 0 -> In t ts).
Proof.
  induction ts as [|t ts IH]; intros i Hi; cbn [try_match].
  - exists Invalid, 0. repeat split; [lia|congruence].
  - destruct (matcher_ok l t i Hi) as (n & E & B). rewrite E. cbn [rbind].
    destruct (n =? 0) eqn:Z.
    + destruct (IH i Hi) as (t' & n' & E' & B' & Z' & I'). exists t', n'. repeat split; auto. intros H. right. auto.
    + apply N.eqb_neq in Z. exists t, n. repeat split; auto; [congruence|]. intros _. left. reflexivity.
Qed.

Lemma dispatch_not_final : forall l b t, In t (dispatch l b) -> final_tt t = false.
Proof.
  intros l b t H. destruct l; unfold dispatch, dispatch_sqf, dispatch_cfg in H;
  repeat match type of H with
  | In _ (if ?c then _ else _) => destruct c
  end; simpl in H; intuition (subst; reflexivity).
Qed.

(* tokenizer::next(): inside the buffer, and only the two final kinds have length 0 *)
Theorem next_ok : forall l i, i <= len ->
  exists t n, next repaired get len fl l i = Done (t, n) /\ i + n <= len /\ (n = 0 <-> final_tt t = true).
Proof.
  intros l i Hi. unfold next. destruct (i =? len) eqn:E.
  - exists Eof, 0. apply N.eqb_eq in E. repeat split; auto; lia.
  - apply N.eqb_neq in E. assert (Hlt : i < len) by lia.
    destruct (get_some get len ok i Hlt) as (b & G). rewrite G.
    destruct (try_match_ok l (dispatch l b) i Hlt) as (t & n & Et & B & Z & I).
    exists t, n. repeat split; auto.
    + intros H. rewrite (Z H). reflexivity.
    + intros H. destruct (N.eq_dec n 0) as [|NZ]; [assumption|].
      rewrite (dispatch_not_final l b t (I NZ)) in H. discriminate.
Qed.

(* the token stream tiles the input: every token starts where the previous one ended, has at least
   one byte unless it is the final one, and ends inside the buffer *)
Inductive tiles : N -> list (tt * N * N) -> Prop :=
| tiles_last : forall i t k, final_tt t = true -> k = 0 -> i <= len -> tiles i [(t, i, k)]
| tiles_cons : forall i t k r, final_tt t = false -> 1 <= k -> i + k <= len -> tiles (i + k) r -> tiles i ((t, i, k) :: r).

Theorem tokens_ok : forall l n i, i <= len -> (N.to_nat (len - i) + 1 <= n)%nat ->
  exists ts, tokens repaired get len fl l n i = Done ts /\ tiles i ts /\ (length ts <= N.to_nat (len - i) + 1)%nat.
Proof.
  induction n as [|n IH]; intros i Hi Hn; [lia|]. cbn [tokens].
  destruct (next_ok l i Hi) as (t & k & E & B & Z). rewrite E. cbn [rbind].
  destruct (final_tt t) eqn:F.
  - exists [(t, i, k)]. split; [reflexivity|]. split; [|simpl; lia].
    apply tiles_last; auto. apply Z. reflexivity.
  - assert (K : 1 <= k). { destruct (N.eq_dec k 0) as [K0|]; [|lia]. apply Z in K0. congruence. }
    destruct (IH (i + k)) as (ts & Et & T & L); [lia|lia|]. rewrite Et. cbn [rbind].
    exists ((t, i, k) :: ts). split; [reflexivity|]. split; [apply tiles_cons; auto|]. simpl. lia.
Qed.

Theorem lexer_total : forall l, exists ts, lex repaired get len fl l = Done ts /\ tiles 0 ts /\ (length ts <= N.to_nat len + 1)%nat.
Proof.
  intros l. unfold lex. destruct (tokens_ok l fl 0) as (ts & E & T & L); [lia|lia|].
  exists ts. split; [exact E|]. split; [exact T|]. rewrite N.sub_0_r in L. exact L.
Qed.

End Proofs.
