(* C10 - totality of the index-walking loops of Front/Scan.v (repaired setting), the witnesses that
   refute it for the code as it stood, and the two recursion guards. *)
From Coq Require Import ZArith NArith List Bool Lia.
Import ListNotations.
From SqfVerif Require Import Front.Machine Front.Tok Front.Reader Front.ReaderProofs Front.Scan.
Local Open Scope N_scope.

(* a machine that steps into the state it is in never finishes *)
Lemma iter_stuck : forall (S R:Type) (step:S -> out S R) s, step s = Run s -> forall n, iter step n s = Run s.
Proof. intros S R step s H n. induction n as [|n IH]; simpl; [reflexivity|]. now rewrite H. Qed.

Lemma iter_reach_stuck : forall (S R:Type) (step:S -> out S R) k s0 s, iter step k s0 = Run s -> step s = Run s ->
  forall n r, iter step n s0 <> Fin r.
Proof.
  intros S R step k. induction k as [|k IH]; intros s0 s H Hs n r.
  - simpl in H. injection H as ->. rewrite (iter_stuck _ _ step s Hs). discriminate.
  - simpl in H. destruct n as [|n]; [simpl; discriminate|]. simpl.
    destruct (step s0) eqn:E; try discriminate. eapply IH; eauto.
Qed.

(* ================================================================================================ *)
(* #define parameter list *)
Section Define.
Variable line : list byte.
Hypothesis Hsize : llen line < W64.          (* a std::string is shorter than 2^64 *)

Lemma find_from_spec : forall p l i, find_from p l i = NPOS \/ (i <= find_from p l i /\ find_from p l i < i + N.of_nat (length l)).
Proof.
  intros p l. induction l as [|c t IH]; intros i; simpl; [left; reflexivity|].
  destruct (p c); [right; lia|]. destruct (IH (N.succ i)) as [H|H]; [left; exact H|right; lia].
Qed.

Lemma find_c_spec : forall c start, find_c line c start = NPOS \/ (start <= find_c line c start /\ find_c line c start < LL line).
Proof.
  intros c start. unfold find_c. destruct (LL line <? start) eqn:E; [left; reflexivity|]. apply N.ltb_ge in E.
  destruct (find_from_spec (eqb c) (skipn (N.to_nat start) line) start) as [H|H]; [left; exact H|right].
  rewrite skipn_length in H. unfold LL, llen in *. lia.
Qed.

Theorem define_args_total : forall be start, (be = NPOS \/ be < LL line) -> start <= LL line ->
  exists n r, (n <= N.to_nat (LL line - start) + 1)%nat /\ iter (args_step rrepaired line be) n (start, []) = Fin r /\ fst r <= LL line.
Proof.
  intros be start0 Hbe H0.
  assert (Hwbe : wadd be 1 <= LL line).
  { unfold wadd. destruct Hbe as [->|Hb]; [replace ((NPOS + 1) mod W64) with 0 by (vm_compute; reflexivity); lia|].
    rewrite N.mod_small; [lia|]. unfold LL in *. lia. }
  destruct (measure_total (N * list (list byte)) (N * list (list byte)) (args_step rrepaired line be)
              (fun s => fst s <= LL line) (fun s => N.to_nat (LL line - fst s)) (fun r => fst r <= LL line))
    with (s := (start0, @nil (list byte))) as (n & r & Hn & Hit & Hp).
  - intros [st acc] Hs. cbn [fst] in Hs. unfold args_step. cbn [d_define_empty_param rrepaired negb andb].
    unfold substr_s. destruct (LL line <? st) eqn:E; [apply N.ltb_lt in E; lia|].
    set (ai0 := find_c line 44%Z st).
    destruct ((ai0 =? NPOS) || (be <? ai0)) eqn:En.
    + (* ended *)
      match goal with |- context [trim_l ?x] => destruct (trim_l x) end; cbn [fst snd negb]; lia.
    + apply orb_false_iff in En. destruct En as (E1 & E2). apply N.eqb_neq in E1. apply N.ltb_ge in E2.
      destruct (find_c_spec 44%Z st) as [Hn|(Hlo & Hhi)]; fold ai0 in Hn || fold ai0 in Hlo, Hhi; [congruence|].
      assert (Hw : wadd ai0 1 = ai0 + 1).
      { unfold wadd. apply N.mod_small. unfold LL in *. lia. }
      match goal with |- context [trim_l ?x] => destruct (trim_l x) end; cbn [fst snd negb]; rewrite Hw; split; lia.
  - cbn. exact H0.
  - exists n, r. cbn [fst] in Hn. auto.
Qed.
End Define.

(* the code as it stood: an empty parameter name is met again and again *)
Definition define_witness : list byte := [70;40;97;44;44;98;41;32;120]%Z.     (* F(a,,b) x *)
Theorem define_args_refuted : forall n r,
  iter (args_step ras_is define_witness (find_c define_witness 41%Z 0)) n (wadd (find_c define_witness 40%Z 0) 1, []) <> Fin r.
Proof.
  intros n r. eapply (iter_reach_stuck _ _ _ 1%nat); vm_compute; reflexivity.
Qed.

(* ================================================================================================ *)
(* replace_skip and replace_find_wordend on a macro body *)
Section Body.
Variable budget : N.
Variable get : N -> option byte.
Variable len : N.
Hypothesis ok : buf_ok get len.
Hypothesis no_cr : forall i, get i <> Some CR.     (* a body comes out of get_line: next() never returns a carriage return *)
Variable fl : nat.
Hypothesis Hfl : (2 * N.to_nat len + 4 <= fl)%nat.

Lemma peek_nonzero_in : forall o c, peek get o 0 = c -> c <> 0%Z -> o < len.
Proof.
  intros o c H Hc. unfold peek in H. rewrite N.add_0_r in H. destruct (get o) eqn:G; [eapply get_inside; eauto|congruence].
Qed.

Theorem skip_total : forall n st ins out, r_off st <= len -> (N.to_nat (len - r_off st) + 2 <= n)%nat ->
  exists st' out', skip_loop rrepaired budget get fl n st ins out = Done (st', out') /\ r_off st <= r_off st' /\ r_off st' <= len.
Proof.
  induction n as [|n IH]; intros st ins out Hst Hn; [lia|]. cbn [skip_loop].
  destruct ins.
  - destruct (next_char_ok budget get len ok fl Hfl st Hst) as ([c st'] & E & (A & B & C & NC & LB)). rewrite E. cbn [rbind]. cbn [snd fst] in A, B, C, NC, LB.
    cbn [d_skip_string_end rrepaired negb andb]. rewrite andb_true_r.
    destruct (c =? 0)%Z eqn:Z; [eexists; eexists; split; [reflexivity|lia]|].
    assert (Hlt : r_off st < len).
    { destruct (N.lt_ge_cases (r_off st) len) as [H|H]; [exact H|]. rewrite (next_at_end budget get len ok fl Hfl _ _ _ H E) in Z. discriminate. }
    specialize (C Hlt). destruct (IH st' (negb (c =? DQ)%Z) (c :: out)) as (s2 & o2 & E2 & A2 & B2); [exact B|lia|].
    exists s2, o2. split; [exact E2|lia].
  - destruct (skip_stop (peek get (r_off st) 0)) eqn:S; [eexists; eexists; split; [reflexivity|lia]|].
    destruct (peek get (r_off st) 0 =? CR)%Z eqn:Q.
    { exfalso. apply Z.eqb_eq in Q. unfold peek in Q. rewrite N.add_0_r in Q. destruct (get (r_off st)) eqn:G; [|discriminate].
      subst. exact (no_cr _ G). }
    assert (Hlt : r_off st < len).
    { apply (peek_nonzero_in (r_off st) _ eq_refl). intros H0. unfold skip_stop in S. rewrite H0 in S. cbn in S. discriminate. }
    destruct (next_char_ok budget get len ok fl Hfl st Hst) as ([c st'] & E & (A & B & C & NC & LB)). rewrite E. cbn [rbind]. cbn [snd fst] in A, B, C, NC, LB.
    specialize (C Hlt).
    destruct (IH st' (peek get (r_off st) 0 =? DQ)%Z (c :: out)) as (s2 & o2 & E2 & A2 & B2); [exact B|lia|].
    exists s2, o2. split; [exact E2|lia].
Qed.

Theorem wordend_total : forall n st start, r_off st <= len -> (N.to_nat (len - r_off st) + 1 <= n)%nat ->
  exists r, wordend_loop rrepaired budget get fl n st start = Done r.
Proof.
  induction n as [|n IH]; intros st start Hst Hn; [lia|]. cbn [wordend_loop].
  destruct (next_char_ok budget get len ok fl Hfl st Hst) as ([c st'] & E & (A & B & C & NC & LB)). rewrite E. cbn [rbind]. cbn [snd fst] in A, B, C, NC, LB.
  destruct (is_wordc c) eqn:W; [|destruct (c =? 0)%Z; eexists; reflexivity].
  assert (Hlt : r_off st < len).
  { destruct (N.lt_ge_cases (r_off st) len) as [H|H]; [exact H|].
    rewrite (next_at_end budget get len ok fl Hfl _ _ _ H E) in W. discriminate. }
  specialize (C Hlt). apply IH; [exact B|lia].
Qed.
Lemma move_back_one : forall off c, 1 <= off -> get (off - 1) = Some c -> c <> CR ->
  move_back rrepaired budget get fl off = Done (off - 1).
Proof.
  intros off c H1 G Hc. unfold move_back, run. destruct fl as [|f]; [lia|]. cbn [iter]. unfold mb_step.
  destruct (off =? 0) eqn:E; [apply N.eqb_eq in E; lia|]. rewrite G.
  destruct (c =? CR)%Z eqn:Q; [apply Z.eqb_eq in Q; congruence|]. reflexivity.
Qed.

(* the argument splitter of handle_macro: ends within (bytes left) + 1 rounds - in particular on a call that is
   still open when the input ends - and leaves the reader inside the content *)
Theorem split_total : forall n st s, r_off st <= len -> (N.to_nat (len - r_off st) + 1 <= n)%nat ->
  exists st' args, split_loop rrepaired budget get fl n st s = Done (st', args) /\ r_off st' <= len.
Proof.
  induction n as [|n IH]; intros st s Hst Hn; [lia|]. cbn [split_loop].
  destruct (next_char_ok budget get len ok fl Hfl st Hst) as ([c st'] & E & (A & B & C & NC & LB)). rewrite E. cbn [rbind]. cbn [snd fst] in A, B, C, NC, LB.
  destruct (c =? 0)%Z eqn:Z; [eexists; eexists; split; [reflexivity|exact B]|].
  assert (Hlt : r_off st < len).
  { destruct (N.lt_ge_cases (r_off st) len) as [H|H]; [exact H|]. rewrite (next_at_end budget get len ok fl Hfl _ _ _ H E) in Z. discriminate. }
  specialize (C Hlt).
  assert (REC : forall s', exists st2 args, split_loop rrepaired budget get fl n st' s' = Done (st2, args) /\ r_off st2 <= len).
  { intros s'. apply IH; [exact B|lia]. }
  repeat match goal with
  | |- context [if ?x then _ else _] =>
      lazymatch x with
      | (_ =? 41)%Z || (_ =? 44)%Z => fail
      | _ => destruct x; [apply REC|]
      end
  end.
  destruct ((c =? 41)%Z || (c =? 44)%Z) eqn:D; [|apply REC].
  destruct ((sp_rb s =? 0) && (sp_eb s =? 0) && (sp_cb s =? 0)).
  - assert (Hc0 : c <> 0%Z) by (apply Z.eqb_neq; exact Z).
    destruct (LB Hc0) as (L1 & L2).
    rewrite (move_back_one (r_off st') c L1 L2 NC). cbn [rbind].
    destruct (next_char_ok budget get len ok fl Hfl (mkr (r_off st' - 1) (r_str st') (r_blk st'))) as ([c2 st2] & E2 & (A2 & B2 & C2 & _ & _)); [cbn; lia|].
    rewrite E2. cbn [rbind snd]. cbn [snd fst r_off] in A2, B2, C2.
    destruct (c =? 41)%Z; [eexists; eexists; split; [reflexivity|exact B2]|].
    apply IH; [exact B2|]. assert (r_off st' - 1 < len) by lia. specialize (C2 H). lia.
  - destruct (c =? 41)%Z; [eexists; eexists; split; [reflexivity|exact B]|apply REC].
Qed.
(* move_back never passes a byte that is not a carriage return *)
Lemma move_back_ge : forall off p x, off <= len -> p < off -> get p = Some x -> x <> CR ->
  exists o, move_back rrepaired budget get fl off = Done o /\ p <= o /\ o <= off.
Proof.
  intros off0 p x H0 Hp G Hx.
  destruct (measure_total (N * N) N (mb_step rrepaired budget get) (fun s => p < fst s /\ fst s <= off0) (fun s => N.to_nat (fst s))
             (fun r => p <= r /\ r <= off0)) with (s := (off0, 0)) as (n & r & Hn & Hit & Hp2).
  - intros [off dp] (A & B). cbn [fst] in A, B. unfold mb_step. cbn [d_reader_recursion rrepaired andb].
    destruct (off =? 0) eqn:E; [apply N.eqb_eq in E; lia|].
    destruct (get_some get len ok (off - 1)) as (c & Gc); [lia|]. rewrite Gc.
    destruct (c =? CR)%Z eqn:Q.
    + apply Z.eqb_eq in Q. cbn [fst]. assert (off - 1 <> p) by (intro; subst p; congruence). split; [split|]; lia.
    + lia.
  - cbn. lia.
  - exists r. split; [|exact Hp2]. unfold move_back. eapply run_of_iter; eauto. cbn in Hn. lia.
Qed.

(* handle_arg: the loop ends within 2 * (bytes left) + 2 rounds whatever the macro table says, provided the nested
   handle_macro returns and only moves the reader forward *)
Section Arg.
Variable lookup : list byte -> option bool.
Variable is_param : list byte -> bool.
Variable hm : rst -> res (rst * bool).
Hypothesis hm_ok : forall st, r_off st <= len -> exists st' e, hm st = Done (st', e) /\ r_off st <= r_off st' /\ r_off st' <= len.

Definition amu (s:argst) : nat := (2 * N.to_nat (len - r_off (a_st s)) + if a_inword s then 1 else 0)%nat.

Theorem arg_total : forall n endindex s, r_off (a_st s) <= len -> (amu s + 1 <= n)%nat ->
  exists st', arg_loop rrepaired budget get fl lookup hm n endindex s = Done st' /\ r_off st' <= len.
Proof.
  induction n as [|n IH]; intros endindex s Hst Hn; [lia|]. cbn [arg_loop].
  destruct (r_off (a_st s) =? endindex); [eexists; split; [reflexivity|exact Hst]|].
  destruct (next_char_ok budget get len ok fl Hfl (a_st s) Hst) as ([c st1] & E & (A & B & C & NC & LB)). rewrite E. cbn [rbind]. cbn [snd fst] in A, B, C, NC, LB.
  destruct (c =? 0)%Z eqn:Z; [eexists; split; [reflexivity|exact B]|].
  assert (Hlt : r_off (a_st s) < len).
  { destruct (N.lt_ge_cases (r_off (a_st s)) len) as [H|H]; [exact H|]. rewrite (next_at_end budget get len ok fl Hfl _ _ _ H E) in Z. discriminate. }
  specialize (C Hlt).
  assert (Hc0 : c <> 0%Z) by (apply Z.eqb_neq; exact Z). destruct (LB Hc0) as (L1 & L2).
  unfold amu in Hn.
  (* a recursive call on a state whose measure is smaller *)
  assert (REC : forall s', r_off (a_st s') <= len -> (amu s' < 2 * N.to_nat (len - r_off (a_st s)) + (if a_inword s then 1 else 0))%nat ->
                exists st', arg_loop rrepaired budget get fl lookup hm n endindex s' = Done st' /\ r_off st' <= len).
  { intros s' H1 H2. apply IH; [exact H1|lia]. }
  destruct (a_str s).
  { apply REC; cbn [a_st a_inword]; [exact B|unfold amu; cbn [a_st a_inword]; destruct (a_inword s); lia]. }
  destruct (is_wordc c && negb (r_off st1 =? endindex)) eqn:W1.
  { apply REC; cbn [a_st a_inword]; [exact B|unfold amu; cbn [a_st a_inword]; destruct (a_inword s); lia]. }
  destruct (a_inword s || is_wordc c) eqn:IW.
  2:{ apply REC; cbn [a_st a_inword]; [exact B|unfold amu; cbn [a_st a_inword]; destruct (a_inword s); lia]. }
  (* the branch that may un-read: either the word was open before (measure has the extra 1) or no un-reading happens *)
  assert (BACK1 : exists o, move_back rrepaired budget get fl (r_off st1) = Done o /\ r_off (a_st s) <= o /\ o <= r_off st1).
  { destruct (move_back_ge (r_off st1) (r_off st1 - 1) c B) as (o & Eo & O1 & O2); [lia|exact L2|exact NC|]. exists o. split; [exact Eo|lia]. }
  assert (RR : forall isw, (negb isw && negb (c =? DQ)%Z) = true -> isw = false) by (intros []; simpl; congruence).
  destruct (lookup _) as [[|]|].
  - destruct (negb (negb (is_wordc c) && negb (c =? DQ)%Z)) eqn:NR.
    + apply REC; cbn [a_st a_inword]; [exact B|unfold amu; cbn [a_st a_inword]; destruct (a_inword s); lia].
    + apply negb_false_iff in NR. pose proof (RR _ NR) as Hw. rewrite Hw in IW. rewrite orb_false_r in IW.
      destruct BACK1 as (o & Eo & O1 & O2). rewrite Eo. cbn [rbind].
      destruct (hm_ok (mkr o (r_str st1) (r_blk st1))) as (st3 & e & Eh & H1 & H2); [cbn; lia|]. rewrite Eh. cbn [rbind]. cbn [r_off] in H1.
      destruct e; [eexists; split; [reflexivity|exact H2]|].
      apply REC; cbn [a_st a_inword]; [exact H2|unfold amu; cbn [a_st a_inword]; rewrite IW; lia].
  - destruct (hm_ok st1 B) as (st3 & e & Eh & H1 & H2). rewrite Eh. cbn [rbind].
    destruct e; [eexists; split; [reflexivity|exact H2]|].
    destruct (negb (is_wordc c) && negb (c =? DQ)%Z) eqn:NR.
    + pose proof (RR _ NR) as Hw. rewrite Hw in IW. rewrite orb_false_r in IW.
      destruct (move_back_ge (r_off st3) (r_off st1 - 1) c H2) as (o & Eo & O1 & O2); [lia|exact L2|exact NC|].
      rewrite Eo. cbn [rbind].
      apply REC; cbn [a_st a_inword r_off]; [lia|unfold amu; cbn [a_st a_inword r_off]; rewrite IW; lia].
    + apply REC; cbn [a_st a_inword]; [exact H2|unfold amu; cbn [a_st a_inword]; destruct (a_inword s); lia].
  - destruct (negb (is_wordc c) && negb (c =? DQ)%Z) eqn:NR.
    + pose proof (RR _ NR) as Hw. rewrite Hw in IW. rewrite orb_false_r in IW.
      destruct BACK1 as (o & Eo & O1 & O2). rewrite Eo. cbn [rbind].
      apply REC; cbn [a_st a_inword r_off]; [lia|unfold amu; cbn [a_st a_inword r_off]; rewrite IW; lia].
    + apply REC; cbn [a_st a_inword]; [exact B|unfold amu; cbn [a_st a_inword]; destruct (a_inword s); lia].
Qed.
End Arg.
End Body.

(* the code as it stood: a body that ends inside a string literal - the loop appends NUL for ever *)
Definition skip_witness : list byte := [34;97;98;99]%Z.                       (* a double quote, then abc *)
Theorem skip_refuted : forall budget n out,
  skip_loop ras_is budget (lget skip_witness) 20 n (mkr 4 true false) true out = OutOfFuel.
Proof.
  intros budget n. induction n as [|n IH]; intros out; [reflexivity|].
  cbn [skip_loop].
  assert (E : next_char ras_is budget (lget skip_witness) 20 (mkr 4 true false) = Done (0%Z, mkr 4 true false)) by (vm_compute; reflexivity).
  rewrite E. cbn [rbind]. cbn [d_skip_string_end ras_is negb andb Z.eqb]. apply IH.
Qed.
(* ... and that state is where replace_skip arrives from the start of the body *)
Example skip_refuted_reached : forall budget,
  skip_loop ras_is budget (lget skip_witness) 20 5 (mkr 0 false false) false [] = skip_loop ras_is budget (lget skip_witness) 20 0 (mkr 4 true false) true [0%Z; 99%Z; 98%Z; 97%Z; 34%Z].
Proof. intros budget. vm_compute. reflexivity. Qed.

(* ================================================================================================ *)
(* create_code_segment *)
Section CodeSegment.
Variable get : N -> option byte.
Variable len : N.
Hypothesis ok : buf_ok get len.

Theorem code_segment_total : forall fl off length, off <= len -> (N.to_nat len + 2 <= fl)%nat ->
  exists i ln sp, code_segment get len fl off length = Done (i, ln, sp) /\ i <= off /\ sp = off - i.
Proof.
  intros fl off length Hoff Hfl. unfold code_segment.
  set (i0 := if off <? 15 then 0 else off - 15).
  assert (Hi0 : i0 <= off) by (unfold i0; destruct (off <? 15); lia).
  destruct (measure_total (N * N * N) (N * N) (cs_step get len off)
              (fun s => let '(j, i, _) := s in i <= off /\ i <= j) (fun s => let '(j, _, _) := s in N.to_nat (len - j))
              (fun r => fst r <= off)) with (s := (i0, i0, wadd 30 length)) as (n & r & Hn & Hit & Hp).
  - intros [[j i] ln] (A & B). unfold cs_step.
    destruct ((j <? wadd i ln) && (j <? len)) eqn:E; [|cbn; exact A].
    apply andb_prop in E. destruct E as (_ & E). apply N.ltb_lt in E.
    destruct (get_some get len ok j E) as (wc & G). rewrite G.
    destruct (wc =? NL)%Z.
    + destruct (j <? off) eqn:J; [apply N.ltb_lt in J; split; [split|]; lia|cbn; exact A].
    + split; [split|]; lia.
  - split; lia.
  - destruct r as [i' ln']. cbn [fst] in Hp.
    rewrite (run_of_iter _ _ _ n fl _ _ Hit) by lia. cbn [rbind].
    destruct (off <? i') eqn:X; [apply N.ltb_lt in X; lia|].
    destruct (len <? i') eqn:Y; [apply N.ltb_lt in Y; lia|].
    exists i', ln', (off - i'). split; [reflexivity|]. split; [exact Hp|reflexivity].
Qed.
End CodeSegment.

(* ================================================================================================ *)
(* the recursion guards: depth bounded by the table, a name met inside its own expansion is the error *)
Section Guard.
Variable name : Type.
Variable name_eqb : name -> name -> bool.
Hypothesis eqb_spec : forall a b, name_eqb a b = true <-> a = b.
Variable uses : list name -> name -> list name.
Variable names : list name.                       (* the defined macros / the files that exist *)
Hypothesis uses_in : forall st x y, In y (uses st x) -> In y names.

Lemma memb_in : forall x l, memb name name_eqb x l = true <-> In x l.
Proof.
  intros x l. induction l as [|y r IH]; simpl; [split; [discriminate|tauto]|].
  rewrite orb_true_iff, IH, eqb_spec. tauto.
Qed.

(* a macro (file) that is being expanded (included) is the error outcome - whatever the fuel *)
Theorem guard_reports_cycle : forall n stack x, In x stack -> visit name name_eqb uses n stack x = GRecursive name x.
Proof.
  intros n stack x H. destruct n; simpl; rewrite (proj2 (memb_in x stack) H); reflexivity.
Qed.

Lemma NoDup_incl_length_lt : forall (stack:list name) x, NoDup stack -> incl stack names -> In x names -> ~ In x stack ->
  (length stack < length names)%nat.
Proof.
  intros stack x ND INC Hx Hn.
  assert (L : (length (x :: stack) <= length names)%nat).
  { apply NoDup_incl_length; [constructor; assumption|]. intros y [<-|Hy]; [exact Hx|apply INC; exact Hy]. }
  simpl in L. lia.
Qed.

(* fuel |names| - |stack| is enough, and the recursion never gets deeper than |names| *)
Theorem guard_terminates : forall n stack x, NoDup stack -> incl stack names -> In x names ->
  (length names - length stack <= n)%nat ->
  (exists d, visit name name_eqb uses n stack x = GOk name d /\ (d <= length names)%nat) \/
  (exists y, visit name name_eqb uses n stack x = GRecursive name y).
Proof.
  induction n as [|n IH]; intros stack x ND INC Hx Hn.
  - simpl. destruct (memb name name_eqb x stack) eqn:M; [right; eauto|].
    exfalso. assert (~ In x stack) by (intro H; apply memb_in in H; congruence).
    pose proof (NoDup_incl_length_lt stack x ND INC Hx H). lia.
  - simpl. destruct (memb name name_eqb x stack) eqn:M; [right; eauto|].
    assert (Hnin : ~ In x stack) by (intro H; apply memb_in in H; congruence).
    pose proof (NoDup_incl_length_lt stack x ND INC Hx Hnin) as HL.
    assert (ND' : NoDup (x :: stack)) by (constructor; assumption).
    assert (INC' : incl (x :: stack) names) by (intros y [<-|Hy]; [exact Hx|apply INC; exact Hy]).
    assert (Hall : forall l deep, (forall y, In y l -> In y names) -> (deep <= length names)%nat ->
       (exists d, (fix all (l:list name) (deep:nat) : gres name :=
            match l with
            | [] => GOk name deep
            | y :: r => match visit name name_eqb uses n (x :: stack) y with
                        | GOk _ d => all r (Nat.max deep d)
                        | e => e
                        end
            end) l deep = GOk name d /\ (d <= length names)%nat) \/
       (exists y, (fix all (l:list name) (deep:nat) : gres name :=
            match l with
            | [] => GOk name deep
            | y :: r => match visit name name_eqb uses n (x :: stack) y with
                        | GOk _ d => all r (Nat.max deep d)
                        | e => e
                        end
            end) l deep = GRecursive name y)).
    { induction l as [|y r IHl]; intros deep Hl Hd.
      - left. exists deep. split; [reflexivity|exact Hd].
      - destruct (IH (x :: stack) y ND' INC' (Hl y (or_introl eq_refl))) as [(d & E & Ld)|(z & E)]; [simpl; lia| |].
        + rewrite E. apply IHl; [intros z Hz; apply Hl; right; exact Hz|lia].
        + right. exists z. rewrite E. reflexivity. }
    apply Hall; [intros y Hy; eapply uses_in; eauto|simpl; lia].
Qed.
End Guard.
