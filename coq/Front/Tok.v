(* C10 - mechanism model of the two tokenizers
     src/parser/sqf/tokenizer.hpp      (LSqf)
     src/parser/config/tokenizer.hpp   (LCfg)
   They are the same code with different tables; the model is one development with a [lang]
   parameter.  The cursor is an index ([N]) into the buffer, every loop is a step machine of
   Front/Machine.v, every read goes through [get] (unguarded) or [isat] (bounds test first).

   [defects] are the switches for the defects this check found in the two files (the code at
   /repo HEAD 382ec7b is [as_is], the code with /verif/proposed_fixes/C10-*.diff is [repaired]):
     d_comment_past_end   line and block comment scanners step past the end of the input
     d_block_close_left   the block comment scanner tests for "//" where it means the closing marker:
                          the closing marker stays in the token stream
     d_line_directive     #line: iter += 6 may step past the end, std::stoul throws on a malformed number
     d_cfg_squote_end     config only: the single-quote string scanner has no end-of-input test
     d_cfg_sign_dot       config only: a sign followed by a lone dot is a NUMBER token (std::stod throws on it)
     d_cfg_kw_prefix      config only: a keyword cut short by the end of the input matches (`cla`, `#li`)

   Line and column bookkeeping (m_line, m_column) is not modelled here (coq/PP/Tracker.v does that for
   C14); it never influences a cursor.  std::tolower is taken as the C-locale function on 0..255. *)
From Coq Require Import ZArith NArith List Bool Lia.
Import ListNotations.
From SqfVerif Require Import Front.Machine.

Inductive lang := LSqf | LCfg.

Record defects := mkdef {
  d_comment_past_end : bool;
  d_block_close_left : bool;
  d_line_directive : bool;
  d_cfg_squote_end : bool;
  d_cfg_sign_dot : bool;
  d_cfg_kw_prefix : bool }.
Definition as_is : defects := mkdef true true true true true true.
Definition repaired : defects := mkdef false false false false false false.

(* token kinds of both tokenizers (etoken, tokenizer.hpp:13-42 / config :13-41) *)
Inductive tt :=
| Eof | Invalid | Any | MLine | CLine | CBlock | Ws
| KTrue | KFalse | KPrivate | KClass | KDelete
| CurlyO | CurlyC | RoundO | RoundC | EdgeO | EdgeC | Colon | Semi | Comma | PlusEq | Equal
| Op | StrD | StrS | Ident | Num | Hex.

Definition final_tt (t:tt) : bool := match t with Eof | Invalid => true | _ => false end.

(* the numeric value of the C++ enumerator, as the harness prints it *)
Definition code (l:lang) (t:tt) : N :=
  match l with
  | LSqf =>
    match t with
    | Eof => 0 | Invalid => 1 | MLine => 2 | CLine => 3 | CBlock => 4 | Ws => 5
    | KTrue => 6 | KFalse => 7 | KPrivate => 8
    | CurlyO => 9 | CurlyC => 10 | RoundO => 11 | RoundC => 12 | EdgeO => 13 | EdgeC => 14
    | Semi => 15 | Comma => 16 | Equal => 17 | Op => 18 | StrD => 19 | StrS => 20
    | Ident => 21 | Num => 22 | Hex => 23
    | Any | KClass | KDelete | Colon | PlusEq => 99
    end
  | LCfg =>
    match t with
    | Eof => 0 | Invalid => 1 | Any => 2 | MLine => 3 | CLine => 4 | CBlock => 5 | Ws => 6
    | KClass => 7 | KDelete => 8
    | CurlyO => 9 | CurlyC => 10 | EdgeO => 11 | EdgeC => 12 | Colon => 13 | Semi => 14 | Comma => 15
    | PlusEq => 16 | Equal => 17 | StrD => 18 | StrS => 19 | Ident => 20 | Num => 21 | Hex => 22
    | KTrue | KFalse | KPrivate | RoundO | RoundC | Op => 99
    end
  end%N.

Local Open Scope Z_scope.
Definition NL := 10. Definition CR := 13. Definition TAB := 9. Definition SP := 32.
Definition DQ := 34. Definition SQ := 39. Definition HASH := 35. Definition DOLLAR := 36.
Definition STAR := 42. Definition SLASH := 47. Definition DOT := 46.

Definition eqb (c:byte) : byte -> bool := fun b => b =? c.
Definition is_digit (b:byte) : bool := (48 <=? b) && (b <=? 57).
Definition is_upper (b:byte) : bool := (65 <=? b) && (b <=? 90).
Definition is_lower (b:byte) : bool := (97 <=? b) && (b <=? 122).
Definition is_alpha (b:byte) : bool := is_upper b || is_lower b.
Definition is_identc (b:byte) : bool := is_alpha b || is_digit b || (b =? 95).
Definition is_hexd (b:byte) : bool := is_digit b || ((65 <=? b) && (b <=? 70)) || ((97 <=? b) && (b <=? 102)).
Definition is_wsc (b:byte) : bool := (b =? SP) || (b =? NL) || (b =? CR) || (b =? TAB).
Definition is_blank (b:byte) : bool := (b =? SP) || (b =? TAB).
Definition is_sign (b:byte) : bool := (b =? 43) || (b =? 45).
Definition is_e (b:byte) : bool := (b =? 101) || (b =? 69).
Definition lowc (b:byte) : byte := if is_upper b then b + 32 else b.
Definition not_nl (b:byte) : bool := negb (b =? NL).
Definition not_nl_sp (b:byte) : bool := negb (b =? NL) && negb (b =? SP).
(* std::isspace in the C locale *)
Definition is_cspace (b:byte) : bool := (b =? SP) || ((9 <=? b) && (b <=? 13)).

Definition kw_false : list byte := [102;97;108;115;101].
Definition kw_true : list byte := [116;114;117;101].
Definition kw_private : list byte := [112;114;105;118;97;116;101].
Definition kw_class : list byte := [99;108;97;115;115].
Definition kw_delete : list byte := [100;101;108;101;116;101].
Definition kw_line : list byte := [35;108;105;110;101].
Definition kw_pluseq : list byte := [43;61].

(* std::stoul(text) (base 10): leading isspace, an optional sign, at least one digit; the value must fit 64 bits *)
Fixpoint drop_while (p:byte -> bool) (l:list byte) : list byte :=
  match l with c :: t => if p c then drop_while p t else l | [] => [] end.
Fixpoint take_while (p:byte -> bool) (l:list byte) : list byte :=
  match l with c :: t => if p c then c :: take_while p t else [] | [] => [] end.
Fixpoint digits_value (acc:Z) (l:list byte) : Z :=
  match l with c :: t => digits_value (acc * 10 + (c - 48)) t | [] => acc end.
Definition stoul_ok (s:list byte) : bool :=
  let s1 := drop_while is_cspace s in
  let s2 := match s1 with c :: t => if is_sign c then t else s1 | [] => [] end in
  let ds := take_while is_digit s2 in
  match ds with [] => false | _ => digits_value 0 ds <=? 18446744073709551615 end.
(* std::stod(text): the same prefix rules; what matters here is only whether a number is found at all
   (invalid_argument is not caught in config_parser.cpp:83-93, out_of_range is) *)
Definition stod_finds_number (s:list byte) : bool :=
  let s1 := drop_while is_cspace s in
  let s2 := match s1 with c :: t => if is_sign c then t else s1 | [] => [] end in
  match s2 with
  | c :: t => is_digit c || ((c =? DOT) && match t with e :: _ => is_digit e | [] => false end)
  | [] => false
  end.
Local Close Scope Z_scope.

Local Open Scope N_scope.

Section Tok.
Variable d : defects.
Variable get : N -> option byte.
Variable len : N.
Variable fl : nat.          (* fuel supply for every loop; |input| + 2 is enough (theorems) *)

Notation at_ := (isat get).
Notation spanf := (span get).

(* the bytes at [j, k) - only used for the text handed to std::stoul by the code as it stands *)
Fixpoint sub (n:nat) (j:N) : list byte :=
  match n with
  | O => []
  | S n' => match get j with Some b => b :: sub n' (N.succ j) | None => [] end
  end.

(* ---- keyword comparison: the loops of len_match(start, against) / len_ident_match, bounded by the keyword.
   Some (j, complete): every compared byte matched, the loop stopped at j because the keyword (complete)
   or the input (not complete) ended.  None: a byte differs (return 0). tokenizer.hpp:96-124 / config :95-118 *)
Fixpoint kw_go (kw:list byte) (i:N) : option (N * bool) :=
  match kw with
  | [] => Some (i, true)
  | k :: kw' =>
    match get i with
    | None => Some (i, false)
    | Some b => if (lowc b =? k)%Z then kw_go kw' (N.succ i) else None
    end
  end.

Definition ident_follow (l:lang) (b:byte) : bool :=
  match l with
  | LSqf => is_alpha b || is_digit b || (b =? 95)%Z     (* sqf :119 *)
  | LCfg => is_alpha b                                  (* config :113 *)
  end.

Definition len_ident_match (l:lang) (kw:list byte) (i:N) : N :=
  match kw_go kw i with
  | None => 0
  | Some (j, complete) =>
    let prefix_counts := match l with LSqf => false | LCfg => d_cfg_kw_prefix d end in
    if negb complete && negb prefix_counts then 0
    else if at_ (ident_follow l) j then 0 else j - i
  end.

(* ---- line comment, from the first '/' (tokenizer.hpp:166-180).
   as it stands:   while (!is_match<NL>(++iter));            the iterator walks off the end
   repaired:       while (++iter < m_end && !is_match<NL>(iter)); *)
Definition lc_step (i:N) : out N N :=
  let j := N.succ i in
  if d_comment_past_end d then
    (if len <? j then Bad BUb else if at_ (eqb NL) j then Fin j else Run j)
  else
    (if (j <? len) && negb (at_ (eqb NL) j) then Run j else Fin j).

(* ---- block comment, cursor behind the opening marker (tokenizer.hpp:181-212) *)
Definition bc_at_close (i:N) : bool := at_ (eqb STAR) i && at_ (eqb SLASH) (N.succ i).
Definition bc_step (i:N) : out N N :=
  if d_comment_past_end d then
    (if bc_at_close i then Fin i else if len <? N.succ i then Bad BUb else Run (N.succ i))
  else
    (if (i <? len) && negb (bc_at_close i) then Run (N.succ i) else Fin i).
Definition bc_close (r:N) : N :=
  if d_block_close_left d
  then (if at_ (eqb SLASH) r && at_ (eqb SLASH) (N.succ r) then r + 2 else r)    (* the test as written: two slashes *)
  else (if bc_at_close r then r + 2 else r).

(* ---- string literal with quote q, cursor behind the opening quote (tokenizer.hpp:269-346, config :240-308) *)
Definition str_tail (endcheck:bool) (j:N) : out N N :=
  if endcheck then (if j =? len then Fin j else Run (N.succ j))
  else (if len <? N.succ j then Bad BUb else Run (N.succ j)).
Definition str_step (q:byte) (endcheck:bool) (i:N) : out N N :=
  if at_ (eqb q) i && at_ (eqb q) (N.succ i) then str_tail endcheck (N.succ i)
  else if at_ (eqb q) i then Fin (N.succ i)
  else str_tail endcheck i.
Definition str_endcheck (l:lang) (q:byte) : bool :=
  match l with
  | LCfg => if (q =? SQ)%Z then negb (d_cfg_squote_end d) else true
  | LSqf => true
  end.

(* ---- the matchers of try_match: length of the token of the given kind at i (0: no match) *)
Definition one (c:byte) (i:N) : N := if at_ (eqb c) i then 1 else 0.

(* is_match_repeated<2, c>: the loop counts every following c, the answer is whether there are two *)
Definition rep2 (c:byte) (i:N) : res bool := rbind (spanf (eqb c) fl i) (fun r => Done (2 <=? r - i)).

Definition op_len (i:N) : res N :=
  rbind (rep2 61 i) (fun eq2 =>
  if eq2 then Done 2 else
  if at_ (eqb 60) i && at_ (eqb 61) (N.succ i) then Done 2 else
  if at_ (eqb 60) i then Done 1 else
  if at_ (eqb 62) i && at_ (eqb 61) (N.succ i) then Done 2 else
  rbind (rep2 62 i) (fun gt2 =>
  if gt2 then Done 2 else
  if at_ (eqb 62) i then Done 1 else
  if at_ (fun b => (b =? 43) || (b =? 45) || (b =? 47) || (b =? 42) || (b =? 37) || (b =? 94))%Z i then Done 1 else
  if at_ (eqb 33) i && at_ (eqb 61) (N.succ i) then Done 2 else
  if at_ (fun b => (b =? 33) || (b =? 58) || (b =? 35))%Z i then Done 1 else
  rbind (rep2 124 i) (fun or2 =>
  if or2 then Done 2 else
  rbind (rep2 38 i) (fun and2 => Done (if and2 then 2 else 0))))).

Definition hex_len (i:N) : res N :=
  match get i with
  | None => Failed BUb                                   (* *iter == '$' without a bounds test, :354 *)
  | Some b =>
    if (b =? DOLLAR)%Z then
      rbind (spanf is_hexd fl (N.succ i)) (fun r => Done (if r =? N.succ i then 0 else r - i))
    else if at_ (eqb 120) (N.succ i) then
      rbind (spanf is_hexd fl (i + 2)) (fun r => Done (if r =? i + 2 then 0 else r - i))
    else Done 0
  end.

(* fraction and exponent parts shared by both number scanners; result: the cursor behind them *)
Definition num_frac (a:N) : res N :=
  if at_ (eqb DOT) a then
    rbind (spanf is_digit fl (N.succ a)) (fun r => Done (if r =? N.succ a then a else r))
  else Done a.
Definition num_exp (b:N) : res N :=
  if at_ is_e b then
    let j := N.succ b in
    let j2 := if at_ is_sign j then N.succ j else j in
    rbind (spanf is_digit fl j2) (fun r => Done (if r =? j2 then j2 - 1 else r))   (* --iter: one back only *)
  else Done b.

Definition num_len_sqf (i:N) : res N :=
  rbind (if at_ (eqb DOT) i then Done (Some i)
         else rbind (spanf is_digit fl i) (fun r => Done (if r =? i then None else Some r))) (fun oa =>
  match oa with
  | None => Done 0
  | Some a => rbind (num_frac a) (fun b => rbind (num_exp b) (fun c => Done (c - i)))
  end).

Definition num_len_cfg (i:N) : res N :=
  let s := if at_ is_sign i then N.succ i else i in
  rbind (if at_ (eqb DOT) s then Done (Some (s, false))
         else rbind (spanf is_digit fl s) (fun r => Done (if r =? s then None else Some (r, true)))) (fun oa =>
  match oa with
  | None => Done 0
  | Some (a, good1) =>
    rbind (num_frac a) (fun b =>
    let good2 := good1 || (at_ (eqb DOT) a && (d_cfg_sign_dot d || negb (b =? a))) in
    rbind (num_exp b) (fun c =>
    let good3 := good2 || at_ is_e b in
    Done (if good3 && negb (at_ (fun x => is_alpha x || (x =? 95)%Z) c) then c - i else 0)))
  end).

(* #line  (tokenizer.hpp:137-165) *)
Definition line_tail (i k:N) : res N :=
  rbind (spanf is_blank fl k) (fun k2 => rbind (spanf not_nl fl k2) (fun k3 => Done (k3 - i))).
Definition mline_len (l:lang) (i:N) : res N :=
  let m := len_ident_match l kw_line i in
  if m =? 0 then Done 0 else
  if d_line_directive d then
    let j := i + 6 in
    if len <? j then Failed BUb else                        (* iter += 6 *)
    rbind (spanf not_nl_sp fl j) (fun k =>
    if stoul_ok (sub (N.to_nat (k - j)) j) then line_tail i k else Failed BThrow)
  else
    let j := i + 5 in
    if len <? j then Failed BUb else                        (* iter += 5; unreachable when the keyword matched completely *)
    let j' := if j =? len then j else N.succ j in
    rbind (spanf is_digit fl j') (fun k =>
    if (k =? j') || at_ not_nl_sp k then Done 0 else line_tail i k).

Definition matcher (l:lang) (t:tt) (i:N) : res N :=
  match t with
  | MLine => mline_len l i
  | CLine => rbind (rep2 SLASH i) (fun two => if two then rbind (run lc_step fl i) (fun r => Done (r - i)) else Done 0)
  | CBlock => if at_ (eqb SLASH) i && at_ (eqb STAR) (N.succ i)
              then rbind (run bc_step fl (i + 2)) (fun r => Done (bc_close r - i)) else Done 0
  | Ws => rbind (spanf is_wsc fl i) (fun r => Done (r - i))
  | KFalse => Done (len_ident_match l kw_false i)
  | KTrue => Done (len_ident_match l kw_true i)
  | KPrivate => Done (len_ident_match l kw_private i)
  | KClass => Done (len_ident_match l kw_class i)
  | KDelete => Done (len_ident_match l kw_delete i)
  | PlusEq => Done (len_ident_match l kw_pluseq i)
  | CurlyO => Done (one 123 i) | CurlyC => Done (one 125 i)
  | RoundO => Done (one 40 i) | RoundC => Done (one 41 i)
  | EdgeO => Done (one 91 i) | EdgeC => Done (one 93 i)
  | Equal => Done (one 61 i) | Colon => Done (one 58 i)
  | Semi => Done (one 59 i) | Comma => Done (one 44 i)
  | Any => Done 1
  | Op => op_len i
  | StrD => rbind (run (str_step DQ (str_endcheck l DQ)) fl (N.succ i)) (fun r => Done (r - i))
  | StrS => rbind (run (str_step SQ (str_endcheck l SQ)) fl (N.succ i)) (fun r => Done (r - i))
  | Ident => rbind (spanf is_identc fl i) (fun r => Done (r - i))
  | Hex => hex_len i
  | Num => match l with LSqf => num_len_sqf i | LCfg => num_len_cfg i end
  | Eof | Invalid => Done 0
  end.

(* try_match: the first kind with a non-empty match; none: the invalid token of length 0 (:126-135, :408-431) *)
Fixpoint try_match (l:lang) (ts:list tt) (i:N) : res (tt * N) :=
  match ts with
  | [] => Done (Invalid, 0)
  | t :: r => rbind (matcher l t i) (fun n => if n =? 0 then try_match l r i else Done (t, n))
  end.

Local Open Scope Z_scope.
Definition dispatch_sqf (b:byte) : list tt :=
  if (lowc b =? 102) then [KFalse; Ident] else
  if (lowc b =? 112) then [KPrivate; Ident] else
  if (lowc b =? 116) then [KTrue; Ident] else
  if is_alpha b || (b =? 95) then [Ident] else
  if b =? 48 then [Hex; Num] else
  if is_digit b then [Num] else
  if (b =? 43) || (b =? 45) then [Num; Op] else
  if b =? 47 then [CLine; CBlock; Op] else
  if b =? 40 then [RoundO] else if b =? 41 then [RoundC] else
  if b =? 91 then [EdgeO] else if b =? 93 then [EdgeC] else
  if b =? 123 then [CurlyO] else if b =? 125 then [CurlyC] else
  if b =? 36 then [Hex] else
  if b =? 34 then [StrD] else if b =? 39 then [StrS] else
  if b =? 61 then [Op; Equal] else
  if b =? 59 then [Semi] else if b =? 44 then [Comma] else
  if b =? 46 then [Num] else
  if is_wsc b then [Ws] else
  if b =? 35 then [MLine; Op] else
  if (b =? 42) || (b =? 37) || (b =? 38) || (b =? 33) || (b =? 124) || (b =? 62) || (b =? 60) || (b =? 58) || (b =? 94) then [Op] else
  [].    (* '?' (try_match of the empty list) and every other byte (create_token()): the invalid token *)

Definition dispatch_cfg (b:byte) : list tt :=
  if (lowc b =? 99) then [KClass; Ident] else
  if (lowc b =? 100) then [KDelete; Ident] else
  if is_alpha b || (b =? 95) then [Ident] else
  if b =? 48 then [Hex; Num; Ident] else
  if is_digit b then [Num; Ident] else
  if b =? 43 then [PlusEq; Num; Any] else
  if b =? 45 then [Num; Any] else
  if b =? 47 then [CLine; CBlock; Any] else
  if (b =? 92) || (b =? 42) || (b =? 40) || (b =? 41) || (b =? 37) || (b =? 38) || (b =? 33) || (b =? 124)
     || (b =? 62) || (b =? 60) || (b =? 63) || (b =? 94) then [Any] else
  if b =? 91 then [EdgeO] else if b =? 93 then [EdgeC] else
  if b =? 123 then [CurlyO] else if b =? 125 then [CurlyC] else
  if b =? 36 then [Hex] else
  if b =? 34 then [StrD] else if b =? 39 then [StrS] else
  if b =? 61 then [Equal] else if b =? 58 then [Colon] else
  if b =? 59 then [Semi] else if b =? 44 then [Comma] else
  if b =? 46 then [Num; Any] else
  if is_wsc b then [Ws] else
  if b =? 35 then [MLine] else
  [].
Local Close Scope Z_scope.
Definition dispatch (l:lang) (b:byte) : list tt := match l with LSqf => dispatch_sqf b | LCfg => dispatch_cfg b end.

(* tokenizer::next() at cursor i (:452-527) *)
Definition next (l:lang) (i:N) : res (tt * N) :=
  if i =? len then Done (Eof, 0)
  else match get i with
       | None => Failed BUb                  (* *m_current behind the end: excluded by i <= len *)
       | Some b => try_match l (dispatch l b) i
       end.

(* the token loop of the parser glue (yylex) and of the harness: next() until eof or invalid;
   a token is (kind, offset, length) *)
Fixpoint tokens (l:lang) (n:nat) (i:N) : res (list (tt * N * N)) :=
  match n with
  | O => OutOfFuel
  | S n' =>
    rbind (next l i) (fun tk =>
    let '(t, k) := tk in
    if final_tt t then Done [(t, i, k)]
    else rbind (tokens l n' (i + k)) (fun r => Done ((t, i, k) :: r)))
  end.
Definition lex (l:lang) : res (list (tt * N * N)) := tokens l fl 0.

End Tok.
