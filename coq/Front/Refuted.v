(* C10 - what the faithful models of the code at /repo HEAD 382ec7b (before the C10 repairs) do on the
   witnesses that were replayed on the real code: the statements of the totality theorems fail there. *)
From Coq Require Import ZArith NArith List Bool Lia.
Import ListNotations.
From SqfVerif Require Import Front.Machine Front.Tok Front.Reader.
Local Open Scope N_scope.

Definition bytes_of (l:list Z) : list byte := l.
Definition lex_as_is (l:lang) (inp:list byte) : res (list (tt * N * N)) := lex as_is (lget inp) (llen inp) (length inp + 2) l.
Definition lex_repaired (l:lang) (inp:list byte) : res (list (tt * N * N)) := lex repaired (lget inp) (llen inp) (length inp + 2) l.

(* 1 // x      the line comment scanner walks off the end: compile never returned *)
Definition w_line_comment : list byte := [49;32;47;47;32;120]%Z.
(* 1 /* x      the block comment scanner likewise (the comment text is spelled in bytes) *)
Definition w_block_comment : list byte := [49;32;47;42;32;120]%Z.
(* #line       iter += 6 is behind the end *)
Definition w_line_short : list byte := [35;108;105;110;101]%Z.
(* #line x NL  std::stoul throws std::invalid_argument out of the parser *)
Definition w_line_text : list byte := [35;108;105;110;101;32;120;10]%Z.
(* #line 99999999999999999999999 NL   std::stoul throws std::out_of_range *)
Definition w_line_huge : list byte := ([35;108;105;110;101;32] ++ repeat 57 23 ++ [10])%Z.
(* x = 'abc    config: the single-quote scanner has no end test *)
Definition w_cfg_squote : list byte := [120;32;61;32;39;97;98;99]%Z.
(* #li         config: a keyword cut short by the end of the input counts as the keyword, then iter += 6 *)
Definition w_cfg_line_prefix : list byte := [35;108;105]%Z.
(* +.          config: NUMBER token with the text + : std::stod throws std::invalid_argument in config_parser.cpp *)
Definition w_cfg_sign_dot : list byte := [43;46]%Z.

Theorem line_comment_refuted : lex_as_is LSqf w_line_comment = Failed BUb /\ lex_as_is LCfg w_line_comment = Failed BUb.
Proof. split; vm_compute; reflexivity. Qed.
Theorem block_comment_refuted : lex_as_is LSqf w_block_comment = Failed BUb /\ lex_as_is LCfg w_block_comment = Failed BUb.
Proof. split; vm_compute; reflexivity. Qed.
Theorem line_directive_refuted :
  lex_as_is LSqf w_line_short = Failed BUb /\ lex_as_is LSqf w_line_text = Failed BThrow /\ lex_as_is LSqf w_line_huge = Failed BThrow /\
  lex_as_is LCfg w_line_short = Failed BUb /\ lex_as_is LCfg w_line_text = Failed BThrow.
Proof. repeat split; vm_compute; reflexivity. Qed.
Theorem cfg_single_quote_refuted : lex_as_is LCfg w_cfg_squote = Failed BUb.
Proof. vm_compute; reflexivity. Qed.
Theorem cfg_keyword_prefix_refuted : lex_as_is LCfg w_cfg_line_prefix = Failed BUb.
Proof. vm_compute; reflexivity. Qed.
(* the token is a NUMBER whose text std::stod cannot convert; repaired: two `any` tokens *)
Theorem cfg_sign_dot_refuted :
  lex_as_is LCfg w_cfg_sign_dot = Done [(Num, 0, 1); (Any, 1, 1); (Eof, 2, 0)] /\ stod_finds_number [43%Z] = false /\
  lex_repaired LCfg w_cfg_sign_dot = Done [(Any, 0, 1); (Any, 1, 1); (Eof, 2, 0)].
Proof. repeat split; vm_compute; reflexivity. Qed.
(* the closing marker of a block comment stays in the token stream: 1 /* */ 2 gives 1 * / 2 *)
Definition w_block_closed : list byte := [49;47;42;42;47;50]%Z.
Theorem block_close_left_refuted :
  lex (mkdef false true false false false false) (lget w_block_closed) (llen w_block_closed) 8 LSqf
    = Done [(Num, 0, 1); (CBlock, 1, 2); (Op, 3, 1); (Op, 4, 1); (Num, 5, 1); (Eof, 6, 0)] /\
  lex_repaired LSqf w_block_closed = Done [(Num, 0, 1); (CBlock, 1, 4); (Num, 5, 1); (Eof, 6, 0)].
Proof. split; vm_compute; reflexivity. Qed.

(* with the repairs the same witnesses are tokenized *)
Example witnesses_repaired :
  lex_repaired LSqf w_line_comment = Done [(Num, 0, 1); (Ws, 1, 1); (CLine, 2, 4); (Eof, 6, 0)] /\
  lex_repaired LSqf w_block_comment = Done [(Num, 0, 1); (Ws, 1, 1); (CBlock, 2, 4); (Eof, 6, 0)] /\
  lex_repaired LSqf w_line_short = Done [(Op, 0, 1); (Ident, 1, 4); (Eof, 5, 0)] /\
  lex_repaired LCfg w_line_short = Done [(Invalid, 0, 0)] /\
  lex_repaired LCfg w_cfg_squote = Done [(Ident, 0, 1); (Ws, 1, 1); (Equal, 2, 1); (Ws, 3, 1); (StrS, 4, 4); (Eof, 8, 0)].
Proof. repeat split; vm_compute; reflexivity. Qed.

(* ---- the reader as it stood recurses once per carriage return (and per comment / continuation in a row):
   for EVERY stack budget there is an input, one byte longer than the budget, that exhausts it *)
Definition cr_get (b:N) (i:N) : option byte := if i <? b + 1 then Some CR else None.
Lemma cr_buf_ok : forall b, buf_ok (cr_get b) (b + 1).
Proof. intros b i. unfold cr_get. destruct (i <? b + 1) eqn:E; [apply N.ltb_lt in E|apply N.ltb_ge in E]; split; intros; try lia; congruence. Qed.

Lemma cr_run : forall b k j, N.of_nat k + j = b ->
  iter (next_step ras_is b (cr_get b)) (S k) (mkn P0 (mkr j false false) 0 j) = Bad BStack.
Proof.
  intros b k. induction k as [|k IH]; intros j H.
  - cbn [iter]. unfold next_step. cbn [n_st r_off r_str r_blk n_cr n_ph n_depth d_reader_recursion ras_is andb].
    unfold cr_get. assert (E : (j <? b + 1) = true) by (apply N.ltb_lt; lia). rewrite E.
    replace (CR =? CR)%Z with true by reflexivity.
    assert (E2 : (b <? N.succ j) = true) by (apply N.ltb_lt; lia). rewrite E2. reflexivity.
  - cbn [iter]. unfold next_step at 1. cbn [n_st r_off r_str r_blk n_cr n_ph n_depth d_reader_recursion ras_is andb].
    unfold cr_get at 1. assert (E : (j <? b + 1) = true) by (apply N.ltb_lt; lia). rewrite E.
    replace (CR =? CR)%Z with true by reflexivity.
    assert (E2 : (b <? N.succ j) = false) by (apply N.ltb_ge; lia). rewrite E2.
    apply IH. lia.
Qed.

Theorem reader_recursion_unbounded : forall budget, exists get len, buf_ok get len /\ len = budget + 1 /\
  forall fl, (N.to_nat budget + 1 <= fl)%nat -> next_char ras_is budget get fl (mkr 0 false false) = Failed BStack.
Proof.
  intros b. exists (cr_get b), (b + 1). split; [apply cr_buf_ok|]. split; [reflexivity|].
  intros fl Hfl. unfold next_char, run.
  pose proof (cr_run b (N.to_nat b) 0 ltac:(lia)) as H.
  replace fl with (S (N.to_nat b) + (fl - S (N.to_nat b)))%nat by lia.
  assert (G : forall n m s, iter (next_step ras_is b (cr_get b)) n s = Bad BStack -> iter (next_step ras_is b (cr_get b)) (n + m) s = Bad BStack).
  { induction n as [|n IHn]; intros m s Hs; [discriminate|]. simpl in *. destruct (next_step ras_is b (cr_get b) s); auto; discriminate. }
  rewrite (G _ _ _ H). reflexivity.
Qed.
