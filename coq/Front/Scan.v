(* C10 - mechanism models of the index-walking loops of the preprocessor and of create_code_segment
     src/parser/preprocessor/default.cpp:793-874   #define line parsing (name, parameter list, body)
     src/parser/preprocessor/default.cpp:258-314   replace_skip
     src/parser/preprocessor/default.cpp:218-257   replace_find_wordend
     src/parser/preprocessor/default.cpp:639-703   the argument splitter of handle_macro
     src/runtime/parser/sqf.h:22-58                create_code_segment
   and of the two recursion guards
     src/parser/preprocessor/default.cpp:331-343   m_expanding (a macro inside its own expansion)
     src/parser/preprocessor/default.cpp:743-756   m_file_scopes (an include inside its own inclusion)
   size_t arithmetic is modelled as it is: values below 2^64, npos = 2^64 - 1, + and - wrap. *)
From Coq Require Import ZArith NArith List Bool Lia.
Import ListNotations.
From SqfVerif Require Import Front.Machine Front.Tok Front.Reader.
Local Open Scope N_scope.

Definition NPOS : N := 18446744073709551615.
Definition W64 : N := 18446744073709551616.
Definition wadd (a b:N) : N := (a + b) mod W64.
Definition wsub (a b:N) : N := (a + W64 - b mod W64) mod W64.

Fixpoint find_from (p:byte -> bool) (l:list byte) (i:N) : N :=
  match l with [] => NPOS | c :: t => if p c then i else find_from p t (N.succ i) end.
Fixpoint rtrim_l (l:list byte) : list byte :=
  match l with
  | [] => []
  | c :: t => match rtrim_l t with [] => if is_blank c then [] else [c] | r => c :: r end
  end.
Definition trim_l (l:list byte) : list byte := drop_while is_blank (rtrim_l l).

(* ================================================================================================ *)
Section Define.
Variable rd : rdefects.
Variable line : list byte.            (* trim(get_line(true)) *)
Definition LL : N := llen line.

(* std::string::find(ch, pos) *)
Definition find_c (c:byte) (start:N) : N :=
  if LL <? start then NPOS else find_from (eqb c) (skipn (N.to_nat start) line) start.
(* std::string::substr(pos, n): out_of_range when pos > size() *)
Definition substr_s (pos n:N) : res (list byte) :=
  if LL <? pos then Failed BThrow
  else Done (firstn (N.to_nat (N.min n (LL - pos))) (skipn (N.to_nat pos) line)).
(* operator[](i): i == size() is the terminator, beyond that it is undefined *)
Definition idx (i:N) : res byte :=
  if LL <? i then Failed BUb else Done (match lget line i with Some b => b | None => 0%Z end).

(* the parameter loop, default.cpp:850-864; [be] = bracketsEndIndex *)
Definition args_step (be:N) (s:N * list (list byte)) : out (N * list (list byte)) (N * list (list byte)) :=
  let '(arg_start, acc) := s in
  let ai0 := find_c 44%Z arg_start in
  let ended := (ai0 =? NPOS) || (be <? ai0) in
  let ai := if ended then be else ai0 in
  match substr_s arg_start (wsub ai arg_start) with
  | Failed b => Bad b
  | OutOfFuel => Bad BUb
  | Done raw =>
    let arg := trim_l raw in
    let s' := match arg with
              | [] => if negb (d_define_empty_param rd) && negb ended then (wadd ai 1, acc) else (arg_start, acc)
              | _ => (wadd ai 1, arg :: acc)
              end in
    if ended then Fin (fst s', rev (snd s')) else Run s'
  end.

Definition body_from (i:N) : res (list byte) :=
  rbind (idx i) (fun c => rbind (substr_s (if (c =? SP)%Z then wadd i 1 else i) NPOS) (fun s => Done (trim_l s))).

(* result: name, parameters (None: not callable), body *)
Definition parse_define (fl:nat) : res (list byte * option (list (list byte)) * list byte) :=
  let bi := find_c 40%Z 0 in
  let si := find_from (fun c => negb (is_identc c)) line 0 in
  if (bi =? NPOS) && (si =? NPOS) then Done (line, None, [])
  else if (si <? bi) || (bi =? NPOS) then
    rbind (substr_s 0 si) (fun name => rbind (body_from si) (fun body => Done (name, None, body)))
  else
    rbind (substr_s 0 bi) (fun name =>
    let be := find_c 41%Z 0 in
    if wadd bi 1 =? be then
      rbind (body_from (wadd be 1)) (fun body => Done (name, Some [], body))
    else
      rbind (run (args_step be) fl (wadd bi 1, [])) (fun r =>
      rbind (body_from (fst r)) (fun body => Done (name, Some (snd r), body)))).
End Define.

(* ================================================================================================ *)
Section BodyScan.
Variable rd : rdefects.
Variable budget : N.
Variable get : N -> option byte.      (* the macro body: local_fileinfo.content *)
Variable len : N.
Variable fl : nat.

Notation nextc := (next_char rd budget get fl).

Definition skip_stop (c:byte) : bool :=
  is_wordc c || (c =? NL)%Z || (c =? BSL)%Z || (c =? HASH)%Z || (c =? 0)%Z.

(* replace_skip: copies punctuation and string literals to the output up to the next word, '#', backslash,
   newline or the end.  [out] is the output in reverse. *)
Fixpoint skip_loop (n:nat) (st:rst) (in_string:bool) (out:list byte) : res (rst * list byte) :=
  match n with
  | O => OutOfFuel
  | S n' =>
    if in_string then
      rbind (nextc st) (fun r =>
      let '(c, st') := r in
      if (c =? 0)%Z && negb (d_skip_string_end rd) then Done (st', out)            (* C10-07: the text ends inside the literal *)
      else skip_loop n' st' (negb (c =? DQ)%Z) (c :: out))
    else
      let c := peek get (r_off st) 0 in
      if skip_stop c then Done (st, out)
      else if (c =? CR)%Z then skip_loop n' st false out                            (* case CR: break - nothing is consumed *)
      else rbind (nextc st) (fun r => let '(c2, st') := r in skip_loop n' st' (c =? DQ)%Z (c2 :: out))
  end.

(* replace_find_wordend (on a copy of the reader): offset difference up to the first non-word character *)
Fixpoint wordend_loop (n:nat) (st:rst) (start:N) : res N :=
  match n with
  | O => OutOfFuel
  | S n' =>
    rbind (nextc st) (fun r =>
    let '(c, st') := r in
    if is_wordc c then wordend_loop n' st' start
    else if (c =? 0)%Z then Done (r_off st' - start)
    else Done (r_off st' - start - 1))
  end.

(* The argument splitter of handle_macro, with handle_arg left out (it works on a copy of the reader and
   cannot move this one): counters as size_t, a delimiter at nesting 0 is un-read and read again. Result:
   the offsets (start, end) of the arguments and the reader behind the call. *)
Record split := mksp { sp_rb : N; sp_cb : N; sp_eb : N; sp_last : N; sp_instr : bool; sp_args : list (N * N) }.
Fixpoint split_loop (n:nat) (st:rst) (s:split) : res (rst * list (N * N)) :=
  match n with
  | O => OutOfFuel
  | S n' =>
    let before := r_off st in
    rbind (nextc st) (fun r =>
    let '(c, st') := r in
    if (c =? 0)%Z then Done (st', rev (sp_args s))
    else if sp_instr s then split_loop n' st' (mksp (sp_rb s) (sp_cb s) (sp_eb s) (sp_last s) (negb (c =? DQ)%Z) (sp_args s))
    else if (c =? 91)%Z then split_loop n' st' (mksp (sp_rb s) (sp_cb s) (wadd (sp_eb s) 1) (sp_last s) false (sp_args s))
    else if (c =? 93)%Z then split_loop n' st' (mksp (sp_rb s) (sp_cb s) (wsub (sp_eb s) 1) (sp_last s) false (sp_args s))
    else if (c =? 123)%Z then split_loop n' st' (mksp (sp_rb s) (wadd (sp_cb s) 1) (sp_eb s) (sp_last s) false (sp_args s))
    else if (c =? 125)%Z then split_loop n' st' (mksp (sp_rb s) (wsub (sp_cb s) 1) (sp_eb s) (sp_last s) false (sp_args s))
    else if (c =? 40)%Z then split_loop n' st' (mksp (wadd (sp_rb s) 1) (sp_cb s) (sp_eb s) (sp_last s) false (sp_args s))
    else if (c =? DQ)%Z then split_loop n' st' (mksp (sp_rb s) (sp_cb s) (sp_eb s) (sp_last s) true (sp_args s))
    else if (c =? 41)%Z && negb (sp_rb s =? 0) then split_loop n' st' (mksp (wsub (sp_rb s) 1) (sp_cb s) (sp_eb s) (sp_last s) false (sp_args s))
    else if (c =? 41)%Z || (c =? 44)%Z then
      let last := (c =? 41)%Z in
      if (sp_rb s =? 0) && (sp_eb s =? 0) && (sp_cb s =? 0) then
        (* move_back(); [handle_arg on a copy]; next(); lastargstart = off *)
        rbind (move_back rd budget get fl (r_off st')) (fun o =>
        rbind (nextc (mkr o (r_str st') (r_blk st'))) (fun r2 =>
        let st2 := snd r2 in
        let args' := if sp_last s <? before then (sp_last s, before) :: sp_args s else (sp_last s, sp_last s) :: sp_args s in
        if last then Done (st2, rev args')
        else split_loop n' st2 (mksp (sp_rb s) (sp_cb s) (sp_eb s) (r_off st2) false args')))
      else if last then Done (st', rev (sp_args s))
      else split_loop n' st' s
    else split_loop n' st' s)
  end.
(* handle_arg (default.cpp:470-581) on a copy of the reader placed at the start of an argument.  The macro table
   and the nested expansion are parameters: [lookup w] = Some callable when w names a macro, [is_param w], and
   [hm] = handle_macro as far as this loop can see it - a new reader state and the error flag.  What is modelled
   is the loop itself: the exit test `off != endindex` (an equality), the word accumulator, and the un-reading of
   the character behind a word.  The text that is produced is not modelled (coq/PP/Spec.v is the reference for it). *)
Variable lookup : list byte -> option bool.
Variable is_param : list byte -> bool.
Variable hm : rst -> res (rst * bool).
Record argst := mka { a_st : rst; a_inword : bool; a_str : bool; a_word : list byte }.
Fixpoint arg_loop (n:nat) (endindex:N) (s:argst) : res rst :=
  match n with
  | O => OutOfFuel
  | S n' =>
    let st := a_st s in
    if r_off st =? endindex then Done st else
    rbind (nextc st) (fun r =>
    let '(c, st1) := r in
    if (c =? 0)%Z then Done st1
    else if a_str s then arg_loop n' endindex (mka st1 (a_inword s) (negb (c =? DQ)%Z) (a_word s))
    else
      let isw := is_wordc c in
      let word := if isw then (if a_inword s then a_word s ++ [c] else [c]) else a_word s in
      let inword := a_inword s || isw in
      if isw && negb (r_off st1 =? endindex) then arg_loop n' endindex (mka st1 true false word)
      else
        (* the default branch; part_of_word = isw *)
        if inword then
          let reread := negb isw && negb (c =? DQ)%Z in
          let back (x:rst) : res rst := rbind (move_back rd budget get fl (r_off x)) (fun o => Done (mkr o (r_str x) (r_blk x))) in
          let str' := negb isw && (c =? DQ)%Z in
          match lookup word with
          | Some true =>
            if negb reread then arg_loop n' endindex (mka st1 false str' word)
            else rbind (back st1) (fun st2 => rbind (hm st2) (fun r2 =>
                 let '(st3, errflag) := r2 in if errflag then Done st3 else arg_loop n' endindex (mka st3 false str' word)))
          | Some false =>
            rbind (hm st1) (fun r2 =>
            let '(st3, errflag) := r2 in
            if errflag then Done st3
            else if reread then rbind (back st3) (fun st4 => arg_loop n' endindex (mka st4 false str' word))
            else arg_loop n' endindex (mka st3 false str' word))
          | None =>
            if reread then rbind (back st1) (fun st2 => arg_loop n' endindex (mka st2 false str' word))
            else arg_loop n' endindex (mka st1 false str' word)
          end
        else arg_loop n' endindex (mka st1 false (c =? DQ)%Z word))
  end.
End BodyScan.

(* ================================================================================================ *)
(* create_code_segment(view, off, length): sqf.h:22-58.  [off] is a token's offset, [length] its length. *)
Section CodeSegment.
Variable get : N -> option byte.
Variable len : N.
(* the for loop: j from i while j < i + len && j < view.length(); state (j, i, len, done) *)
Definition cs_step (off:N) (s:N * N * N) : out (N * N * N) (N * N) :=
  let '(j, i, ln) := s in
  if (j <? wadd i ln) && (j <? len) then
    match get j with
    | None => Bad BUb
    | Some wc =>
      if (wc =? NL)%Z then
        (if j <? off then Run (N.succ j, N.succ j, ln) else Fin (i, wsub j i))
      else Run (N.succ j, i, ln)
    end
  else Fin (i, ln).
Definition code_segment (fl:nat) (off length:N) : res (N * N * N) :=
  let i := if off <? 15 then 0 else off - 15 in
  let ln := wadd 30 length in
  rbind (run (cs_step off) fl (i, i, ln)) (fun r =>
  let '(i', ln') := r in
  (* std::string spacing(off - i, ' ') and view.substr(i, len): off - i must not wrap, i <= size *)
  if off <? i' then Failed BThrow              (* length_error: a string of 2^64 - k blanks *)
  else if len <? i' then Failed BThrow         (* substr: out_of_range *)
  else Done (i', ln', off - i')).
End CodeSegment.

(* ================================================================================================ *)
(* The recursion guards.  An expansion (or inclusion) is a walk: visiting [x] with the stack of names
   being expanded [stack] first asks the guard, then visits everything [uses stack x] names.  [uses] is
   arbitrary (which names a body mentions depends on the arguments it was called with); all that is known
   is that it only names entries of the finite table [names].  [visit] returns the deepest stack reached
   or the error outcome. *)
Section Guard.
Variable name : Type.
Variable name_eqb : name -> name -> bool.
Variable uses : list name -> name -> list name.

Fixpoint memb (x:name) (l:list name) : bool := match l with [] => false | y :: r => name_eqb y x || memb x r end.

Inductive gres := GOk (depth:nat) | GRecursive (x:name) | GOutOfFuel.

Fixpoint visit (n:nat) (stack:list name) (x:name) : gres :=
  if memb x stack then GRecursive x
  else match n with
       | O => GOutOfFuel
       | S n' =>
         (fix all (l:list name) (deep:nat) : gres :=
            match l with
            | [] => GOk deep
            | y :: r => match visit n' (x :: stack) y with
                        | GOk d => all r (Nat.max deep d)
                        | e => e
                        end
            end) (uses stack x) (S (length stack))
       end.
End Guard.
