(* C10 - mechanism model of the preprocessor's character reader
     src/parser/preprocessor/default.h:19-241   preprocessorfileinfo::_next / next / peek / move_back /
                                                get_word / get_line
   The cursor [off] is an index into [content]; a read is [get] (guarded by off >= content.length()
   in _next and peek, unguarded in move_back: content[--off]).  line / col / last_col are not modelled
   (C14's business), they never influence the cursor.

   next() is one step machine: a step reads one raw byte (a carriage return is consumed and the same
   phase goes on - that is _next()'s own loop) and then acts by phase:
     P0    the top of next()
     PBlk  the inner loop of a block comment   (default.h:105-117)
     PLc   the inner loop of a line comment    (default.h:121)
   The code at HEAD 382ec7b is recursive where this machine says `Run (P0 ..)` (next() calls itself behind a
   comment or a line continuation) and where it consumes a carriage return (_next() calls itself): with
   [d_reader_recursion] on, every such re-entry costs one unit of [depth] and more than [budget] units
   is the outcome Bad BStack.  The repaired code loops (C10-11): depth stays 0. *)
From Coq Require Import ZArith NArith List Bool Lia.
Import ListNotations.
From SqfVerif Require Import Front.Machine Front.Tok.
Local Open Scope N_scope.

Definition BSL : byte := 92%Z.
Definition is_wordc (b:byte) : bool := is_identc b.

Record rdefects := mkrd {
  d_reader_recursion : bool;    (* _next / next / move_back recurse instead of looping *)
  d_skip_string_end : bool;     (* replace_skip: no end test inside a string literal *)
  d_define_empty_param : bool   (* #define F(a,,b): the parameter scan does not advance over an empty name *)
}.
Definition ras_is : rdefects := mkrd true true true.
Definition rrepaired : rdefects := mkrd false false false.

Inductive phase := P0 | PBlk | PLc.
(* reader state between two calls of next(): offset, is_in_string, is_in_block_comment *)
Record rst := mkr { r_off : N; r_str : bool; r_blk : bool }.
Record nst := mkn { n_ph : phase; n_st : rst; n_depth : N; n_cr : N }.

Section Reader.
Variable rd : rdefects.
Variable budget : N.          (* stack budget in re-entries, only read when d_reader_recursion is on *)
Variable get : N -> option byte.
Variable len : N.
Variable fl : nat.            (* fuel supply: 2 * |content| + 4 is enough for every loop here *)

(* peek(k): default.h:71-78 *)
Definition peek (o k:N) : byte := match get (o + k) with Some c => c | None => 0%Z end.

Definition deeper (s:nst) (ph:phase) (st:rst) : out nst (byte * rst) :=
  if d_reader_recursion rd then
    (if budget <? N.succ (n_depth s) then Bad BStack else Run (mkn ph st (N.succ (n_depth s)) 0))
  else Run (mkn ph st 0 0).

(* the end of next(): line continuation, string toggle, return (default.h:124-139) *)
Definition tail (s:nst) (c:byte) (o:N) (str blk:bool) : out nst (byte * rst) :=
  if (c =? BSL)%Z && negb str then
    let pc1 := peek o 0 in let pc2 := peek o 1 in
    if (pc1 =? CR)%Z && (pc2 =? NL)%Z then deeper s P0 (mkr (o + 2) str blk)
    else if (pc1 =? NL)%Z then deeper s P0 (mkr (o + 1) str blk)
    else Fin (c, mkr o str blk)
  else Fin (c, mkr o (if (c =? DQ)%Z then negb str else str) blk).

Definition next_step (s:nst) : out nst (byte * rst) :=
  let st := n_st s in
  let off := r_off st in let str := r_str st in let blk := r_blk st in
  match get off with
  | Some c =>
    if (c =? CR)%Z then
      (* _next(): case CR - return _next() *)
      (if d_reader_recursion rd && (budget <? N.succ (n_cr s)) then Bad BStack
       else Run (mkn (n_ph s) (mkr (N.succ off) str blk) (n_depth s) (N.succ (n_cr s))))
    else
      let o1 := N.succ off in
      match n_ph s with
      | P0 =>
        if negb str && ((c =? SLASH)%Z || blk) then
          if (c =? NL)%Z then Fin (c, mkr o1 str blk)
          else
            let pc := peek o1 0 in
            if blk && (c =? STAR)%Z && (pc =? SLASH)%Z then deeper s P0 (mkr (o1 + 1) str false)
            else if (pc =? STAR)%Z || blk then Run (mkn PBlk (mkr (if blk then o1 else o1 + 1) str true) (n_depth s) 0)
            else if (pc =? SLASH)%Z then Run (mkn PLc (mkr o1 str blk) (n_depth s) 0)
            else tail s c o1 str blk
        else tail s c o1 str blk
      | PBlk =>
        if (c =? 0)%Z then tail s c o1 str blk             (* a NUL byte of the content ends the loop like the end does *)
        else if (c =? NL)%Z then tail s c o1 str blk
        else if (c =? STAR)%Z && (peek o1 0 =? SLASH)%Z then deeper s P0 (mkr (o1 + 1) str false)
        else Run (mkn PBlk (mkr o1 str blk) (n_depth s) 0)
      | PLc =>
        if (c =? 0)%Z || (c =? NL)%Z then tail s c o1 str blk
        else Run (mkn PLc (mkr o1 str blk) (n_depth s) 0)
      end
  | None =>
    (* off >= content.length(): _next() returns NUL and consumes nothing *)
    match n_ph s with
    | P0 =>
      if negb str && blk then Run (mkn PBlk (mkr off str true) (n_depth s) 0)     (* pc = NUL, still inside the comment *)
      else tail s 0%Z off str blk
    | PBlk | PLc => tail s 0%Z off str blk
    end
  end.

Definition next_char (st:rst) : res (byte * rst) := run next_step fl (mkn P0 st 0 0).

(* the character stream: next() until NUL (the loop of parse_file, default.cpp:1041, and of the harness) *)
Fixpoint stream (n:nat) (st:rst) : res (list byte * rst) :=
  match n with
  | O => OutOfFuel
  | S n' =>
    rbind (next_char st) (fun r =>
    let '(c, st') := r in
    if (c =? 0)%Z then Done ([], st')
    else rbind (stream n' st') (fun r2 => let '(l, e) := r2 in Done (c :: l, e)))
  end.

(* move_back(): default.h:216-236 *)
Definition mb_step (s:N * N) : out (N * N) N :=
  let '(off, depth) := s in
  if off =? 0 then Fin off
  else
    let o := off - 1 in
    match get o with
    | None => Bad BUb                              (* content[--off] behind the end: excluded by off <= |content| *)
    | Some c =>
      if (c =? CR)%Z then
        (if d_reader_recursion rd && (budget <? N.succ depth) then Bad BStack else Run (o, N.succ depth))
      else Fin o
    end.
Definition move_back (off:N) : res N := run mb_step fl (off, 0).

(* the bytes content[a, a+n) for substr; the caller has a + n <= |content| *)
Fixpoint substr (n:nat) (a:N) : list byte :=
  match n with
  | O => []
  | S n' => match get a with Some b => b :: substr n' (N.succ a) | None => [] end
  end.

(* get_word(): default.h:142-159.  Result: the word, the reader state behind it *)
Fixpoint gw_loop (n:nat) (st:rst) (off_end:N) : res (rst * N) :=
  match n with
  | O => OutOfFuel
  | S n' =>
    rbind (next_char st) (fun r =>
    let '(c, st') := r in
    if negb (c =? 0)%Z && is_wordc c then gw_loop n' st' (r_off st') else Done (st', off_end))
  end.
Definition get_word (st:rst) : res (list byte * rst) :=
  let off_start := r_off st in
  rbind (gw_loop fl st off_start) (fun r =>
  let '(st', off_end) := r in
  rbind (move_back (r_off st')) (fun o =>
  if len <? off_start then Failed BThrow             (* substr(pos > size()) throws std::out_of_range *)
  else Done (substr (N.to_nat (off_end - off_start)) off_start, mkr o (r_str st') (r_blk st')))).

(* get_line(true): default.h:161-205.  Result: outputString, the reader state behind the line *)
Fixpoint gl_loop (n:nat) (st:rst) (escaped:bool) (acc:list byte) : res (list byte * rst) :=
  match n with
  | O => OutOfFuel
  | S n' =>
    rbind (next_char st) (fun r =>
    let '(c, st') := r in
    if (c =? 0)%Z then Done (rev acc, st')
    else if (c =? BSL)%Z then gl_loop n' st' true (if escaped then BSL :: acc else acc)
    else if (c =? NL)%Z then (if escaped then gl_loop n' st' false acc else Done (rev acc, st'))
    else gl_loop n' st' false (c :: (if escaped then BSL :: acc else acc)))
  end.
Definition get_line (st:rst) : res (list byte * rst) := gl_loop fl st false [].

End Reader.
