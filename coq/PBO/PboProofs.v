(* Proofs about the PBO reader model (PboDefs.v). *)
From Coq Require Import ZArith List Lia Bool.
Import ListNotations.
From SqfVerif Require Import PBO.PboDefs.
Local Open Scope Z_scope.
Ltac Zify.zify_post_hook ::= Z.div_mod_to_equations.

Definition isbyte (b:Z) := 0 <= b < 256.
Definition nonul (s:list byte) := Forall (fun b => b <> 0) s.
Definition u32 (n:Z) := 0 <= n < 4294967296.

Lemma dec_enc32 n r : u32 n -> dec32 (enc32 n ++ r) = Some (n, r).
Proof. unfold u32; intros H. unfold enc32, dec32. cbn [app]. f_equal. f_equal. lia. Qed.

Lemma take_cstr_app s r : nonul s -> take_cstr (s ++ 0 :: r) = Some (s, r).
Proof.
  induction 1 as [|b s Hb Hs IH]; cbn; auto.
  destruct (Z.eqb_spec b 0); [contradiction|]. now rewrite IH.
Qed.

(* a successful read consumes at least the terminator and returns a NUL-free slice *)
Lemma take_cstr_len : forall l s r, take_cstr l = Some (s, r) ->
  length l = (length s + 1 + length r)%nat /\ nonul s /\ l = s ++ 0 :: r.
Proof.
  induction l as [|b l IH]; intros s r H; cbn in H; [discriminate|].
  destruct (Z.eqb_spec b 0) as [->|Hb].
  - inversion H; subst. cbn. repeat split; auto. constructor.
  - destruct (take_cstr l) as [[s' r']|] eqn:E; [|discriminate]. inversion H; subst.
    destruct (IH _ _ eq_refl) as (L & N & EQ). cbn. repeat split; [lia| constructor; auto | now rewrite EQ at 1].
Qed.

Lemma dec32_len l n r : dec32 l = Some (n, r) -> length l = (4 + length r)%nat.
Proof. destruct l as [|a [|b [|c [|d l]]]]; cbn [dec32]; try discriminate. intros H; inversion H; subst. reflexivity. Qed.

Lemma dec32_range l n r : Forall isbyte l -> dec32 l = Some (n, r) -> u32 n /\ Forall isbyte r.
Proof.
  destruct l as [|a [|b [|c [|d l]]]]; cbn [dec32]; try discriminate. intros F H.
  assert (E : n = a + 256 * b + 65536 * c + 16777216 * d /\ r = l) by (split; congruence).
  destruct E as [-> ->]. clear H.
  inversion F as [|? ? Ha F1]; subst. inversion F1 as [|? ? Hb F2]; subst.
  inversion F2 as [|? ? Hc F3]; subst. inversion F3 as [|? ? Hd F4]; subst.
  unfold isbyte, u32 in *. split; [lia|assumption].
Qed.

Lemma take_hdr_len l h r : take_hdr l = Some (h, r) ->
  length l = (length (h_name h) + 21 + length r)%nat /\ h_start h = 0.
Proof.
  unfold take_hdr. destruct (take_cstr l) as [[name r0]|] eqn:E0; [|discriminate].
  destruct (dec32 r0) as [[m r1]|] eqn:E1; [|discriminate].
  destruct (dec32 r1) as [[so r2]|] eqn:E2; [|discriminate].
  destruct (dec32 r2) as [[x r3]|] eqn:E3; [|discriminate].
  destruct (dec32 r3) as [[ts r4]|] eqn:E4; [|discriminate].
  destruct (dec32 r4) as [[sz r5]|] eqn:E5; [|discriminate].
  intros H; inversion H; subst. cbn.
  apply take_cstr_len in E0. apply dec32_len in E1, E2, E3, E4, E5. lia.
Qed.

Lemma Forall_app_r {A} (P:A->Prop) a b : Forall P (a ++ b) -> Forall P b.
Proof. intros H. apply Forall_app in H. tauto. Qed.

Lemma take_hdr_range l h r : Forall isbyte l -> take_hdr l = Some (h, r) ->
  u32 (h_size h) /\ Forall isbyte r.
Proof.
  unfold take_hdr. destruct (take_cstr l) as [[name r0]|] eqn:E0; [|discriminate].
  destruct (dec32 r0) as [[m r1]|] eqn:E1; [|discriminate].
  destruct (dec32 r1) as [[so r2]|] eqn:E2; [|discriminate].
  destruct (dec32 r2) as [[x r3]|] eqn:E3; [|discriminate].
  destruct (dec32 r3) as [[ts r4]|] eqn:E4; [|discriminate].
  destruct (dec32 r4) as [[sz r5]|] eqn:E5; [|discriminate].
  intros F H; inversion H; subst. cbn.
  apply take_cstr_len in E0. destruct E0 as (_ & _ & ->).
  apply Forall_app_r in F. inversion F as [|? ? _ F0]; subst.
  destruct (dec32_range _ _ _ F0 E1) as (_ & F1).
  destruct (dec32_range _ _ _ F1 E2) as (_ & F2).
  destruct (dec32_range _ _ _ F2 E3) as (_ & F3).
  destruct (dec32_range _ _ _ F3 E4) as (_ & F4).
  destruct (dec32_range _ _ _ F4 E5) as (U & F5). auto.
Qed.

Lemma take_hdr_hdr name m so ts sz r : nonul name -> u32 m -> u32 so -> u32 ts -> u32 sz ->
  take_hdr (hdr_bytes name m so ts sz ++ r)
  = Some ({| h_name := name; h_method := m; h_orig := so; h_time := ts; h_size := sz; h_start := 0 |}, r).
Proof.
  intros Hn Hm Hso Hts Hs. unfold take_hdr, hdr_bytes. rewrite <- app_assoc. cbn [app].
  rewrite take_cstr_app by assumption.
  rewrite <- !app_assoc.
  rewrite dec_enc32 by assumption. rewrite dec_enc32 by assumption.
  rewrite dec_enc32 by (unfold u32; lia).
  rewrite dec_enc32 by assumption. rewrite dec_enc32 by assumption. reflexivity.
Qed.

(* ---------- fuel: length of the input is always enough ---------- *)
Lemma take_attrs_fuel : forall f f' l, (length l < f)%nat -> (length l < f')%nat -> take_attrs f l = take_attrs f' l.
Proof.
  induction f as [|f IH]; intros f' l H H'; [lia|]. destruct f' as [|f']; [lia|].
  cbn [take_attrs]. destruct (take_cstr l) as [[k r]|] eqn:E; auto.
  destruct k as [|k0 k]; auto.
  destruct (take_cstr r) as [[v r']|] eqn:E'; auto.
  apply take_cstr_len in E, E'. destruct E as (L & _), E' as (L' & _).
  rewrite (IH f' r') by lia. reflexivity.
Qed.

Lemma take_hdrs_fuel : forall f f' l, (length l < f)%nat -> (length l < f')%nat -> take_hdrs f l = take_hdrs f' l.
Proof.
  induction f as [|f IH]; intros f' l H H'; [lia|]. destruct f' as [|f']; [lia|].
  cbn [take_hdrs]. destruct (take_hdr l) as [[h r]|] eqn:E; auto.
  destruct (h_name h) as [|n0 n]; auto.
  apply take_hdr_len in E. destruct E as (L & _).
  rewrite (IH f' r) by lia. reflexivity.
Qed.

(* ---------- well-formed archives ---------- *)
Definition wf_key (k:list byte) := k <> [] /\ nonul k /\ invalid k = false.
Definition wf (a:archive) : Prop :=
  Forall (fun kv => wf_key (fst kv) /\ nonul (snd kv)) (props a) /\
  Forall (fun e => wf_key (ename e) /\ u32 (len (edata e)) /\ u32 (etime e)) (entries a).

Lemma take_attrs_ok : forall ps r f,
  Forall (fun kv => wf_key (fst kv) /\ nonul (snd kv)) ps -> (length ps < f)%nat ->
  take_attrs f (props_bytes ps ++ 0 :: r) = (ps, 0 :: r).
Proof.
  induction ps as [|[k v] ps IH]; intros r f HF Hf; destruct f as [|f]; try lia.
  - cbn. reflexivity.
  - inversion HF as [|? ? Hhd HF']; subst. cbn in Hhd. destruct Hhd as ((Hk & Hnk & _) & Hnv).
    cbn [props_bytes flat_map take_attrs fst snd].
    rewrite <- !app_assoc. cbn [app]. rewrite take_cstr_app by assumption.
    destruct k as [|k0 k']; [contradiction|].
    rewrite <- app_assoc. cbn [app]. rewrite take_cstr_app by assumption.
    fold (props_bytes ps). rewrite IH; auto. cbn in Hf; lia.
Qed.

Definition hdr_of (e:entry) : hdr :=
  {| h_name := ename e; h_method := 0; h_orig := len (edata e); h_time := etime e; h_size := len (edata e); h_start := 0 |}.
Definition hdr_end : hdr := {| h_name := []; h_method := 0; h_orig := 0; h_time := 0; h_size := 0; h_start := 0 |}.

Lemma u32_0 : u32 0. Proof. unfold u32; lia. Qed.

Lemma take_hdrs_ok : forall es r f,
  Forall (fun e => wf_key (ename e) /\ u32 (len (edata e)) /\ u32 (etime e)) es -> (length es < f)%nat ->
  take_hdrs f (hdrs_bytes es ++ hdr_bytes [] 0 0 0 0 ++ r) = Some (map hdr_of es ++ [hdr_end], r).
Proof.
  induction es as [|e es IH]; intros r f HF Hf; destruct f as [|f]; try lia.
  - cbn [hdrs_bytes flat_map app take_hdrs map].
    rewrite take_hdr_hdr; auto using u32_0. constructor.
  - inversion HF as [|? ? Hhd HF']; subst. cbn beta in Hhd. destruct Hhd as ((Hn & Hnn & _) & Hsz & Hts).
    cbn [hdrs_bytes flat_map take_hdrs map].
    rewrite <- app_assoc. rewrite take_hdr_hdr; auto using u32_0. cbn [h_name].
    destruct (ename e) as [|n0 n'] eqn:En; [contradiction|].
    fold (hdrs_bytes es). rewrite IH; auto; [|cbn in Hf; lia].
    cbn [app]. unfold hdr_of at 2. rewrite En. reflexivity.
Qed.

Lemma props_bytes_len ps : (length ps <= length (props_bytes ps))%nat.
Proof.
  induction ps as [|[k v] ps IH]; [cbn; lia|].
  change (props_bytes ((k,v)::ps)) with ((k ++ 0 :: v ++ [0]) ++ props_bytes ps).
  rewrite !app_length. cbn [length]. lia.
Qed.
Lemma hdrs_bytes_len es : (length es <= length (hdrs_bytes es))%nat.
Proof.
  induction es as [|e es IH]; [cbn; lia|].
  change (hdrs_bytes (e::es)) with (hdr_bytes (ename e) 0 (len (edata e)) (etime e) (len (edata e)) ++ hdrs_bytes es).
  unfold hdr_bytes. rewrite !app_length. cbn [length]. lia.
Qed.

(* placing the blocks of a packed archive *)
Fixpoint starts (off:Z) (es:list entry) : list hdr :=
  match es with
  | [] => []
  | e :: es' => {| h_name := ename e; h_method := 0; h_orig := len (edata e); h_time := etime e;
                   h_size := len (edata e); h_start := off |} :: starts (off + len (edata e)) es'
  end.

Lemma len_app a b : len (a ++ b) = len a + len b.
Proof. unfold len. rewrite app_length. lia. Qed.

Lemma place_pack : forall es off,
  place off (map hdr_of es ++ [hdr_end])
  = (starts off es ++ [{| h_name := []; h_method := 0; h_orig := 0; h_time := 0; h_size := 0;
                          h_start := off + len (flat_map edata es) |}],
     off + len (flat_map edata es)).
Proof.
  induction es as [|e es IH]; intros off.
  - cbn. unfold len; cbn. rewrite !Z.add_0_r. reflexivity.
  - cbn [map app place flat_map starts hdr_of h_size h_name h_method h_orig h_time].
    rewrite IH. rewrite len_app. rewrite Z.add_assoc. reflexivity.
Qed.

Lemma filter_all {A} (f:A->bool) l : Forall (fun x => f x = true) l -> filter f l = l.
Proof. induction 1 as [|x l Hx _ IH]; cbn; auto. now rewrite Hx, IH. Qed.

Lemma removelast_app1 {A} (l:list A) x : removelast (l ++ [x]) = l.
Proof. rewrite removelast_app by discriminate. cbn. apply app_nil_r. Qed.

Lemma starts_listing : forall es off,
  map (fun h => (h_name h, method_of (h_method h), h_size h)) (starts off es) = listing {| props := []; entries := es |}.
Proof. induction es as [|e es IH]; intros off; cbn; auto. f_equal. apply IH. Qed.

Lemma starts_valid : forall es off,
  Forall (fun e => wf_key (ename e) /\ u32 (len (edata e)) /\ u32 (etime e)) es ->
  Forall (fun h => negb (invalid (h_name h)) = true) (starts off es).
Proof.
  induction es as [|e es IH]; intros off H; cbn; constructor; inversion H as [|? ? ((_ & _ & Hi) & _) H']; subst.
  - cbn. now rewrite Hi.
  - apply IH; assumption.
Qed.

Definition packed_pbo (a:archive) : pbo :=
  let base := len (pack a) - len (flat_map edata (entries a)) in
  {| p_attrs := props a;
     p_hdrs := starts base (entries a)
               ++ [{| h_name := []; h_method := 0; h_orig := 0; h_time := 0; h_size := 0;
                      h_start := base + len (flat_map edata (entries a)) |}];
     p_len := len (pack a) |}.

Lemma open_pack_eq : forall a, wf a -> open (pack a) = Some (packed_pbo a).
Proof.
  intros [ps es] [Hp He]. cbn [props entries] in *. unfold open.
  set (L := pack {| props := ps; entries := es |}).
  assert (Lp : (length ps < length L)%nat).
  { unfold L, pack. rewrite !app_length. cbn [props]. pose proof (props_bytes_len ps). cbn [length]. lia. }
  assert (Le : (length es < length L)%nat).
  { unfold L, pack. rewrite !app_length. cbn [entries]. pose proof (hdrs_bytes_len es). cbn [length]. lia. }
  unfold packed_pbo. fold L. cbn [props entries].
  unfold L at 1. unfold pack. cbn [props entries].
  rewrite take_hdr_hdr; [|constructor|unfold u32, VERS; lia|apply u32_0|apply u32_0|apply u32_0].
  cbn [app].
  replace (props_bytes ps ++ 0 :: hdrs_bytes es ++ hdr_bytes [] 0 0 0 0 ++ flat_map edata es)
     with (props_bytes ps ++ 0 :: (hdrs_bytes es ++ hdr_bytes [] 0 0 0 0 ++ flat_map edata es)) by reflexivity.
  rewrite take_attrs_ok by auto.
  rewrite Z.eqb_refl.
  rewrite take_hdrs_ok by auto.
  rewrite place_pack.
  fold (len L).
  replace (len L - len (flat_map edata es) + len (flat_map edata es)) with (len L) by lia.
  rewrite Z.leb_refl. reflexivity.
Qed.

Theorem open_pack : forall a, wf a ->
  exists p, open (pack a) = Some p /\ attributes p = props a /\ files p = listing a.
Proof.
  intros a W. exists (packed_pbo a). split; [apply open_pack_eq; assumption|].
  destruct a as [ps es]. destruct W as [Hp He]. cbn [props entries] in *. split.
  - unfold attributes, packed_pbo. cbn [p_attrs props]. apply filter_all.
    eapply Forall_impl; [|exact Hp]. intros [k v] ((_ & _ & Hi) & _). cbn in *. now rewrite Hi.
  - unfold files, packed_pbo. cbn [p_hdrs entries]. rewrite removelast_app1.
    rewrite filter_all by (apply starts_valid; assumption).
    apply starts_listing.
Qed.

(* ---------- reading an entry back ---------- *)
Lemma eqbl_spec a b : eqbl a b = true <-> a = b.
Proof.
  revert b; induction a as [|x a IH]; intros [|y b]; cbn; split; try discriminate; auto.
  - intros H. apply andb_prop in H. destruct H as [H1 H2]. apply Z.eqb_eq in H1. apply IH in H2. congruence.
  - intros H. inversion H; subst. rewrite Z.eqb_refl. cbn. apply IH. reflexivity.
Qed.

Lemma slice_app pre d post : slice (pre ++ d ++ post) (len pre) (len d) = d.
Proof.
  unfold slice, len. rewrite !Nat2Z.id. rewrite skipn_app, skipn_all, Nat.sub_diag. cbn [app skipn].
  rewrite firstn_app, firstn_all, Nat.sub_diag. cbn. apply app_nil_r.
Qed.

Lemma find_starts : forall es pre post name,
  Forall (fun e => wf_key (ename e) /\ u32 (len (edata e)) /\ u32 (etime e)) es ->
  name <> [] ->
  let l := pre ++ flat_map edata es ++ post in
  match find (fun h => eqbl (h_name h) name && negb (invalid (h_name h)))
             (starts (len pre) es ++ [{| h_name := []; h_method := 0; h_orig := 0; h_time := 0; h_size := 0;
                                        h_start := len pre + len (flat_map edata es) |}]) with
  | Some h => Some (slice l (h_start h) (h_size h))
  | None => None end
  = option_map edata (find (fun e => eqbl (ename e) name) es).
Proof.
  induction es as [|e es IH]; intros pre post name He Hn l.
  - cbn. destruct name; [contradiction|]. reflexivity.
  - inversion He as [|? ? ((_ & _ & Hi) & _) He']; subst.
    cbn [starts app find h_name ename].
    destruct (eqbl (ename e) name) eqn:E.
    + rewrite Hi. cbn [negb andb h_start h_size option_map]. f_equal.
      unfold l. cbn [flat_map]. rewrite <- app_assoc. apply slice_app.
    + cbn [andb].
      specialize (IH (pre ++ edata e) post name He' Hn). cbn zeta in IH.
      rewrite len_app in IH. rewrite <- Z.add_assoc in IH.
      unfold l. cbn [flat_map]. rewrite len_app.
      rewrite <- !app_assoc in IH. rewrite <- app_assoc. exact IH.
Qed.

Theorem read_pack : forall a name, wf a -> name <> [] ->
  exists p, open (pack a) = Some p /\
    read_entry (pack a) p name = option_map edata (find (fun e => eqbl (ename e) name) (entries a)).
Proof.
  intros a name W Hn. exists (packed_pbo a). split; [apply open_pack_eq; assumption|].
  destruct a as [ps es]. destruct W as [Hp He]. cbn [props entries] in *.
  unfold read_entry, packed_pbo. cbn [p_hdrs entries].
  set (L := pack {| props := ps; entries := es |}).
  set (pre := hdr_bytes [] VERS 0 0 0 ++ props_bytes ps ++ [0] ++ hdrs_bytes es ++ hdr_bytes [] 0 0 0 0).
  assert (EL : L = pre ++ flat_map edata es ++ []).
  { unfold L, pre, pack. cbn [props entries]. rewrite app_nil_r. rewrite <- !app_assoc. reflexivity. }
  clearbody L pre. subst L.
  assert (Eb : len (pre ++ flat_map edata es ++ []) - len (flat_map edata es) = len pre).
  { rewrite !len_app. change (len (@nil byte)) with 0. lia. }
  rewrite Eb.
  apply (find_starts es pre [] name He Hn).
Qed.

(* ---------- arbitrary (damaged) input ---------- *)
Lemma place_inside : forall hs off hs' e,
  Forall (fun h => 0 <= h_size h) hs -> place off hs = (hs', e) ->
  off <= e /\ Forall (fun h => off <= h_start h /\ h_start h + h_size h <= e /\ 0 <= h_size h) hs'.
Proof.
  induction hs as [|h hs IH]; intros off hs' e F H; cbn [place] in H.
  - inversion H; subst. split; [lia|constructor].
  - destruct (place (off + h_size h) hs) as [r e'] eqn:E. inversion H; subst.
    inversion F as [|? ? Hh F']; subst.
    destruct (IH _ _ _ F' E) as (Le & FA). split; [lia|].
    constructor; [cbn; lia|]. eapply Forall_impl; [|exact FA]. cbn. intros x. lia.
Qed.

Lemma take_hdrs_sizes : forall f l hs r, Forall isbyte l -> take_hdrs f l = Some (hs, r) ->
  Forall (fun h => 0 <= h_size h) hs /\ (length r <= length l)%nat.
Proof.
  induction f as [|f IH]; intros l hs r F H; cbn [take_hdrs] in H; [discriminate|].
  destruct (take_hdr l) as [[h r0]|] eqn:E; [|discriminate].
  destruct (take_hdr_range _ _ _ F E) as (U & F0). pose proof (take_hdr_len _ _ _ E) as (L & _).
  assert (U0 : 0 <= h_size h) by (unfold u32 in U; lia).
  destruct (h_name h) as [|n0 n].
  - inversion H; subst. split; [repeat constructor; assumption|lia].
  - destruct (take_hdrs f r0) as [[hs0 r1]|] eqn:E1; [|discriminate]. inversion H; subst.
    destruct (IH _ _ _ F0 E1) as (FA & L1). split; [constructor; assumption|lia].
Qed.

Lemma take_attrs_suffix : forall f l ps r, take_attrs f l = (ps, r) ->
  (length r <= length l)%nat /\ exists pre, l = pre ++ r.
Proof.
  induction f as [|f IH]; intros l ps r H; cbn [take_attrs] in H.
  - inversion H; subst. split; [lia|exists []; reflexivity].
  - destruct (take_cstr l) as [[k r0]|] eqn:E; [|inversion H; subst; split; [lia|exists []; reflexivity]].
    destruct k as [|k0 k]; [inversion H; subst; split; [lia|exists []; reflexivity]|].
    destruct (take_cstr r0) as [[v r1]|] eqn:E1; [|inversion H; subst; split; [lia|exists []; reflexivity]].
    destruct (take_attrs f r1) as [ps0 r2] eqn:E2. inversion H; subst.
    apply take_cstr_len in E, E1. destruct E as (L & _ & EQ), E1 as (L1 & _ & EQ1).
    destruct (IH _ _ _ E2) as (L2 & pre & EQ2). split; [lia|].
    exists ((k0 :: k) ++ 0 :: v ++ 0 :: pre). rewrite EQ, EQ1, EQ2. rewrite <- !app_assoc. cbn. rewrite <- app_assoc. reflexivity.
Qed.

(* Every entry the reader exposes lies inside the file, for ANY byte string. *)
Theorem exposed_inside : forall l p, Forall isbyte l -> open l = Some p ->
  p_len p = len l /\
  Forall (fun h => 0 <= h_start h /\ 0 <= h_size h /\ h_start h + h_size h <= len l) (p_hdrs p).
Proof.
  intros l p F H. unfold open in H.
  destruct (take_hdr l) as [[h0 r0]|] eqn:E0; [|discriminate].
  destruct (take_attrs (length l) r0) as [ats r1] eqn:E1.
  destruct r1 as [|b r2]; [discriminate|].
  destruct (b =? 0); [|discriminate].
  destruct (take_hdrs (length l) r2) as [[hs r3]|] eqn:E2; [|discriminate].
  destruct (place (len l - len r3) hs) as [hs' e] eqn:E3.
  destruct (Z.leb_spec e (len l)); [|discriminate]. inversion H; subst. cbn [p_len p_hdrs]. split; [reflexivity|].
  destruct (take_hdr_range _ _ _ F E0) as (_ & F0). pose proof (take_hdr_len _ _ _ E0) as (L0 & _).
  destruct (take_attrs_suffix _ _ _ _ E1) as (L1 & pre & EQ1).
  assert (F2 : Forall isbyte r2).
  { rewrite EQ1 in F0. apply Forall_app_r in F0. inversion F0; assumption. }
  destruct (take_hdrs_sizes _ _ _ _ F2 E2) as (FS & L3).
  destruct (place_inside _ _ _ _ FS E3) as (Le & FA).
  assert (0 <= len l - len r3) by (unfold len; cbn [length] in L1; lia).
  eapply Forall_impl; [|exact FA]. cbn. intros x. lia.
Qed.

(* What read_entry returns is exactly h_size bytes of the file: nothing is read past the end and
   the allocation (descriptor().size) is bounded by the file length. *)
Lemma slice_length l s n : 0 <= s -> 0 <= n -> s + n <= len l -> len (slice l s n) = n.
Proof.
  intros Hs Hn H. unfold slice, len in *. rewrite firstn_length, skipn_length. lia.
Qed.

Theorem read_bounded : forall l p name d, Forall isbyte l -> open l = Some p ->
  read_entry l p name = Some d ->
  exists h, In h (p_hdrs p) /\ len d = h_size h /\ h_size h <= len l /\
            d = slice l (h_start h) (h_size h) /\ h_start h + h_size h <= len l.
Proof.
  intros l p name d F H R. destruct (exposed_inside _ _ F H) as (_ & FA).
  unfold read_entry in R.
  destruct (find _ (p_hdrs p)) as [h|] eqn:E; [|discriminate]. inversion R; subst.
  apply find_some in E. destruct E as (I & _).
  rewrite Forall_forall in FA. destruct (FA _ I) as (A & B & C).
  exists h. repeat split; auto; [apply slice_length; lia | lia].
Qed.

(* fuel independence: the reader's loops never run out of fuel at fuel = file length *)
Theorem open_fuel_irrelevant : forall (l:list byte) f, (length l <= f)%nat ->
  forall r0, (length r0 < length l)%nat ->
  take_attrs (length l) r0 = take_attrs f r0 /\ take_hdrs (length l) r0 = take_hdrs f r0.
Proof.
  intros l f Hf r0 Hr. split; [apply take_attrs_fuel|apply take_hdrs_fuel]; lia.
Qed.
