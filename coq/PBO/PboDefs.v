(* M7 - PBO archive reader: executable model of rvutils::pbo::pbofile::open(),
   attributes(), files(), read() + reader::read(), and an independent packer.
   Mirrors src/rvutils/pbofile.hpp; the stream is a byte list plus "rest" suffixes,
   every read is explicit about what happens at the end of the file. *)
From Coq Require Import ZArith List Bool.
Import ListNotations.
Local Open Scope Z_scope.

Notation byte := Z (only parsing).   (* 0..255 *)

(* ---- little-endian u32 (header::bin fields) ---- *)
Definition enc32 (n:Z) : list byte :=
  [n mod 256; (n / 256) mod 256; (n / 65536) mod 256; (n / 16777216) mod 256].
Definition dec32 (l:list byte) : option (Z * list byte) :=
  match l with
  | a :: b :: c :: d :: r => Some (a + 256*b + 65536*c + 16777216*d, r)
  | _ => None end.

(* ---- read_string: NUL-terminated, fails when no NUL before the end of the file ---- *)
Fixpoint take_cstr (l:list byte) : option (list byte * list byte) :=
  match l with
  | [] => None
  | b :: r => if b =? 0 then Some ([], r)
              else match take_cstr r with Some (s, r') => Some (b :: s, r') | None => None end
  end.

(* ---- archive contents as the reader reports them ---- *)
Inductive method := MNone | MEncrypted | MCompressed | MVersion.
Definition VERS := 1449489011.  (* method[0..3] = 's','r','e','V' *)
Definition CPRS := 1131442803.  (* method[0..3] = 's','r','p','C' *)
Definition ENCR := 1164862322.  (* method[0..3] = 'r','c','n','E' *)
Definition method_of (m:Z) : method :=
  if m =? ENCR then MEncrypted else if m =? CPRS then MCompressed else if m =? VERS then MVersion else MNone.

Record hdr := { h_name : list byte; h_method : Z; h_orig : Z; h_time : Z; h_size : Z;
                h_start : Z (* data block start, absolute file offset *) }.

Record pbo := { p_attrs : list (list byte * list byte);
                p_hdrs : list hdr   (* includes the terminating empty-name header, as m_headers does *);
                p_len : Z           (* file length *) }.

(* read_header: name, then the 20-byte packed struct; None when either is cut short *)
Definition take_hdr (l:list byte) : option (hdr * list byte) :=
  match take_cstr l with
  | Some (name, r0) =>
    match dec32 r0 with Some (m, r1) =>
    match dec32 r1 with Some (so, r2) =>
    match dec32 r2 with Some (_, r3) =>
    match dec32 r3 with Some (ts, r4) =>
    match dec32 r4 with Some (sz, r5) =>
      Some ({| h_name := name; h_method := m; h_orig := so; h_time := ts; h_size := sz; h_start := 0 |}, r5)
    | None => None end | None => None end | None => None end | None => None end | None => None end
  | None => None end.

(* read_attribute loop: stops (stream position restored) at an empty or unreadable key,
   or at a key whose value is unreadable *)
Fixpoint take_attrs (f:nat) (l:list byte) : list (list byte * list byte) * list byte :=
  match f with O => ([], l) | S f =>
    match take_cstr l with
    | Some ([], _) => ([], l)
    | Some (k, r) => match take_cstr r with
                     | Some (v, r') => let '(ps, r'') := take_attrs f r' in ((k,v)::ps, r'')
                     | None => ([], l) end
    | None => ([], l) end end.

(* header loop: until a header with an empty name, which is kept as last element *)
Fixpoint take_hdrs (f:nat) (l:list byte) : option (list hdr * list byte) :=
  match f with O => None | S f =>
    match take_hdr l with
    | Some (h, r) =>
        match h_name h with
        | [] => Some ([h], r)
        | _ => match take_hdrs f r with Some (hs, r') => Some (h::hs, r') | None => None end
        end
    | None => None end end.

(* data blocks by accumulated sizes *)
Fixpoint place (off:Z) (hs:list hdr) : list hdr * Z :=
  match hs with
  | [] => ([], off)
  | h :: hs' => let '(r, e) := place (off + h_size h) hs' in
                ({| h_name := h_name h; h_method := h_method h; h_orig := h_orig h; h_time := h_time h;
                    h_size := h_size h; h_start := off |} :: r, e)
  end.

Definition len (l:list byte) : Z := Z.of_nat (length l).

(* pbofile::open() on the content of an existing file *)
Definition open (l:list byte) : option pbo :=
  match take_hdr l with               (* "version header": read, not inspected *)
  | None => None
  | Some (_, r0) =>
      let '(ats, r1) := take_attrs (length l) r0 in
      match r1 with
      | b :: r2 =>
          if b =? 0 then
            match take_hdrs (length l) r2 with
            | None => None
            | Some (hs, r3) =>
                let '(hs', e) := place (len l - len r3) hs in
                if e <=? len l then Some {| p_attrs := ats; p_hdrs := hs'; p_len := len l |}
                else None   (* a data block would lie outside the file *)
            end
          else None
      | [] => None
      end
  end.

(* is_invalid(): non-empty and made of '?' only *)
Definition all_q (s:list byte) : bool := forallb (fun b => b =? 63) s.
Definition invalid (s:list byte) : bool := match s with [] => false | _ => all_q s end.

Definition attributes (p:pbo) : list (list byte * list byte) :=
  filter (fun kv => negb (invalid (fst kv))) (p_attrs p).

Definition files (p:pbo) : list (list byte * method * Z) :=
  map (fun h => (h_name h, method_of (h_method h), h_size h))
      (filter (fun h => negb (invalid (h_name h))) (removelast (p_hdrs p))).

Fixpoint eqbl (a b:list byte) : bool :=
  match a, b with
  | [], [] => true
  | x::a', y::b' => (x =? y) && eqbl a' b'
  | _, _ => false end.

(* attribute(key): first non-invalidated attribute with that key (searches every stored attribute) *)
Definition attribute (p:pbo) (key:list byte) : option (list byte) :=
  match find (fun kv => eqbl (fst kv) key && negb (invalid (fst kv))) (p_attrs p) with
  | Some kv => Some (snd kv) | None => None end.

(* read(name) + reader::read(buf, descriptor().size): first header (of all, the terminating one
   included) with that name *)
Definition slice (l:list byte) (start size:Z) : list byte :=
  firstn (Z.to_nat size) (skipn (Z.to_nat start) l).

Definition read_entry (l:list byte) (p:pbo) (name:list byte) : option (list byte) :=
  match find (fun h => eqbl (h_name h) name && negb (invalid (h_name h))) (p_hdrs p) with
  | Some h => Some (slice l (h_start h) (h_size h))
  | None => None end.

(* ---- independent packer ---- *)
Record entry := { ename : list byte; edata : list byte; etime : Z }.
Record archive := { props : list (list byte * list byte); entries : list entry }.

Definition hdr_bytes (name:list byte) (m so ts sz:Z) : list byte :=
  name ++ 0 :: enc32 m ++ enc32 so ++ enc32 0 ++ enc32 ts ++ enc32 sz.

Definition props_bytes (ps:list (list byte * list byte)) : list byte :=
  flat_map (fun kv => fst kv ++ 0 :: snd kv ++ [0]) ps.
Definition hdrs_bytes (es:list entry) : list byte :=
  flat_map (fun e => hdr_bytes (ename e) 0 (len (edata e)) (etime e) (len (edata e))) es.

Definition pack (a:archive) : list byte :=
  hdr_bytes [] VERS 0 0 0
  ++ props_bytes (props a) ++ [0]
  ++ hdrs_bytes (entries a)
  ++ hdr_bytes [] 0 0 0 0
  ++ flat_map edata (entries a).

(* what a faithful reader must report for a packed archive *)
Definition listing (a:archive) : list (list byte * method * Z) :=
  map (fun e => (ename e, MNone, len (edata e))) (entries a).
