(* C17, damaged archives: truncation and trailing bytes.
   (1) open_ext / read_ext: bytes appended behind an archive the reader accepts (a checksum trailer, padding, garbage)
       change nothing - same properties, same header table, every read returns the same bytes;
   (2) truncation_rejected: EVERY proper prefix of a well-formed packed archive is refused by the reader - a truncated
       archive never exposes an entry at all (so it cannot expose a damaged one);
   (3) data_corruption_local: changing bytes inside the data area only (same length) leaves the table as it was and every
       entry that does not overlap the changed bytes reads back unchanged. *)
From Coq Require Import ZArith List Bool Lia.
Import ListNotations.
From SqfVerif Require Import PBO.PboDefs PBO.PboProofs.
Local Open Scope Z_scope.

(* ---------- the parsers are stable under appended bytes ---------- *)
Lemma take_cstr_ext : forall l s r x, take_cstr l = Some (s, r) -> take_cstr (l ++ x) = Some (s, r ++ x).
Proof.
  induction l as [|b l IH]; intros s r x H; cbn in H; [discriminate|].
  cbn [app take_cstr]. destruct (b =? 0) eqn:Eb.
  - inversion H; subst. reflexivity.
  - destruct (take_cstr l) as [[s' r']|] eqn:E; [|discriminate]. inversion H; subst.
    rewrite (IH _ _ x eq_refl). reflexivity.
Qed.

Lemma dec32_ext : forall l n r x, dec32 l = Some (n, r) -> dec32 (l ++ x) = Some (n, r ++ x).
Proof.
  intros l n r x. destruct l as [|a [|b [|c [|d l]]]]; cbn [dec32]; try discriminate.
  intros H; inversion H; subst. reflexivity.
Qed.

Lemma take_hdr_ext : forall l h r x, take_hdr l = Some (h, r) -> take_hdr (l ++ x) = Some (h, r ++ x).
Proof.
  intros l h r x. unfold take_hdr.
  destruct (take_cstr l) as [[name r0]|] eqn:E0; [|discriminate]. rewrite (take_cstr_ext _ _ _ x E0).
  destruct (dec32 r0) as [[m r1]|] eqn:E1; [|discriminate]. rewrite (dec32_ext _ _ _ x E1).
  destruct (dec32 r1) as [[so r2]|] eqn:E2; [|discriminate]. rewrite (dec32_ext _ _ _ x E2).
  destruct (dec32 r2) as [[u r3]|] eqn:E3; [|discriminate]. rewrite (dec32_ext _ _ _ x E3).
  destruct (dec32 r3) as [[ts r4]|] eqn:E4; [|discriminate]. rewrite (dec32_ext _ _ _ x E4).
  destruct (dec32 r4) as [[sz r5]|] eqn:E5; [|discriminate]. rewrite (dec32_ext _ _ _ x E5).
  intros H; inversion H; subst. reflexivity.
Qed.

Lemma take_hdrs_ext : forall f l hs r x f', take_hdrs f l = Some (hs, r) -> (f <= f')%nat ->
  take_hdrs f' (l ++ x) = Some (hs, r ++ x).
Proof.
  induction f as [|f IH]; intros l hs r x f' H Hf; cbn [take_hdrs] in H; [discriminate|].
  destruct f' as [|f']; [lia|]. cbn [take_hdrs].
  destruct (take_hdr l) as [[h r0]|] eqn:E; [|discriminate]. rewrite (take_hdr_ext _ _ _ x E).
  destruct (h_name h) as [|n0 n]; [inversion H; subst; reflexivity|].
  destruct (take_hdrs f r0) as [[hs' r']|] eqn:E'; [|discriminate]. inversion H; subst.
  rewrite (IH _ _ _ x f' E') by lia. reflexivity.
Qed.

(* the attribute loop, when it stopped in front of a NUL byte (the only stop the reader goes on from) *)
Lemma take_attrs_ext : forall f l ps r2 x f', take_attrs f l = (ps, 0 :: r2) -> (f <= f')%nat ->
  take_attrs f' (l ++ x) = (ps, (0 :: r2) ++ x).
Proof.
  induction f as [|f IH]; intros l ps r2 x f' H Hf.
  - cbn [take_attrs] in H. inversion H; subst. destruct f'; reflexivity.
  - destruct f' as [|f']; [lia|]. cbn [take_attrs] in *.
    destruct (take_cstr l) as [[k r]|] eqn:E.
    + rewrite (take_cstr_ext _ _ _ x E). destruct k as [|k0 k].
      * inversion H; subst. reflexivity.
      * destruct (take_cstr r) as [[v r']|] eqn:E'.
        -- rewrite (take_cstr_ext _ _ _ x E').
           destruct (take_attrs f r') as [ps' r''] eqn:EA. inversion H; subst.
           rewrite (IH _ _ _ x f' EA) by lia. reflexivity.
        -- inversion H; subst. cbn in E. discriminate.
    + inversion H; subst. cbn in E. discriminate.
Qed.

(* ---------- what an accepted archive consists of ---------- *)
Lemma open_inv : forall l p, open l = Some p ->
  exists h0 r0 ats r2 hs r3,
    take_hdr l = Some (h0, r0) /\ take_attrs (length l) r0 = (ats, 0 :: r2) /\
    take_hdrs (length l) r2 = Some (hs, r3) /\
    p = {| p_attrs := ats; p_hdrs := fst (place (len l - len r3) hs); p_len := len l |} /\
    snd (place (len l - len r3) hs) <= len l.
Proof.
  intros l p. unfold open.
  destruct (take_hdr l) as [[h0 r0]|] eqn:E0; [|discriminate].
  destruct (take_attrs (length l) r0) as [ats r1] eqn:E1.
  destruct r1 as [|b r2]; [discriminate|].
  destruct (Z.eqb_spec b 0) as [->|]; [|discriminate].
  destruct (take_hdrs (length l) r2) as [[hs r3]|] eqn:E2; [|discriminate].
  destruct (place (len l - len r3) hs) as [hs' e] eqn:EP.
  destruct (Z.leb_spec e (len l)); [|discriminate].
  intros HH; inversion HH; subst. exists h0, r0, ats, r2, hs, r3. rewrite EP. cbn [fst snd]. repeat split; auto.
Qed.

Lemma open_build : forall l h0 r0 ats r2 hs r3,
  take_hdr l = Some (h0, r0) -> take_attrs (length l) r0 = (ats, 0 :: r2) ->
  take_hdrs (length l) r2 = Some (hs, r3) -> snd (place (len l - len r3) hs) <= len l ->
  open l = Some {| p_attrs := ats; p_hdrs := fst (place (len l - len r3) hs); p_len := len l |}.
Proof.
  intros l h0 r0 ats r2 hs r3 E0 E1 E2 Hle. unfold open. rewrite E0, E1. cbn [Z.eqb]. rewrite E2.
  destruct (place (len l - len r3) hs) as [hs' e] eqn:EP. cbn [fst snd] in *.
  destruct (Z.leb_spec e (len l)); [reflexivity|lia].
Qed.

(* (1) appended bytes change nothing *)
Theorem open_ext : forall l p x, open l = Some p ->
  open (l ++ x) = Some {| p_attrs := p_attrs p; p_hdrs := p_hdrs p; p_len := len l + len x |}.
Proof.
  intros l p x H. destruct (open_inv _ _ H) as (h0 & r0 & ats & r2 & hs & r3 & E0 & E1 & E2 & -> & Hle).
  assert (Hf : (length l <= length (l ++ x))%nat) by (rewrite app_length; lia).
  pose proof (take_hdr_ext _ _ _ x E0) as F0.
  pose proof (take_attrs_ext _ _ _ _ x _ E1 Hf) as F1. cbn [app] in F1.
  pose proof (take_hdrs_ext _ _ _ _ x _ E2 Hf) as F2.
  assert (EQ : len (l ++ x) - len (r3 ++ x) = len l - len r3) by (rewrite !len_app; lia).
  assert (Hle' : snd (place (len (l ++ x) - len (r3 ++ x)) hs) <= len (l ++ x)).
  { rewrite EQ, len_app. assert (0 <= len x) by (unfold len; lia). lia. }
  rewrite (open_build _ _ _ _ _ _ _ F0 F1 F2 Hle'). rewrite EQ, len_app. reflexivity.
Qed.

Lemma slice_ext : forall l x s n, 0 <= s -> 0 <= n -> s + n <= len l -> slice (l ++ x) s n = slice l s n.
Proof.
  intros l x s n Hs Hn Hle. unfold slice, len in *.
  rewrite skipn_app. rewrite firstn_app.
  replace (Z.to_nat n - length (skipn (Z.to_nat s) l))%nat with 0%nat by (rewrite skipn_length; lia).
  cbn [firstn]. apply app_nil_r.
Qed.

Theorem read_ext : forall l p x name, Forall isbyte l -> open l = Some p ->
  read_entry (l ++ x) {| p_attrs := p_attrs p; p_hdrs := p_hdrs p; p_len := len l + len x |} name = read_entry l p name.
Proof.
  intros l p x name Fb H. unfold read_entry. cbn [p_hdrs].
  destruct (find _ (p_hdrs p)) as [h|] eqn:EF; [|reflexivity].
  apply find_some in EF. destruct EF as [Hin _].
  destruct (exposed_inside _ _ Fb H) as [_ FA]. rewrite Forall_forall in FA. destruct (FA _ Hin) as (A & B & C).
  rewrite slice_ext by assumption. reflexivity.
Qed.

(* ---------- placing data blocks: sizes, end and first start ---------- *)
Definition sumz (l:list Z) : Z := fold_right Z.add 0 l.

Lemma place_fst_sizes : forall hs off, map h_size (fst (place off hs)) = map h_size hs.
Proof.
  induction hs as [|h hs IH]; intros off; cbn [place]; [reflexivity|].
  specialize (IH (off + h_size h)). destruct (place (off + h_size h) hs) as [r e]. cbn [fst map h_size] in *. now rewrite IH.
Qed.

Lemma place_snd : forall hs off, snd (place off hs) = off + sumz (map h_size hs).
Proof.
  induction hs as [|h hs IH]; intros off; cbn [place]; [cbn; lia|].
  specialize (IH (off + h_size h)). destruct (place (off + h_size h) hs) as [r e]. cbn [snd map sumz fold_right] in *.
  fold (sumz (map h_size hs)). lia.
Qed.

Lemma place_head : forall h hs off, exists t rest, fst (place off (h :: hs)) = t :: rest /\ h_start t = off.
Proof.
  intros h hs off. cbn [place]. destruct (place (off + h_size h) hs) as [r e]. cbn [fst]. eexists. eexists. split; reflexivity.
Qed.

Lemma sizes_starts : forall es b, sumz (map h_size (starts b es)) = len (flat_map edata es).
Proof.
  induction es as [|e es IH]; intros b; [reflexivity|].
  cbn [starts map h_size sumz fold_right flat_map]. fold (sumz (map h_size (starts (b + len (edata e)) es))).
  rewrite IH, len_app. reflexivity.
Qed.

Lemma take_hdrs_nonempty : forall f l hs r, take_hdrs f l = Some (hs, r) -> hs <> [].
Proof.
  destruct f as [|f]; intros l hs r H; cbn [take_hdrs] in H; [discriminate|].
  destruct (take_hdr l) as [[h r0]|]; [|discriminate].
  destruct (h_name h); [inversion H; discriminate|].
  destruct (take_hdrs f r0) as [[hs' r']|]; [inversion H; discriminate|discriminate].
Qed.

(* (2) every proper prefix of a packed archive is refused: a truncated archive exposes nothing *)
Theorem truncation_rejected : forall a n, wf a -> (n < length (pack a))%nat -> open (firstn n (pack a)) = None.
Proof.
  intros a n W Hn. destruct (open (firstn n (pack a))) as [p|] eqn:E; [exfalso|reflexivity].
  pose proof (open_ext _ _ (skipn n (pack a)) E) as HX. rewrite firstn_skipn in HX.
  rewrite (open_pack_eq _ W) in HX.
  assert (HH : p_hdrs (packed_pbo a) = p_hdrs p).
  { apply (f_equal (fun o => match o with Some q => p_hdrs q | None => [] end)) in HX. exact HX. }
  clear HX.
  destruct (open_inv _ _ E) as (h0 & r0 & ats & r2 & hs & r3 & _ & _ & E2 & Hp & Hle).
  set (l := firstn n (pack a)) in *. set (o := len l - len r3) in *.
  rewrite Hp in HH. cbn [p_hdrs] in HH.
  assert (Hl : len l < len (pack a)). { unfold len, l. rewrite firstn_length. lia. }
  set (D := len (flat_map edata (entries a))) in *.
  set (base := len (pack a) - D) in *.
  (* sizes: the table of the prefix carries the sizes of the packed table *)
  assert (HS : sumz (map h_size hs) = D).
  { rewrite <- (place_fst_sizes hs o), <- HH. unfold packed_pbo. cbn [p_hdrs]. fold D. fold base.
    rewrite map_app. unfold sumz. rewrite fold_right_app. cbn [map fold_right h_size].
    replace (0 + 0) with 0 by lia.
    change (fold_right Z.add 0 (map h_size (starts base (entries a)))) with (sumz (map h_size (starts base (entries a)))).
    apply sizes_starts. }
  (* first start: both tables begin where the data begins *)
  assert (HO : o = base).
  { pose proof (take_hdrs_nonempty _ _ _ _ E2) as NE. destruct hs as [|h hs']; [contradiction|].
    destruct (place_head h hs' o) as (t & rest & Ht & Hst). rewrite Ht in HH. unfold packed_pbo in HH. cbn [p_hdrs] in HH. fold D in HH. fold base in HH.
    destruct (entries a) as [|e es] eqn:EE.
    - cbn [starts app] in HH. inversion HH as [[H1 H2]]. rewrite <- H1 in Hst. cbn [h_start] in Hst.
      assert (D = 0) by (unfold D, len; reflexivity). lia.
    - cbn [starts app] in HH. inversion HH as [[H1 H2]]. rewrite <- H1 in Hst. cbn [h_start] in Hst. lia. }
  rewrite place_snd, HS, HO in Hle. unfold base in Hle. lia.
Qed.

(* (3) corruption inside the data area only: the reader reports the same table; entries away from the changed bytes are intact *)
Theorem data_corruption_table : forall a d', wf a -> length d' = length (flat_map edata (entries a)) ->
  let L := pack a in
  let L' := firstn (length L - length d') L ++ d' in
  exists p', open L' = Some p' /\ p_attrs p' = props a /\ p_hdrs p' = p_hdrs (packed_pbo a) /\ p_len p' = len L.
Proof.
  intros a d' W Hd L L'.
  (* the header part of the packed archive, on its own, followed by any data of the same length *)
  set (H := hdr_bytes [] VERS 0 0 0 ++ props_bytes (props a) ++ [0] ++ hdrs_bytes (entries a) ++ hdr_bytes [] 0 0 0 0).
  assert (EL : L = H ++ flat_map edata (entries a)).
  { unfold L, pack, H. rewrite <- !app_assoc. reflexivity. }
  assert (EF : firstn (length L - length d') L = H).
  { rewrite EL, app_length, Hd. replace (length H + length (flat_map edata (entries a)) - length (flat_map edata (entries a)))%nat with (length H + 0)%nat by lia.
    rewrite firstn_app_2. cbn [firstn]. apply app_nil_r. }
  unfold L'. rewrite EF.
  destruct a as [ps es]. destruct W as [Hp He]. cbn [props entries] in *.
  assert (Lp : (length ps < length (H ++ d'))%nat).
  { unfold H. rewrite !app_length. cbn [props]. pose proof (props_bytes_len ps). cbn [length]. lia. }
  assert (Le : (length es < length (H ++ d'))%nat).
  { unfold H. rewrite !app_length. cbn [entries]. pose proof (hdrs_bytes_len es). cbn [length]. lia. }
  assert (LEN : len (H ++ d') = len L).
  { rewrite EL. rewrite !len_app. unfold len. rewrite Hd. reflexivity. }
  eexists. split.
  - unfold open. unfold H at 1. cbn [props entries]. rewrite <- !app_assoc.
    rewrite take_hdr_hdr; [|constructor|unfold u32, VERS; lia|apply u32_0|apply u32_0|apply u32_0].
    cbn [app].
    rewrite take_attrs_ok by auto.
    rewrite Z.eqb_refl.
    rewrite take_hdrs_ok by auto.
    rewrite place_pack.
    replace (len (H ++ d') - len d' + len (flat_map edata es)) with (len (H ++ d')).
    2:{ rewrite len_app. assert (len d' = len (flat_map edata es)) by (unfold len; rewrite Hd; reflexivity). lia. }
    rewrite Z.leb_refl. reflexivity.
  - cbn [p_attrs p_hdrs p_len]. unfold packed_pbo. cbn [props entries p_hdrs]. fold L.
    assert (EB : len (H ++ d') - len d' = len L - len (flat_map edata es)).
    { rewrite LEN. assert (len d' = len (flat_map edata es)) by (unfold len; rewrite Hd; reflexivity). lia. }
    rewrite EB. repeat split; auto. rewrite LEN.
    replace (len L - len (flat_map edata es) + len (flat_map edata es)) with (len L) by lia. reflexivity.
Qed.

(* ... and an entry whose own bytes were not among the changed ones reads back exactly as stored: for the entry e standing
   behind the entries `pre` (first of its name), if the damaged data area still holds e's bytes at e's place, reading e from the
   damaged archive returns them - whatever happened to the bytes of the other entries. *)
Lemma find_starts_at : forall pre e post b,
  Forall (fun x => wf_key (ename x) /\ u32 (len (edata x)) /\ u32 (etime x)) (pre ++ e :: post) ->
  Forall (fun x => eqbl (ename x) (ename e) = false) pre ->
  forall tl, find (fun h => eqbl (h_name h) (ename e) && negb (invalid (h_name h))) (starts b (pre ++ e :: post) ++ tl)
  = Some {| h_name := ename e; h_method := 0; h_orig := len (edata e); h_time := etime e;
            h_size := len (edata e); h_start := b + len (flat_map edata pre) |}.
Proof.
  induction pre as [|x pre IH]; intros e post b HF HN tl.
  - cbn [app starts find h_name flat_map]. inversion HF as [|? ? ((_ & _ & Hi) & _) _]; subst.
    rewrite (proj2 (eqbl_spec (ename e) (ename e)) eq_refl), Hi. cbn [negb andb].
    change (len (@nil byte)) with 0. rewrite Z.add_0_r. reflexivity.
  - inversion HF as [|? ? _ HF']; subst. inversion HN as [|? ? Hx HN']; subst.
    cbn [app starts find h_name]. rewrite Hx. cbn [andb].
    rewrite (IH e post (b + len (edata x)) HF' HN' tl). cbn [flat_map]. rewrite len_app. f_equal. f_equal. lia.
Qed.

Theorem data_corruption_intact_entry : forall ps pre e post d',
  let a := {| props := ps; entries := pre ++ e :: post |} in
  wf a -> length d' = length (flat_map edata (entries a)) ->
  Forall (fun x => eqbl (ename x) (ename e) = false) pre ->
  slice d' (len (flat_map edata pre)) (len (edata e)) = edata e ->
  let L := pack a in
  let L' := firstn (length L - length d') L ++ d' in
  exists p', open L' = Some p' /\ read_entry L' p' (ename e) = Some (edata e).
Proof.
  intros ps pre e post d' a W Hd HN HS L L'.
  destruct (data_corruption_table a d' W Hd) as (p' & HO & _ & HH & _).
  exists p'. split; [exact HO|].
  unfold read_entry. rewrite HH. unfold packed_pbo. cbn [p_hdrs]. fold L.
  destruct W as [_ He]. cbn [entries a] in *.
  rewrite (find_starts_at pre e post _ He HN). cbn [h_start h_size]. f_equal.
  (* the slice of L' at e's place is the slice of d' at e's offset in the data area *)
  set (D := flat_map edata (pre ++ e :: post)) in *.
  assert (EL : (length L - length d')%nat = length (firstn (length L - length d') L)).
  { rewrite firstn_length. lia. }
  set (H := firstn (length L - length d') L) in *.
  assert (LH : len H = len L - len D).
  { unfold len. rewrite <- EL. assert (length d' <= length L)%nat.
    { rewrite Hd. unfold L, pack. rewrite !app_length. cbn [entries a]. fold D. lia. }
    rewrite Nat2Z.inj_sub by assumption. rewrite Hd. reflexivity. }
  unfold L'. unfold slice. rewrite <- LH.
  replace (Z.to_nat (len H + len (flat_map edata pre))) with (length H + Z.to_nat (len (flat_map edata pre)))%nat
    by (unfold len; lia).
  rewrite skipn_app. rewrite skipn_all2 by lia.
  replace (length H + Z.to_nat (len (flat_map edata pre)) - length H)%nat with (Z.to_nat (len (flat_map edata pre))) by lia.
  cbn [app]. exact HS.
Qed.
