(* C20 - process state shared by all VM instances of one process, and programs that read / write it.
   G is what translators/statics.py finds in the writable sections of the implementation (Gen/Statics.v), classified below;
   the two components a script can observe are the print mode of scalars (d_scalar::s_decimals, set by toFixed, read by
   str / diag_log / format of every number) and the preprocessor's __COUNTER__.
   Switches: d_dec_global / d_ctr_global say whether the component lives in the process (as the code has it) or in the
   instance (what isolation demands).  No proofs here. *)
From Coq Require Import String Ascii.
From Coq Require Import ZArith List Bool.
From SqfVerif Require Import VM.VmDefs.
Import ListNotations.
Local Open Scope string_scope.
Local Open Scope list_scope.

Record gstate := { g_dec : Z; g_ctr : nat }.                 (* d_scalar::s_decimals (-1 = shortest form), __counter__ *)
Definition g0 : gstate := {| g_dec := -1; g_ctr := 0 |}.     (* a fresh process *)

Record idefects := { d_dec_global : bool; d_ctr_global : bool }.
Definition iso_as_is : idefects := {| d_dec_global := true; d_ctr_global := true |}.       (* /repo before C20-01 *)
Definition iso_counter_fixed : idefects := {| d_dec_global := true; d_ctr_global := false |}.   (* with C20-01; toFixed is finding tofixed-process-wide *)
Definition iso_spec : idefects := {| d_dec_global := false; d_ctr_global := false |}.

Record istate := { i_dec : Z; i_ctr : nat; i_vars : list string }.
Definition fresh : istate := {| i_dec := -1; i_ctr := 0; i_vars := [] |}.

Inductive gop :=
| GToFixed (k:Z)           (* toFixed k                      ops_math.cpp:422 *)
| GPrint (n:Z)             (* diag_log str n  (an integer)   d_scalar.cpp:6 *)
| GCounter                 (* diag_log __COUNTER__  (the count is spliced into the text as a number, printed like one)  default.cpp:1242 *)
| GCounterReset            (* __COUNTER_RESET__              default.cpp:1234 *)
| GSet (x:string)          (* x = 1 (a global variable of the instance) *)
| GIsNil (x:string)        (* diag_log str isNil "x" *)
| GPure (out:list string). (* anything that prints no number and touches neither *)

(* tofixed_scalar: the argument is clamped to -1 / 0..20 *)
Definition clamp_dec (k:Z) : Z := if Z.ltb 20 k then 20 else if Z.ltb k 0 then -1 else k.
Fixpoint zeros (n:nat) : string := match n with O => "" | S n' => append "0" (zeros n') end.
(* to_string_sqf of an integer-valued scalar: "%g" or "%0.*f" *)
Definition fmt (dec:Z) (n:Z) : string :=
  if Z.ltb dec 0 then show_Z n
  else if Z.eqb dec 0 then show_Z n else append (show_Z n) (append "." (zeros (Z.to_nat dec))).

Section Iso.
Variable d : idefects.

Definition dec_of (g:gstate) (i:istate) : Z := if d_dec_global d then g_dec g else i_dec i.
Definition ctr_of (g:gstate) (i:istate) : nat := if d_ctr_global d then g_ctr g else i_ctr i.
Definition set_dec (g:gstate) (i:istate) (k:Z) : gstate * istate :=
  if d_dec_global d then ({| g_dec := k; g_ctr := g_ctr g |}, i) else (g, {| i_dec := k; i_ctr := i_ctr i; i_vars := i_vars i |}).
Definition set_ctr (g:gstate) (i:istate) (c:nat) : gstate * istate :=
  if d_ctr_global d then ({| g_dec := g_dec g; g_ctr := c |}, i) else (g, {| i_dec := i_dec i; i_ctr := c; i_vars := i_vars i |}).

Definition op_step (g:gstate) (i:istate) (o:gop) : gstate * istate * list string :=
  match o with
  | GToFixed k => let (g', i') := set_dec g i (clamp_dec k) in (g', i', [])
  | GPrint n => (g, i, [fmt (dec_of g i) n])
  | GCounter => let c := ctr_of g i in let (g', i') := set_ctr g i (S c) in (g', i', [fmt (dec_of g i) (Z.of_nat c)])
  | GCounterReset => let (g', i') := set_ctr g i 0 in (g', i', [])
  | GSet x => (g, {| i_dec := i_dec i; i_ctr := i_ctr i; i_vars := x :: i_vars i |}, [])
  | GIsNil x => (g, i, [if existsb (String.eqb x) (i_vars i) then "false" else "true"])
  | GPure out => (g, i, out)
  end.

Fixpoint run_from (g:gstate) (i:istate) (p:list gop) : gstate * istate * list string :=
  match p with
  | [] => (g, i, [])
  | o :: p' => let '(g1, i1, out1) := op_step g i o in
               let '(g2, i2, out2) := run_from g1 i1 p' in (g2, i2, out1 ++ out2) end.

(* a program in a FRESH VM instance of a process whose shared state is g *)
Definition run (g:gstate) (p:list gop) : list string * gstate :=
  let '(g', _, out) := run_from g fresh p in (out, g').
Definition out_of (g:gstate) (p:list gop) : list string := fst (run g p).
Definition after (g:gstate) (q:list gop) : gstate := snd (run g q).

(* which shared components an operation reads / writes *)
Inductive comp := Dec | Ctr.
Definition reads_op (o:gop) : list comp :=
  match o with
  | GPrint _ => if d_dec_global d then [Dec] else []
  | GCounter => (if d_dec_global d then [Dec] else []) ++ (if d_ctr_global d then [Ctr] else [])
  | _ => [] end.
Definition writes_op (o:gop) : list comp :=
  match o with
  | GToFixed _ => if d_dec_global d then [Dec] else []
  | GCounter | GCounterReset => if d_ctr_global d then [Ctr] else []
  | _ => [] end.
Definition reads (p:list gop) : list comp := flat_map reads_op p.
Definition writes (p:list gop) : list comp := flat_map writes_op p.
End Iso.

Definition comp_eqb (a b:comp) : bool := match a, b with Dec, Dec | Ctr, Ctr => true | _, _ => false end.
Definition mem_comp (c:comp) (l:list comp) : bool := existsb (comp_eqb c) l.
Definition disjoint (a b:list comp) : bool := forallb (fun c => negb (mem_comp c b)) a.
Definition agree (l:list comp) (g g':gstate) : Prop :=
  (mem_comp Dec l = true -> g_dec g = g_dec g') /\ (mem_comp Ctr l = true -> g_ctr g = g_ctr g').

(* ------------------------------------------------------------------ what the statics are (Gen/Statics.v), classified *)
Inductive gclass :=
| Mode        (* set by one script, read by others: breaks isolation; modelled as a component of gstate *)
| Registry    (* lazily filled, append-only tables whose entries depend only on the key (type ids / names) *)
| Scratch     (* written before every read within one operator call *)
| Constant.   (* initialised when the image is loaded, never written afterwards *)

Definition modelled_G : list (string * gclass) := [
  ("(anonymous namespace)::helpermethod_callextension_loadlibrary()::buffer", Scratch);
  ("sqf::runtime::localNamespace", Constant);
  ("sqf::runtime::missionNamespace", Constant);
  ("sqf::runtime::parsingNamespace", Constant);
  ("sqf::runtime::profileNamespace", Constant);
  ("sqf::runtime::type::extend<*>::s_local_type_value", Registry);
  ("sqf::runtime::type::namemap_nc()::map", Registry);
  ("sqf::runtime::type::s_type_value", Registry);
  ("sqf::runtime::type::typemap_nc()::map", Registry);
  ("sqf::runtime::uiNamespace", Constant);
  ("sqf::types::d_scalar::s_decimals", Mode);
  ("sqf::types::d_switch::magic", Constant)
].
(* the Mode entries are exactly the components of gstate that are process-wide under iso_counter_fixed *)
Definition modes : list string := map fst (filter (fun e => match snd e with Mode => true | _ => false end) modelled_G).

(* ------------------------------------------------------------------ printing for the driver *)
Fixpoint join (sep:string) (l:list string) : string :=
  match l with [] => "" | [x] => x | x :: r => append x (append sep (join sep r)) end.
