(* C19 - runtime::execute(action) for all six control actions, on top of the shared VM model.
   start / stop / abort / assembly_step are VmExec.execute; line_step and leave_scope (which the shared model
   leaves out because they need source positions) are modelled here with a per-instruction position table
   dg : code -> index -> (line, column).  Mirrors src/runtime/runtime.cpp:328-666 and frame.h:238-245 (peek).
   Defect switches describe the code BEFORE the repairs proposed in /verif/proposed_fixes/C19-0x; the theorems
   are about ctl_repaired, the ..._refuted theorems exhibit the witnesses with a switch on.  No proofs here. *)
From Coq Require Import String Ascii.
From Coq Require Import ZArith List Bool.
From SqfVerif Require Import Gen.DiagCodes VM.VmDefs VM.VmExec.
Import ListNotations.
Local Open Scope string_scope.
Local Open Scope list_scope.

Record cdefects := {
  (* C19-01: start / line_step (and leave_scope) on a runtime without scripts leave res = invalid, hence halted_error *)
  d_noscript_invalid : bool;
  (* C19-02: leave_scope and line_step dereference m_context_active without selecting a context first
     (null on a never-started runtime) and call current_frame() on a context that ran out of frames *)
  d_null_active : bool;
  (* C19-03: line_step compares the whole diag_info (column, offset) and frame::peek of a scope that has not started
     answers with the LAST instruction: a line step is an instruction step *)
  d_line_is_instr : bool;
  (* C19-04: the exit path of leave_scope clears m_contexts but keeps m_context_active: the discarded script is still
     executed by later actions (not representable with positions: modelled as an explicit outcome) *)
  d_leave_keeps_active : bool }.
Definition ctl_as_is : cdefects := {| d_noscript_invalid := true; d_null_active := true; d_line_is_instr := true; d_leave_keeps_active := true |}.
Definition ctl_repaired : cdefects := {| d_noscript_invalid := false; d_null_active := false; d_line_is_instr := false; d_leave_keeps_active := false |}.

Notation pos := (nat * nat)%type (only parsing).   (* line, column (the column stands for column+offset+segment) *)

(* prologue of every executing action (runtime.cpp:337-341 etc.): CAS succeeded, begin_run_if_empty, both requests cleared *)
Definition enter (r:rt) : rt := set_halt_req (set_exit_req (begin_run_if_empty (set_run r true)) false) false.

Section Ctl.
Variable d : cdefects.
Variable dg : code -> nat -> nat * nat.

(* res before the loop: invalid (runtime.cpp:330); the repair sets empty when there is nothing to run *)
Definition first_res (r:rt) : rresult :=
  if d_noscript_invalid d then RInvalid else match r_ctxs r with [] => REmpty | _ => RInvalid end.

(* frame::peek(success) (frame.h:233): index of the instruction the next step executes, None = success false *)
Definition peek (f:frame) : res (option nat) :=
  let size := length (f_code f) in
  let p := f_pos f in
  if d_line_is_instr d then
    (* pos = m_position >= size ? size - 1 : m_position + 1   with m_position = p - 1, position_invalid = max *)
    if orb (Nat.eqb p 0) (Nat.leb (S size) p) then
      match size with
      | O => UB "frame::peek: size() - 1 on an empty instruction set"
      | S k => Ok (Some k) end
    else if Nat.ltb p size then Ok (Some p) else Ok None
  else
    let q := if Nat.eqb p 0 then 0 else if Nat.leb (S size) p then size else p in
    if Nat.ltb q size then Ok (Some q) else Ok None.

(* the frame line_step looks at: m_context_active->current_frame() as it stands, or (repaired) context_active() and a
   test for a context without frames *)
Definition look (r:rt) : res (rt * option frame) :=
  if d_null_active d then
    match cur r with
    | None => UB "m_context_active is null (line_step / leave_scope on a runtime whose script was never started)"
    | Some c => match c_frames c with
                | [] => UB "current_frame() of a context without frames (vector::back of an empty vector)"
                | f :: _ => Ok (r, Some f) end end
  else
    let r0 := resolve_active r in
    match cur r0 with
    | None => UB "context index"
    | Some c => Ok (r0, hd_error (c_frames c)) end.

Definition differs (a b:nat*nat) : bool :=
  if d_line_is_instr d then negb (andb (Nat.eqb (fst a) (fst b)) (Nat.eqb (snd a) (snd b)))
  else negb (Nat.eqb (fst a) (fst b)).

Definition peek_pos (f:frame) : res (option (nat*nat)) :=
  bindr (peek f) (fun o => Ok (match o with Some i => Some (dg (f_code f) i) | None => None end)).

Definition loop_on (r:rt) : bool :=
  andb (negb (r_exit_req r)) (andb (negb (r_halt_req r)) (match r_ctxs r with [] => false | _ => true end)).

(* the while loop of action::line_step (runtime.cpp:549-574) *)
Fixpoint line_loop (fuel:nat) (r:rt) (dinf:option (nat*nat)) (x:rresult) : res (rresult * rt) :=
  match fuel with O => Hang "line_step does not return" | S fuel' =>
    if negb (loop_on r) then Ok (x, r)
    else
      bindr (match dinf with
             | Some _ => if d_null_active d then Ok (r, dinf) else Ok (resolve_active r, dinf)
             | None => bindr (look r) (fun '(r0, top) =>
                         match top with
                         | Some f => bindr (peek_pos f) (fun o => Ok (r0, o))
                         | None => Ok (r0, None) end) end)
        (fun '(r0, dinf1) =>
          bindr (execute_do exec_fuel (resolve_active r0) 1) (fun '(x1, r1) =>
            match x1 with
            | ROk =>
                match dinf1 with
                | None => line_loop fuel' r1 dinf1 x1
                | Some d0 =>
                    bindr (look r1) (fun '(r2, top) =>
                      match top with
                      | None => line_loop fuel' r2 dinf1 x1
                      | Some f => bindr (peek_pos f) (fun o =>
                                    match o with
                                    | Some d1 => if differs d0 d1 then Ok (x1, r2) else line_loop fuel' r2 dinf1 x1
                                    | None => line_loop fuel' r2 dinf1 x1 end) end) end
            | _ => Ok (x1, r1) end))
  end.

(* the while loop of action::leave_scope (runtime.cpp:342-354); scope = None stands for frames_size() - 1 wrapped around *)
Fixpoint leave_loop (fuel:nat) (r:rt) (scope:option nat) (x:rresult) : res (rresult * rt) :=
  match fuel with O => Hang "leave_scope does not return" | S fuel' =>
    if negb (loop_on r) then Ok (x, r)
    else
      bindr (execute_do exec_fuel (resolve_active r) 1) (fun '(x1, r1) =>
        match x1 with
        | ROk =>
            match cur r1 with
            | None => UB "active context vanished"
            | Some c => match scope with
                        | None => Ok (x1, r1)
                        | Some n => if Nat.leb (length (c_frames c)) n then Ok (x1, r1) else leave_loop fuel' r1 scope x1 end end
        | _ => Ok (x1, r1) end)
  end.

(* frames_size() - 1 of the context that is going to execute *)
Definition scope_num (r:rt) : res (rt * option nat) :=
  if d_null_active d then
    match cur r with
    | None => UB "m_context_active is null (line_step / leave_scope on a runtime whose script was never started)"
    | Some c => Ok (r, match length (c_frames c) with O => None | S k => Some k end) end
  else
    match r_ctxs r with
    | [] => Ok (r, Some 0)
    | _ => let r0 := resolve_active r in
           match cur r0 with
           | None => UB "context index"
           | Some c => Ok (r0, match length (c_frames c) with O => None | S k => Some k end) end end.

Definition execute_ctl (a:action) (r:rt) : res (rresult * rt) :=
  match a with
  | AStart =>
      if r_run r then Ok (RActionError, r)
      else
        let r0 := set_state (enter r) StRunning in
        bindr (start_loop exec_fuel r0 (first_res r0)) (fun '(x, r1) => Ok (x, finish_action x r1))
  | ALineStep =>
      if r_run r then Ok (RActionError, r)
      else
        let r0 := set_state (enter r) StRunning in
        bindr (line_loop exec_fuel r0 None (first_res r0)) (fun '(x, r1) => Ok (x, finish_action x r1))
  | ALeaveScope =>
      if r_run r then Ok (RActionError, r)
      else
        bindr (scope_num (enter r)) (fun '(r0, scope) =>
          let r1 := set_state r0 StRunning in
          bindr (leave_loop exec_fuel r1 scope (first_res r1)) (fun '(x, r2) =>
            if andb (d_leave_keeps_active d) (r_exit_req r2)
            then Unsupported "leave_scope interrupted by an exit request keeps the discarded context active"
            else Ok (x, finish_action x r2)))
  | AStop | AAbort | AAssemblyStep => execute a r
  end.

(* ------------------------------------------------------------------ observations (harness/h_ctl.cpp observe) *)
Definition show_active (r:rt) : string :=
  match r_active r with
  | Some i => if Nat.ltb i (length (r_ctxs r)) then show_nat i else "-"
  | None => "-" end.
Definition observe_ctl (x:rresult) (r:rt) : string :=
  append (show_result x) (append ":" (append (show_state (r_state r)) (append ":" (append (show_nat (length (r_ctxs r)))
    (append ":" (append (show_active r) (append ":"
      (match r_ctxs r with
       | c :: _ => append (show_nat (length (c_values c))) (append ":" (show_frames (c_frames c)))
       | [] => "-" end)))))))).

Definition show_outcome (o:res (rresult * rt)) : string * option rt :=
  match o with
  | Ok (x, r) => (observe_ctl x r, Some r)
  | Unsupported w => (append "UNSUPPORTED " w, None)
  | Hang w => (append "HANG " w, None)
  | UB w => (append "UB " w, None) end.

(* a sequence of actions from r; stops at the first outcome that is not Ok *)
Fixpoint run_seq (l:list action) (r:rt) (acc:list string) : list string :=
  match l with
  | [] => rev acc
  | a :: l' => match show_outcome (execute_ctl a r) with
               | (s, Some r') => run_seq l' r' (s :: acc)
               | (s, None) => rev (s :: acc) end end.

End Ctl.

(* base states of the correspondence: nothing loaded / loaded / loaded and started once *)
Definition base_state (d:cdefects) (dg:code -> nat -> nat*nat) (kind:nat) (c:code) : res (rresult * rt) :=
  let r0 := create_rt [] 0 0 10000 150 in
  match kind with
  | O => Ok (ROk, r0)
  | S O => Ok (ROk, load r0 c)
  | _ => execute_ctl d dg AStart (load r0 c) end.
