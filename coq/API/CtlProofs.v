(* C19 - proofs about runtime::execute(action) issued one after another (the sequential part):
   result/state table, exactly-one-instruction steps, line steps, the idle invariant, and the witnesses
   for the code before the proposed repairs. *)
From Coq Require Import String Ascii.
From Coq Require Import ZArith List Bool Lia.
From SqfVerif Require Import Gen.DiagCodes Gen.ResultMap VM.VmDefs VM.VmExec API.CtlDefs.
Import ListNotations.
Local Open Scope list_scope.
Opaque frame_fuel exec_fuel.

(* ================================================================== 1. which results the loops can produce *)
Definition good (x:rresult) : Prop := x = ROk \/ x = REmpty \/ x = RRuntimeError.

Lemma do_iter_return_good : forall r x r', do_iter r = Ok (Return x r') -> good x.
Proof.
  intros r x r' H. unfold do_iter, good in *.
  destruct (r_exit_req r); [injection H as <- _; auto|].
  destruct (cur r) as [c|]; [|discriminate].
  destruct (c_suspended c); [injection H as <- _; auto|].
  destruct (c_frames c) as [|f0 fs]; [injection H as <- _; auto|].
  destruct (r_state r); try (injection H as <- _; auto).
  destruct (frame_next frame_fuel r c) as [[[fr r1] c1]| | |]; cbn [bindr] in H; try discriminate.
  destruct (r_err r1).
  { destruct (on_error (upd_cur r1 c1)) as [[rec r2]| | |]; cbn [bindr] in H; try discriminate.
    destruct rec; [discriminate|injection H as <- _; auto]. }
  assert (Instr :
    match current_instr c1 with
    | None => UB "frame.current() dereferenced at the end of the instruction set"
    | Some i =>
        let '(expired, r2) :=
          if Z.eqb (r_max_runtime r1) 0 then (false, r1)
          else let (t, r') := now r1 in (Z.ltb (r_max_runtime r1 + r_run_ts r1) t, r') in
        if expired then
          Ok (Return RRuntimeError (set_msgs (set_errflag (set_exit_req (logmsg (upd_cur r2 c1) d_MaximumRuntimeReached) true) false) []))
        else
          bindr (exec_instr i r2 c1) (fun '(r3, c5) =>
            let r4 := upd_cur r3 c5 in
            if negb (r_err r4) then Ok (Executed (set_msgs r4 []))
            else bindr (on_error r4) (fun '(recovered, r5) => if recovered then Ok (Executed r5) else Ok (Return RRuntimeError r5))) end = Ok (Return x r') ->
    x = ROk \/ x = REmpty \/ x = RRuntimeError).
  { intros G. destruct (current_instr c1) as [i|]; [|discriminate].
    match type of G with (let '(_, _) := ?d in _) = _ => destruct d as [expired r2] end.
    destruct expired; [injection G as <- _; auto|].
    destruct (exec_instr i r2 c1) as [[r3 c5]| | |]; cbn [bindr] in G; try discriminate.
    cbv zeta in G. destruct (negb (r_err (upd_cur r3 c5))); [discriminate|].
    destruct (on_error (upd_cur r3 c5)) as [[rec r5]| | |]; cbn [bindr] in G; try discriminate.
    destruct rec; [discriminate|injection G as <- _; auto]. }
  destruct fr.
  - destruct (Nat.eqb (length (c_frames c1)) (length (f0 :: fs))); [discriminate|]. apply Instr. exact H.
  - apply Instr. exact H.
  - match type of H with (let '(_, _) := ?d in _) = _ => destruct d as [expired r2] end.
    destruct expired; [injection H as <- _; auto|discriminate].
Qed.

Lemma execute_do_good : forall fuel r n x r', execute_do fuel r n = Ok (x, r') -> good x.
Proof.
  induction fuel as [|fuel IH]; intros r n x r' H; cbn [execute_do] in H; [discriminate|].
  destruct (r_exit_req r). { injection H as <- <-. left. reflexivity. }
  destruct n as [|n]. { injection H as <- <-. left. reflexivity. }
  destruct (do_iter r) as [it| | |] eqn:E; cbn [bindr] in H; try discriminate.
  destruct it as [r1|r1|x1 r1].
  - eapply IH; eassumption.
  - eapply IH; eassumption.
  - injection H as <- <-. eapply do_iter_return_good; eassumption.
Qed.

(* the pieces of one visit of the scheduler loop (start_pass), named so that it can be unfolded one visit at a time *)
Definition sp_ctx (c00:context) : context :=
  if c_terminate c00 then set_suspended (set_values (set_frames c00 []) []) false (c_wakeup c00) else c00.
Definition sp_step (r0:rt) (c:context) : res (rresult * rt) :=
  if c_suspended c then
    let (t, r1) := now r0 in
    if Z.leb (c_wakeup c) t
    then execute_do exec_fuel (upd_cur r1 (set_suspended c false (c_wakeup c))) (r_slice (upd_cur r1 (set_suspended c false (c_wakeup c))))
    else
      let '(expired, r2) :=
        if Z.eqb (r_max_runtime r1) 0 then (false, r1)
        else let (t', r') := now r1 in (Z.ltb (r_max_runtime r1 + r_run_ts r1) t', r') in
      if expired then
        Ok (RRuntimeError, set_msgs (set_errflag (set_exit_req (logmsg r2 d_MaximumRuntimeReached) true) false) [])
      else Ok (ROk, r2)
  else execute_do exec_fuel r0 (r_slice r0).
Definition sp_dropped (r2:rt) : rt :=
  match cur r2 with
  | Some c2 => match c_values c2 with
               | v :: _ => match show true v with
                           | Some s => mark (logmsg r2 d_ContextValuePrint) (append "VALUE " s)
                           | None => mark (logmsg r2 d_ContextValuePrint) "VALUE ?" end
               | [] => r2 end
  | None => r2 end.
Definition pass_rt (p:passres) : rt := match p with PassDone _ r => r | PassExit _ r => r end.
Definition pass_res (p:passres) : rresult := match p with PassDone x _ => x | PassExit x _ => x end.

Lemma start_pass_unfold : forall fuel r i x,
  start_pass (S fuel) r i x =
  if Nat.leb (length (r_ctxs r)) i then Ok (PassDone x r)
  else match cur (set_active r (Some i)) with
       | None => UB "context index"
       | Some c00 =>
           bindr (sp_step (upd_cur (set_active r (Some i)) (sp_ctx c00)) (sp_ctx c00)) (fun '(x1, r2) =>
             if r_exit_req r2 then Ok (PassExit x1 (set_state (set_ctxs r2 []) StEmpty))
             else match x1 with
                  | REmpty =>
                      let r4 := set_ctxs (sp_dropped r2) (remove_nth (r_ctxs (sp_dropped r2)) i) in
                      match r_ctxs r4 with
                      | [] => Ok (PassExit x1 (set_active r4 None))
                      | _ => start_pass fuel r4 i x1 end
                  | RInvalid | RActionError | RRuntimeError => Ok (PassExit x1 r2)
                  | ROk => start_pass fuel r2 (S i) x1 end) end.
Proof. reflexivity. Qed.

Lemma sp_step_good : forall r0 c x r', sp_step r0 c = Ok (x, r') -> good x.
Proof.
  intros r0 c x r' H. unfold sp_step in H. destruct (c_suspended c).
  - destruct (now r0) as [t r1]. destruct (Z.leb (c_wakeup c) t).
    + eapply execute_do_good; eassumption.
    + match type of H with (let '(_, _) := ?d in _) = _ => destruct d as [expired r2] end.
      destruct expired; injection H as <- _; [right; right; reflexivity|left; reflexivity].
  - eapply execute_do_good; eassumption.
Qed.

Lemma start_pass_good : forall fuel r i x0 p, start_pass fuel r i x0 = Ok p ->
  (good x0 \/ i < length (r_ctxs r)) -> good (pass_res p).
Proof.
  induction fuel as [|fuel IH]; intros r i x0 p H Hg; [discriminate|].
  rewrite start_pass_unfold in H.
  destruct (Nat.leb (length (r_ctxs r)) i) eqn:El.
  { injection H as <-. cbn. apply Nat.leb_le in El. destruct Hg as [Hg|Hg]; [exact Hg|lia]. }
  destruct (cur (set_active r (Some i))) as [c00|]; [|discriminate].
  destruct (sp_step _ _) as [[x1 r2]| | |] eqn:Es; cbn [bindr] in H; try discriminate.
  apply sp_step_good in Es.
  destruct (r_exit_req r2). { injection H as <-. exact Es. }
  destruct x1.
  - injection H as <-. exact Es.
  - cbv zeta in H. destruct (r_ctxs (set_ctxs (sp_dropped r2) (remove_nth (r_ctxs (sp_dropped r2)) i))).
    + injection H as <-. exact Es.
    + eapply IH; [exact H|left; exact Es].
  - eapply IH; [exact H|left; exact Es].
  - injection H as <-. exact Es.
  - injection H as <-. exact Es.
Qed.

Lemma start_loop_good : forall fuel r x0 x r', start_loop fuel r x0 = Ok (x, r') ->
  (good x0 \/ r_ctxs r <> []) -> good x.
Proof.
  induction fuel as [|fuel IH]; intros r x0 x r' H Hg; cbn [start_loop] in H; [discriminate|].
  destruct (r_ctxs r) as [|c0 cs] eqn:Ec.
  { injection H as <- <-. destruct Hg as [Hg|Hg]; [exact Hg|congruence]. }
  destruct (start_pass exec_fuel r 0 x0) as [p| | |] eqn:Ep; cbn [bindr] in H; try discriminate.
  apply start_pass_good in Ep; [|right; rewrite Ec; cbn; lia].
  destruct p as [x1 r1|x1 r1]; cbn [pass_res] in Ep.
  - eapply IH; [exact H|left; exact Ep].
  - injection H as <- <-. exact Ep.
Qed.

Section Loops.
Variable d : cdefects.
Variable dg : code -> nat -> nat * nat.

Lemma line_loop_good : forall fuel r dinf x0 x r', line_loop d dg fuel r dinf x0 = Ok (x, r') ->
  (good x0 \/ loop_on r = true) -> good x.
Proof.
  induction fuel as [|fuel IH]; intros r dinf x0 x r' H Hg; cbn [line_loop] in H; [discriminate|].
  destruct (loop_on r) eqn:El; cbn [negb] in H.
  2:{ injection H as <- <-. destruct Hg as [Hg|Hg]; [exact Hg|discriminate]. }
  match type of H with bindr ?a _ = _ => destruct a as [[r0 dinf1]| | |] eqn:E0 end; cbn [bindr] in H; try discriminate.
  destruct (execute_do exec_fuel (resolve_active r0) 1) as [[x1 r1]| | |] eqn:Ed; cbn [bindr] in H; try discriminate.
  apply execute_do_good in Ed.
  destruct x1; try (injection H as <- <-; exact Ed).
  destruct dinf1 as [d0|].
  2:{ eapply IH; [exact H|left; exact Ed]. }
  destruct (look d r1) as [[r2 top]| | |]; cbn [bindr] in H; try discriminate.
  destruct top as [f|]. 2:{ eapply IH; [exact H|left; exact Ed]. }
  destruct (peek_pos d dg f) as [o| | |]; cbn [bindr] in H; try discriminate.
  destruct o as [d1|]. 2:{ eapply IH; [exact H|left; exact Ed]. }
  destruct (differs d d0 d1).
  - injection H as <- <-. exact Ed.
  - eapply IH; [exact H|left; exact Ed].
Qed.

Lemma leave_loop_good : forall fuel r scope x0 x r', leave_loop fuel r scope x0 = Ok (x, r') ->
  (good x0 \/ loop_on r = true) -> good x.
Proof.
  induction fuel as [|fuel IH]; intros r scope x0 x r' H Hg; cbn [leave_loop] in H; [discriminate|].
  destruct (loop_on r) eqn:El; cbn [negb] in H.
  2:{ injection H as <- <-. destruct Hg as [Hg|Hg]; [exact Hg|discriminate]. }
  destruct (execute_do exec_fuel (resolve_active r) 1) as [[x1 r1]| | |] eqn:Ed; cbn [bindr] in H; try discriminate.
  apply execute_do_good in Ed.
  destruct x1; try (injection H as <- <-; exact Ed).
  destruct (cur r1) as [c|]; [|discriminate].
  destruct scope as [n|]. 2:{ injection H as <- <-. exact Ed. }
  destruct (Nat.leb (length (c_frames c)) n).
  - injection H as <- <-. exact Ed.
  - eapply IH; [exact H|left; exact Ed].
Qed.
End Loops.

(* ================================================================== 2. the result -> state table and the translator *)
Definition table (x:rresult) : rstate :=
  match x with REmpty => StEmpty | ROk => StHalted | RInvalid | RActionError | RRuntimeError => StHaltedError end.

Lemma state_of_result_table : forall x r, r_state (state_of_result x r) = table x.
Proof. intros x r. destruct x; reflexivity. Qed.

Definition result_name (x:rresult) : string :=
  match x with RInvalid => "invalid" | REmpty => "empty" | ROk => "ok" | RActionError => "action_error" | RRuntimeError => "runtime_error" end.
Definition state_name (s:rstate) : string :=
  match s with StEmpty => "empty" | StHalted => "halted" | StRunning => "running" | StHaltedError => "halted_error" end.
Definition all_results : list rresult := [RInvalid; REmpty; ROk; RActionError; RRuntimeError].
Definition model_switch : list (string * string) := map (fun x => (result_name x, state_name (table x))) all_results.

Definition pair_eqb (a b:string * string) : bool := andb (String.eqb (fst a) (fst b)) (String.eqb (snd a) (snd b)).
Fixpoint list_eqb {A} (e:A -> A -> bool) (a b:list A) : bool :=
  match a, b with [], [] => true | x :: a', y :: b' => andb (e x y) (list_eqb e a' b') | _, _ => false end.
Lemma list_eqb_eq : forall a b, list_eqb pair_eqb a b = true -> a = b.
Proof.
  induction a as [|[a1 a2] a IH]; destruct b as [|[b1 b2] b]; cbn; intros H; try discriminate; [reflexivity|].
  apply andb_prop in H. destruct H as [H1 H2]. unfold pair_eqb in H1. cbn in H1. apply andb_prop in H1. destruct H1 as [Ha Hb].
  apply String.eqb_eq in Ha. apply String.eqb_eq in Hb. subst. f_equal. apply IH. exact H2.
Qed.

(* every `switch (res)` block of runtime::execute that assigns m_state is the model's table, and each of the four
   executing actions has one *)
Definition switches_ok : bool :=
  andb (forallb (fun blk => list_eqb pair_eqb (snd blk) model_switch) state_switches)
       (forallb (fun a => existsb (fun blk => String.eqb (fst blk) a) state_switches)
                ["start"; "assembly_step"; "line_step"; "leave_scope"]%string).

Lemma switches_ok_spec : switches_ok = true ->
  (forall blk, In blk state_switches -> snd blk = model_switch) /\
  (forall a, In a ["start"; "assembly_step"; "line_step"; "leave_scope"]%string -> exists t, In (a, t) state_switches).
Proof.
  unfold switches_ok. intros H. apply andb_prop in H. destruct H as [H1 H2]. split.
  - intros blk Hin. rewrite forallb_forall in H1. apply list_eqb_eq. apply H1. exact Hin.
  - intros a Hin. rewrite forallb_forall in H2. specialize (H2 a Hin). apply existsb_exists in H2.
    destruct H2 as [[n t] [Hb He]]. cbn in He. apply String.eqb_eq in He. subst. exists t. exact Hb.
Qed.

(* numeric values of the enumerators, as the harness and sqfvm_status report them *)
Definition result_num (x:rresult) : Z := match x with RInvalid => -2 | REmpty => -1 | ROk => 0 | RActionError => 1 | RRuntimeError => 2 end.
Definition state_num (s:rstate) : Z := match s with StEmpty => 0 | StHalted => 1 | StRunning => 2 | StHaltedError => 3 end.
Fixpoint zassoc (k:string) (l:list (string * Z)) : option Z :=
  match l with [] => None | (k', v) :: r => if String.eqb k k' then Some v else zassoc k r end.
Definition enums_ok : bool :=
  andb (forallb (fun x => match zassoc (result_name x) result_enum with Some v => Z.eqb v (result_num x) | None => false end) all_results)
       (forallb (fun s => match zassoc (state_name s) state_enum with Some v => Z.eqb v (state_num s) | None => false end)
                [StEmpty; StHalted; StRunning; StHaltedError]).

(* ================================================================== 3. finish_action and the prologue *)
Lemma finish_action_ctl : forall x r, let r' := finish_action x r in
  r_run r' = false /\ r_exit_req r' = r_exit_req r /\
  r_state r' = (if r_exit_req r then StEmpty else table x) /\
  (r_exit_req r = true -> r_ctxs r' = [] /\ r_active r' = None) /\
  (r_exit_req r = false -> r_ctxs r' = r_ctxs r /\ r_active r' = r_active r).
Proof.
  intros x r. unfold finish_action. destruct x; cbn; destruct (r_exit_req r) eqn:E; cbn; rewrite ?E; repeat split; auto; discriminate.
Qed.

Lemma enter_flags : forall r, r_exit_req (enter r) = false /\ r_halt_req (enter r) = false /\ r_run (enter r) = true /\
  r_ctxs (enter r) = r_ctxs r /\ r_active (enter r) = r_active r.
Proof. intros r. unfold enter, begin_run_if_empty. destruct (r_state (set_run r true)); cbn; auto. Qed.

Definition executing (a:action) : bool :=
  match a with AStart | AAssemblyStep | ALineStep | ALeaveScope => true | AStop | AAbort => false end.

Lemma resolve_active_flags : forall r, r_exit_req (resolve_active r) = r_exit_req r /\ r_halt_req (resolve_active r) = r_halt_req r /\
  r_run (resolve_active r) = r_run r /\ r_state (resolve_active r) = r_state r.
Proof. intros r. unfold resolve_active. destruct (r_active r); [auto|]. destruct (r_ctxs r); cbn; auto. Qed.

(* what an executing action that got the run flag returns, whatever loop it runs *)
Definition exec_outcome (x:rresult) (r':rt) : Prop :=
  good x /\ r_run r' = false /\
  r_state r' = (if r_exit_req r' then StEmpty else table x) /\
  (r_exit_req r' = true -> r_ctxs r' = [] /\ r_active r' = None).

Lemma finish_outcome : forall x r, good x -> exec_outcome x (finish_action x r).
Proof.
  intros x r Hg. destruct (finish_action_ctl x r) as [H1 [H2 [H3 [H4 _]]]]. unfold exec_outcome.
  split; [exact Hg|]. split; [exact H1|]. rewrite H2. split; [exact H3|exact H4].
Qed.

Section Table.
Variable dg : code -> nat -> nat * nat.
Notation exec := (execute_ctl ctl_repaired dg).

Lemma first_res_repaired : forall r, good (first_res ctl_repaired r) \/ r_ctxs r <> [].
Proof. intros r. unfold first_res. cbn. destruct (r_ctxs r); [left; right; left; reflexivity|right; discriminate]. Qed.

Lemma loop_on_entered : forall r, r_ctxs r <> [] -> loop_on (set_state (enter r) StRunning) = true.
Proof.
  intros r H. destruct (enter_flags r) as [E1 [E2 [_ [E4 _]]]]. unfold loop_on.
  change (r_exit_req (set_state (enter r) StRunning)) with (r_exit_req (enter r)).
  change (r_halt_req (set_state (enter r) StRunning)) with (r_halt_req (enter r)).
  change (r_ctxs (set_state (enter r) StRunning)) with (r_ctxs (enter r)).
  rewrite E1, E2, E4. destruct (r_ctxs r); [congruence|reflexivity].
Qed.

Lemma entered_ctxs : forall r, r_ctxs (set_state (enter r) StRunning) = r_ctxs r.
Proof. intros r. destruct (enter_flags r) as [_ [_ [_ [E _]]]]. exact E. Qed.

Theorem executing_outcome : forall a r x r', executing a = true -> r_run r = false ->
  exec a r = Ok (x, r') -> exec_outcome x r'.
Proof.
  intros a r x r' Ha Hrun H. destruct a; try discriminate Ha; cbn [execute_ctl execute] in H; rewrite Hrun in H.
  - (* start *)
    destruct (start_loop exec_fuel _ _) as [[x1 r1]| | |] eqn:E; cbn [bindr] in H; try discriminate.
    injection H as <- <-. apply finish_outcome. eapply start_loop_good; [exact E|].
    destruct (first_res_repaired (set_state (enter r) StRunning)) as [Hg|Hg]; [left; exact Hg|right; exact Hg].
  - (* assembly_step *)
    destruct (execute_do exec_fuel _ 1) as [[x1 r1]| | |] eqn:E; cbn [bindr] in H; try discriminate.
    injection H as <- <-. apply finish_outcome. eapply execute_do_good; exact E.
  - (* line_step *)
    destruct (line_loop _ _ exec_fuel _ None _) as [[x1 r1]| | |] eqn:E; cbn [bindr] in H; try discriminate.
    injection H as <- <-. apply finish_outcome. eapply line_loop_good; [exact E|].
    destruct (first_res_repaired (set_state (enter r) StRunning)) as [Hg|Hg]; [left; exact Hg|].
    right. apply loop_on_entered. rewrite entered_ctxs in Hg. exact Hg.
  - (* leave_scope *)
    destruct (scope_num ctl_repaired (enter r)) as [[r0 scope]| | |] eqn:Es; cbn [bindr] in H; try discriminate.
    destruct (leave_loop exec_fuel _ scope _) as [[x1 r2]| | |] eqn:E; cbn [bindr] in H; try discriminate.
    cbn [d_leave_keeps_active ctl_repaired andb] in H. injection H as <- <-. apply finish_outcome.
    eapply leave_loop_good; [exact E|].
    destruct (first_res_repaired (set_state r0 StRunning)) as [Hg|Hg]; [left; exact Hg|]. right.
    (* r0 has the contexts and flags of enter r *)
    assert (Hr0 : r_exit_req r0 = false /\ r_halt_req r0 = false /\ r_ctxs r0 <> []).
    { change (r_ctxs (set_state r0 StRunning)) with (r_ctxs r0) in Hg.
      destruct (enter_flags r) as [E1 [E2 _]]. unfold scope_num in Es. cbn [d_null_active ctl_repaired] in Es.
      destruct (r_ctxs (enter r)) eqn:Ec.
      - injection Es as <- <-. rewrite Ec in Hg. congruence.
      - destruct (cur (resolve_active (enter r))); [|discriminate]. injection Es as <- _.
        destruct (resolve_active_flags (enter r)) as [F1 [F2 _]]. rewrite F1, F2. auto. }
    destruct Hr0 as [A [B C]]. unfold loop_on.
    change (r_exit_req (set_state r0 StRunning)) with (r_exit_req r0).
    change (r_halt_req (set_state r0 StRunning)) with (r_halt_req r0).
    change (r_ctxs (set_state r0 StRunning)) with (r_ctxs r0).
    rewrite A, B. destruct (r_ctxs r0); [congruence|reflexivity].
Qed.

(* sequential_table: result and next state of every action from every state *)
Theorem sequential_table : forall a r x r', exec a r = Ok (x, r') ->
  match a with
  | AStop =>
      match r_state r, r_run r with
      | StRunning, true => x = ROk /\ r' = set_exit_req r true
      | _, _ => x = RActionError /\ r' = r end
  | AAbort =>
      match r_state r, r_run r with
      | StRunning, true => x = ROk /\ r' = set_exit_req r true
      | StHalted, false | StHaltedError, false =>
          x = ROk /\ r_state r' = StEmpty /\ r_ctxs r' = [] /\ r_active r' = None /\ r_run r' = false
      | _, _ => x = RActionError /\ r' = r end
  | _ =>
      if r_run r then x = RActionError /\ r' = r
      else exec_outcome x r'
  end.
Proof.
  intros a r x r' H. destruct a.
  - destruct (r_run r) eqn:Hrun; [cbn [execute_ctl] in H; rewrite Hrun in H; injection H as <- <-; auto|].
    exact (executing_outcome AStart r x r' eq_refl Hrun H).
  - cbn [execute_ctl execute] in H. destruct (r_state r); destruct (r_run r); injection H as <- <-; auto.
  - cbn [execute_ctl execute] in H. destruct (r_state r); destruct (r_run r); injection H as <- <-; cbn; auto.
  - destruct (r_run r) eqn:Hrun; [cbn [execute_ctl execute] in H; rewrite Hrun in H; injection H as <- <-; auto|].
    exact (executing_outcome AAssemblyStep r x r' eq_refl Hrun H).
  - destruct (r_run r) eqn:Hrun; [cbn [execute_ctl] in H; rewrite Hrun in H; injection H as <- <-; auto|].
    exact (executing_outcome ALineStep r x r' eq_refl Hrun H).
  - destruct (r_run r) eqn:Hrun; [cbn [execute_ctl] in H; rewrite Hrun in H; injection H as <- <-; auto|].
    exact (executing_outcome ALeaveScope r x r' eq_refl Hrun H).
Qed.

(* abort on a halted runtime discards every script *)
Theorem abort_on_halted_clears : forall r x r', r_run r = false -> (r_state r = StHalted \/ r_state r = StHaltedError) ->
  exec AAbort r = Ok (x, r') -> x = ROk /\ r_ctxs r' = [] /\ r_active r' = None /\ r_state r' = StEmpty /\ r_run r' = false.
Proof.
  intros r x r' Hrun Hs H. apply sequential_table in H. rewrite Hrun in H.
  destruct Hs as [Hs|Hs]; rewrite Hs in H; destruct H as [A [B [C [D E]]]]; auto.
Qed.

(* ================================================================== 4. the idle invariant: the runtime always accepts again *)
Definition idle (r:rt) : Prop := r_run r = false /\ r_state r <> StRunning.

Theorem idle_preserved : forall a r x r', idle r -> exec a r = Ok (x, r') -> idle r'.
Proof.
  intros a r x r' [Hrun Hst] H. pose proof (sequential_table a r x r' H) as T. rewrite Hrun in T.
  destruct a.
  - destruct T as [_ [A [B _]]]. split; [exact A|]. rewrite B. destruct (r_exit_req r'); [discriminate|].
    destruct x; discriminate.
  - assert (T' : x = RActionError /\ r' = r) by (destruct (r_state r); exact T). destruct T' as [_ ->]. split; assumption.
  - destruct (r_state r) eqn:Es.
    + destruct T as [_ ->]. split; [exact Hrun|rewrite Es; discriminate].
    + destruct T as [_ [A [_ [_ B]]]]. split; [exact B|rewrite A; discriminate].
    + congruence.
    + destruct T as [_ [A [_ [_ B]]]]. split; [exact B|rewrite A; discriminate].
  - destruct T as [_ [A [B _]]]. split; [exact A|]. rewrite B. destruct (r_exit_req r'); [discriminate|]. destruct x; discriminate.
  - destruct T as [_ [A [B _]]]. split; [exact A|]. rewrite B. destruct (r_exit_req r'); [discriminate|]. destruct x; discriminate.
  - destruct T as [_ [A [B _]]]. split; [exact A|]. rewrite B. destruct (r_exit_req r'); [discriminate|]. destruct x; discriminate.
Qed.

(* a whole history of actions, each of which returned *)
Inductive history : rt -> list (action * rresult) -> rt -> Prop :=
| h_nil r : history r [] r
| h_cons r a x r1 l r2 : exec a r = Ok (x, r1) -> history r1 l r2 -> history r ((a, x) :: l) r2.

Theorem always_accepting : forall r l r', idle r -> history r l r' ->
  idle r' /\
  (forall a x r'', executing a = true -> exec a r' = Ok (x, r'') -> x <> RActionError) /\
  (r_state r' = StHalted \/ r_state r' = StHaltedError -> exec AAbort r' = Ok (ROk, set_run (set_state (set_active (set_ctxs r' []) None) StEmpty) false)).
Proof.
  intros r l r' Hi Hh. induction Hh as [r|r a x r1 l r2 He Hh IH].
  - split; [exact Hi|]. destruct Hi as [Hrun Hst]. split.
    + intros a x r'' Ha H. apply executing_outcome in H; [|exact Ha|exact Hrun]. destruct H as [[G|[G|G]] _]; rewrite G; discriminate.
    + intros Hs. cbn [execute_ctl execute]. rewrite Hrun. destruct Hs as [-> | ->]; reflexivity.
  - apply IH. eapply idle_preserved; eassumption.
Qed.
End Table.

(* ================================================================== 5. an assembly step executes exactly one instruction *)
(* passes of the execute_do loop that execute no instruction: frame completions and recovered behaviour errors *)
Inductive conts : rt -> rt -> Prop :=
| c_refl r : conts r r
| c_step r r1 r2 : r_exit_req r = false -> do_iter r = Ok (Continue r1) -> conts r1 r2 -> conts r r2.

Inductive one_step (r:rt) (x:rresult) (r':rt) : Prop :=
| os_exit rk : conts r rk -> r_exit_req rk = true -> x = ROk -> r' = rk -> one_step r x r'            (* stop/abort/exit seen first: no instruction *)
| os_return rk : conts r rk -> r_exit_req rk = false -> do_iter rk = Ok (Return x r') -> one_step r x r'   (* finished / suspended / failed: no further instruction *)
| os_executed rk : conts r rk -> r_exit_req rk = false -> do_iter rk = Ok (Executed r') -> x = ROk -> one_step r x r'.   (* exactly one *)

Lemma conts_trans_step : forall r r1, r_exit_req r = false -> do_iter r = Ok (Continue r1) -> forall x r', one_step r1 x r' -> one_step r x r'.
Proof.
  intros r r1 He Hd x r' H. destruct H as [rk Hc A B C|rk Hc A B|rk Hc A B C].
  - eapply os_exit; eauto. eapply c_step; eauto.
  - eapply os_return; eauto. eapply c_step; eauto.
  - eapply os_executed; eauto. eapply c_step; eauto.
Qed.

Theorem execute_do_one : forall fuel r x r', execute_do fuel r 1 = Ok (x, r') -> one_step r x r'.
Proof.
  induction fuel as [|fuel IH]; intros r x r' H; cbn [execute_do] in H; [discriminate|].
  destruct (r_exit_req r) eqn:Ee. { injection H as <- <-. eapply os_exit; [apply c_refl|exact Ee|reflexivity|reflexivity]. }
  destruct (do_iter r) as [it| | |] eqn:E; cbn [bindr] in H; try discriminate.
  destruct it as [r1|r1|x1 r1].
  - eapply conts_trans_step; [exact Ee|exact E|]. apply IH. exact H.
  - (* the instruction was executed; exit_after is 0 now: the next pass of the loop returns ok *)
    destruct fuel as [|fuel']; cbn [execute_do] in H; [discriminate|].
    destruct (r_exit_req r1); injection H as <- <-; eapply os_executed; [apply c_refl|exact Ee|exact E|reflexivity|apply c_refl|exact Ee|exact E|reflexivity].
  - injection H as <- <-. eapply os_return; [apply c_refl|exact Ee|exact E].
Qed.

Theorem assembly_step_one : forall dg r x r', r_run r = false ->
  execute_ctl ctl_repaired dg AAssemblyStep r = Ok (x, r') ->
  exists r1, one_step (resolve_active (set_state (enter r) StRunning)) x r1 /\ r' = finish_action x r1.
Proof.
  intros dg r x r' Hrun H. cbn [execute_ctl execute] in H. rewrite Hrun in H.
  change (set_state (set_halt_req (set_exit_req (begin_run_if_empty (set_run r true)) false) false) StRunning)
    with (set_state (enter r) StRunning) in H.
  destruct (execute_do exec_fuel _ 1) as [[x1 r1]| | |] eqn:E; cbn [bindr] in H; try discriminate.
  injection H as <- <-. exists r1. split; [|reflexivity]. eapply execute_do_one. exact E.
Qed.

(* ================================================================== 6. a line step ends in front of the first instruction of another line *)
Section Line.
Variable dg : code -> nat -> nat * nat.

(* line of the instruction the next step executes in the innermost scope; None at the end of that scope *)
Definition next_line (r:rt) : option nat :=
  match look ctl_repaired r with
  | Ok (_, Some f) => match peek_pos ctl_repaired dg f with Ok (Some p) => Some (fst p) | _ => None end
  | _ => None end.

(* the instruction steps of one line step that began on line l0: every intermediate stop is still on l0 (or at the end of a
   scope, where the step continues in the caller), the last one is the first with another line in view - unless the run
   ended, failed, or was stopped *)
Inductive line_steps (l0:nat) : rt -> rresult -> rt -> Prop :=
| ls_done r x r' : execute_do exec_fuel (resolve_active r) 1 = Ok (x, r') -> x <> ROk -> line_steps l0 r x r'
| ls_line r r1 l : execute_do exec_fuel (resolve_active r) 1 = Ok (ROk, r1) -> next_line r1 = Some l -> l <> l0 ->
    line_steps l0 r ROk (resolve_active r1)
| ls_flag r r1 : execute_do exec_fuel (resolve_active r) 1 = Ok (ROk, r1) -> (next_line r1 = Some l0 \/ next_line r1 = None) ->
    loop_on (resolve_active r1) = false -> line_steps l0 r ROk (resolve_active r1)
| ls_more r r1 x r' : execute_do exec_fuel (resolve_active r) 1 = Ok (ROk, r1) -> (next_line r1 = Some l0 \/ next_line r1 = None) ->
    loop_on (resolve_active r1) = true -> line_steps l0 (resolve_active r1) x r' -> line_steps l0 r x r'.

Lemma resolve_active_some : forall r, exists i, r_active (resolve_active r) = Some i.
Proof. intros r. unfold resolve_active. destruct (r_active r) eqn:E; [exists n; exact E|]. destruct (r_ctxs r); cbn; eauto. Qed.
Lemma resolve_idem : forall r, resolve_active (resolve_active r) = resolve_active r.
Proof. intros r. destruct (resolve_active_some r) as [i E]. unfold resolve_active at 1. rewrite E. reflexivity. Qed.

Lemma resolve_active_ctxs : forall r, r_ctxs r <> [] -> r_ctxs (resolve_active r) = r_ctxs r.
Proof. intros r H. unfold resolve_active. destruct (r_active r); [reflexivity|]. destruct (r_ctxs r) eqn:E; [congruence|]. cbn. exact E. Qed.
Lemma loop_on_resolve : forall r, r_ctxs r <> [] -> loop_on (resolve_active r) = loop_on r.
Proof.
  intros r H. unfold loop_on. destruct (resolve_active_flags r) as [F1 [F2 _]]. rewrite F1, F2, (resolve_active_ctxs r H). reflexivity.
Qed.

Lemma look_repaired : forall r r0 top, look ctl_repaired r = Ok (r0, top) -> r0 = resolve_active r.
Proof. intros r r0 top H. unfold look in H. cbn [d_null_active ctl_repaired] in H. destruct (cur (resolve_active r)); [|discriminate]. injection H as <- _. reflexivity. Qed.

Lemma differs_repaired : forall a b, differs ctl_repaired a b = negb (Nat.eqb (fst a) (fst b)).
Proof. reflexivity. Qed.

Lemma line_loop_steps : forall fuel r p0 x0 x r', loop_on r = true ->
  line_loop ctl_repaired dg fuel r (Some p0) x0 = Ok (x, r') -> line_steps (fst p0) r x r'.
Proof.
  induction fuel as [|fuel IH]; intros r p0 x0 x r' Hl H; cbn [line_loop] in H; [discriminate|].
  rewrite Hl in H. cbn [negb d_null_active ctl_repaired bindr] in H. rewrite resolve_idem in H.
  destruct (execute_do exec_fuel (resolve_active r) 1) as [[x1 r1]| | |] eqn:Ed; cbn [bindr] in H; try discriminate.
  destruct x1; try (injection H as <- <-; apply ls_done; [exact Ed|discriminate]).
  destruct (look ctl_repaired r1) as [[r2 top]| | |] eqn:El; cbn [bindr] in H; try discriminate.
  pose proof (look_repaired _ _ _ El) as ->.
  assert (Hnl : forall o, next_line r1 = o -> True) by auto.
  destruct top as [f|].
  - destruct (peek_pos ctl_repaired dg f) as [o| | |] eqn:Ep; cbn [bindr] in H; try discriminate.
    destruct o as [p1|].
    + rewrite differs_repaired in H. destruct (Nat.eqb (fst p0) (fst p1)) eqn:En; cbn [negb] in H.
      * apply Nat.eqb_eq in En.
        assert (N : next_line r1 = Some (fst p0)). { unfold next_line. rewrite El, Ep. congruence. }
        destruct (loop_on (resolve_active r1)) eqn:L2.
        -- eapply ls_more; [exact Ed|left; exact N|exact L2|]. eapply IH; eassumption.
        -- destruct fuel as [|fuel']; cbn [line_loop] in H; [discriminate|]. rewrite L2 in H. cbn [negb] in H.
           injection H as <- <-. eapply ls_flag; [exact Ed|left; exact N|exact L2].
      * injection H as <- <-. apply Nat.eqb_neq in En. eapply ls_line; [exact Ed| |].
        -- unfold next_line. rewrite El, Ep. reflexivity.
        -- congruence.
    + assert (N : next_line r1 = None). { unfold next_line. rewrite El, Ep. reflexivity. }
      destruct (loop_on (resolve_active r1)) eqn:L2.
      * eapply ls_more; [exact Ed|right; exact N|exact L2|]. eapply IH; eassumption.
      * destruct fuel as [|fuel']; cbn [line_loop] in H; [discriminate|]. rewrite L2 in H. cbn [negb] in H.
        injection H as <- <-. eapply ls_flag; [exact Ed|right; exact N|exact L2].
  - assert (N : next_line r1 = None). { unfold next_line. rewrite El. reflexivity. }
    destruct (loop_on (resolve_active r1)) eqn:L2.
    + eapply ls_more; [exact Ed|right; exact N|exact L2|]. eapply IH; eassumption.
    + destruct fuel as [|fuel']; cbn [line_loop] in H; [discriminate|]. rewrite L2 in H. cbn [negb] in H.
      injection H as <- <-. eapply ls_flag; [exact Ed|right; exact N|exact L2].
Qed.

(* the step that returns ok without having been stopped ends with another line in view *)
Lemma line_steps_end : forall l0 r x r', line_steps l0 r x r' -> x = ROk -> loop_on r' = true ->
  exists l, next_line r' = Some l /\ l <> l0.
Proof.
  intros l0 r x r' H. induction H as [r x r' Ed Hx|r r1 l Ed Hn Hl|r r1 Ed Hn Hf|r r1 x r' Ed Hn Hf Hs IH]; intros Hx' Hon.
  - congruence.
  - exists l. split; [|exact Hl]. unfold next_line in *. unfold look in *. cbn [d_null_active ctl_repaired] in *. rewrite resolve_idem. exact Hn.
  - congruence.
  - apply IH; assumption.
Qed.

Theorem line_step_stops_at_line_change : forall r x r' p0, r_run r = false -> r_ctxs r <> [] ->
  execute_ctl ctl_repaired dg ALineStep r = Ok (x, r') ->
  (exists f, look ctl_repaired (set_state (enter r) StRunning) = Ok (resolve_active (set_state (enter r) StRunning), Some f) /\
             peek_pos ctl_repaired dg f = Ok (Some p0)) ->
  exists r1, line_steps (fst p0) (resolve_active (set_state (enter r) StRunning)) x r1 /\ r' = finish_action x r1 /\
    (x = ROk -> loop_on r1 = true -> exists l, next_line r1 = Some l /\ l <> fst p0).
Proof.
  intros r x r' p0 Hrun Hc H [f [Hlook Hpeek]]. cbn [execute_ctl] in H. rewrite Hrun in H.
  destruct (line_loop ctl_repaired dg exec_fuel _ None _) as [[x1 r1]| | |] eqn:E; cbn [bindr] in H; try discriminate.
  injection H as <- <-. exists r1.
  assert (S : line_steps (fst p0) (resolve_active (set_state (enter r) StRunning)) x1 r1).
  { (* unfold the first pass of the loop, where the line is taken *)
    revert E. generalize exec_fuel at 1. intros fuel E. destruct fuel as [|fuel]; cbn [line_loop] in E; [discriminate|].
    rewrite (loop_on_entered r Hc) in E. cbn [negb] in E. rewrite Hlook in E. cbn [bindr] in E. rewrite Hpeek in E. cbn [bindr] in E.
    (* from here on it is the loop with the line fixed, one pass already unfolded: fold it back *)
    assert (L : loop_on (resolve_active (set_state (enter r) StRunning)) = true).
    { rewrite loop_on_resolve; [apply loop_on_entered; exact Hc|]. rewrite entered_ctxs. exact Hc. }
    apply (line_loop_steps (S fuel) _ p0 (first_res ctl_repaired (set_state (enter r) StRunning))); [exact L|].
    cbn [line_loop]. rewrite L. cbn [negb d_null_active ctl_repaired bindr]. rewrite !resolve_idem. rewrite !resolve_idem in E. exact E. }
  split; [exact S|]. split; [reflexivity|]. intros Hx Hon. eapply line_steps_end; eassumption.
Qed.
End Line.
