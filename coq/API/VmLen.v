(* Executing never removes a script: no instruction, exit behaviour or error handler of the shared VM model shortens
   the context list (contexts are appended by spawn, updated in place, flagged by terminate; only the scheduler loop
   of action::start erases them).  Needed by C18 (a finished sqfvm_call leaves no script) and C19.
   Same proof scaffold as VM/C04Shape.v (the two tactics are repeated here so that this file depends on the model only),
   for the preorder `length (r_ctxs r) <= length (r_ctxs r')`. *)
From Coq Require Import String Ascii.
From Coq Require Import ZArith List Bool Lia.
From SqfVerif Require Import Gen.DiagCodes VM.VmDefs VM.VmExec.
Import ListNotations.
Local Open Scope list_scope.
Opaque frame_fuel exec_fuel.

Definition lenle (r r':rt) : Prop := length (r_ctxs r) <= length (r_ctxs r').

Lemma lenle_refl : forall r, lenle r r. Proof. intros r. unfold lenle. lia. Qed.
Lemma lenle_trans : forall a b c, lenle a b -> lenle b c -> lenle a c. Proof. unfold lenle. intros. lia. Qed.
Lemma lenle_same : forall r a b, r_ctxs b = r_ctxs a -> lenle r a -> lenle r b.
Proof. unfold lenle. intros r a b E H. rewrite E. exact H. Qed.
Lemma lenle_logmsg : forall r a d, lenle r a -> lenle r (logmsg a d).
Proof. intros r a d H. eapply lenle_same; [|exact H]. unfold logmsg. destruct (Z.leb (fst d) 1); reflexivity. Qed.
Lemma lenle_mark : forall r a s, lenle r a -> lenle r (mark a s). Proof. intros. eapply lenle_same; [reflexivity|assumption]. Qed.
Lemma lenle_set_next_id : forall r a x, lenle r a -> lenle r (set_next_id a x). Proof. intros. eapply lenle_same; [reflexivity|assumption]. Qed.
Lemma lenle_set_clock : forall r a x, lenle r a -> lenle r (set_clock a x). Proof. intros. eapply lenle_same; [reflexivity|assumption]. Qed.
Lemma lenle_set_nss : forall r a x, lenle r a -> lenle r (set_nss a x). Proof. intros. eapply lenle_same; [reflexivity|assumption]. Qed.
Lemma lenle_ns_set : forall r a ns n v, lenle r a -> lenle r (ns_set a ns n v). Proof. intros. eapply lenle_same; [reflexivity|assumption]. Qed.
Lemma lenle_set_msgs : forall r a x, lenle r a -> lenle r (set_msgs a x). Proof. intros. eapply lenle_same; [reflexivity|assumption]. Qed.
Lemma lenle_set_errflag : forall r a x, lenle r a -> lenle r (set_errflag a x). Proof. intros. eapply lenle_same; [reflexivity|assumption]. Qed.
Lemma lenle_set_exit_req : forall r a x, lenle r a -> lenle r (set_exit_req a x). Proof. intros. eapply lenle_same; [reflexivity|assumption]. Qed.
Lemma lenle_set_active : forall r a x, lenle r a -> lenle r (set_active a x). Proof. intros. eapply lenle_same; [reflexivity|assumption]. Qed.
Lemma list_upd_length : forall {A} (l:list A) i x, length (list_upd l i x) = length l.
Proof. induction l as [|a l IH]; intros [|i] x; cbn; auto. Qed.
Lemma lenle_upd_cur : forall r a c, lenle r a -> lenle r (upd_cur a c).
Proof.
  intros r a c H. unfold upd_cur. destruct (r_active a); [|exact H]. unfold lenle in *. cbn. rewrite list_upd_length. exact H.
Qed.
Lemma lenle_spawn : forall r a l, lenle r a -> lenle r (set_ctxs a (r_ctxs a ++ l)).
Proof. unfold lenle. intros r a l H. cbn. rewrite app_length. lia. Qed.
Lemma lenle_map : forall r a f, lenle r a -> lenle r (set_ctxs a (map f (r_ctxs a))).
Proof. unfold lenle. intros r a f H. cbn. rewrite map_length. exact H. Qed.

Lemma now_lenle : forall r t r1, now r = (t, r1) -> lenle r r1.
Proof. intros r t r1 H. unfold now in H. injection H as _ <-. apply lenle_set_clock, lenle_refl. Qed.

Ltac len_tac :=
  repeat first
    [ assumption
    | apply lenle_refl
    | apply lenle_logmsg
    | apply lenle_mark
    | apply lenle_set_next_id
    | apply lenle_set_clock
    | apply lenle_ns_set
    | apply lenle_set_nss
    | apply lenle_set_msgs
    | apply lenle_set_errflag
    | apply lenle_set_exit_req
    | apply lenle_upd_cur
    | apply lenle_spawn
    | apply lenle_map
    | match goal with E : lenle ?a ?b |- lenle ?r ?b => apply (lenle_trans r a b); [|exact E] end ].

(* destruct the innermost scrutinee that is not under a binder, again and again (as in VM/C04Shape.v) *)
Ltac break1 H :=
  match type of H with
  | context [match ?x with _ => _ end] =>
      lazymatch x with
      | context [match _ with _ => _ end] => fail
      | _ => first [ is_var x; destruct x | destruct x eqn:? ]
      end
  end.
Ltac break H := repeat (break1 H; try discriminate H).

Lemma err_enact_rt : forall r c k failed r' c', err_enact r c k = Ok (failed, r', c') -> r' = r.
Proof.
  intros r c k failed r' c' H. unfold err_enact in H. break H; injection H as _ <- _; reflexivity.
Qed.

Lemma op_throw_len : forall r c v r' c' y, op_throw r c v = Ok (r', c', y) -> lenle r r'.
Proof.
  intros r c v r' c' y H. unfold op_throw in H.
  destruct (find_handler (c_frames c) 0).
  - destruct (err_enact r (push_value c (VTrace v)) n) as [[[failed r2] c2]| | |] eqn:E; cbn [bindr] in H; try discriminate H.
    apply err_enact_rt in E. subst r2.
    destruct failed; injection H as <- _ _; len_tac.
  - injection H as <- _ _. len_tac.
Qed.
Lemma op_breakout_len : forall r c v t r' c' y, op_breakout r c v t = Ok (r', c', y) -> lenle r r'.
Proof. intros r c v t r' c' y H. unfold op_breakout in H. break H; injection H as <- _ _; len_tac. Qed.
Lemma op_nular_len : forall n r c r' c' y, op_nular n r c = Ok (r', c', y) -> lenle r r'.
Proof. intros n r c r' c' y H. unfold op_nular in H. break H; injection H as <- _ _; len_tac. Qed.

Ltac use_subops_len :=
  repeat match goal with
  | E : op_throw _ _ _ = Ok _ |- _ => apply op_throw_len in E
  | E : op_breakout _ _ _ _ = Ok _ |- _ => apply op_breakout_len in E
  | E : now _ = (_, _) |- _ => apply now_lenle in E
  end.
Ltac finish_op_len H :=
  first [ apply op_throw_len in H; exact H
        | apply op_breakout_len in H; exact H
        | injection H as <- _ _; use_subops_len; len_tac ].
Ltac op_branch_len H := break H; finish_op_len H.
Ltac chain_len H :=
  repeat match type of H with
  | (if ?b then _ else _) = _ => destruct b; [ solve [op_branch_len H] | ]
  end.

Lemma op_unary_len : forall n v r c r' c' y, op_unary n v r c = Ok (r', c', y) -> lenle r r'.
Proof.
  intros n v r c r' c' y H. unfold op_unary, bindr in H. cbv zeta in H.
  chain_len H. discriminate H.
Qed.
Lemma op_binary_len : forall n l v r c r' c' y, op_binary n l v r c = Ok (r', c', y) -> lenle r r'.
Proof.
  intros n l v r c r' c' y H. unfold op_binary, bindr in H. cbv zeta in H.
  chain_len H. first [discriminate H | op_branch_len H].
Qed.

Lemma exec_instr_len : forall i r c r' c', exec_instr i r c = Ok (r', c') -> lenle r r'.
Proof.
  intros i r c r' c' H. destruct i; cbn [exec_instr] in H.
  - injection H as <- _. len_tac.
  - break H; injection H as <- _; len_tac.
  - break H; injection H as <- _; len_tac.
  - break H; injection H as <- _; len_tac.
  - destruct (op_nular (lower n) r c) as [[[r1 c1] v1]| | |] eqn:E; cbn [bindr] in H; try discriminate H.
    + apply op_nular_len in E. injection H as <- _. len_tac.
    + destruct (has_nular (lower n)); discriminate H.
  - destruct (pop_value c) as [[v c1]|]; [|injection H as <- _; len_tac].
    destruct v; try (injection H as <- _; len_tac; fail);
    match type of H with context [op_unary ?a ?b ?c ?d] =>
      destruct (op_unary a b c d) as [[[r1 c2] y]| | |] eqn:E; cbn [bindr] in H; try discriminate H;
      [ apply op_unary_len in E; injection H as <- _; len_tac
      | match type of H with (if ?b then _ else _) = _ => destruct b; [discriminate H | injection H as <- _; len_tac] end ]
    end.
  - destruct (pop_value c) as [[v c1]|]; [|injection H as <- _; len_tac].
    assert (G: forall v0, (match pop_value c1 with
          | None => Ok (logmsg r (no_value_diag c d_NoValueFoundForRightArgument d_NoValueFoundForRightArgumentWeak), c1)
          | Some (VNil, c2) => Ok (logmsg r d_NilValueFoundForRightArgumentWeak, c2)
          | Some (l, c2) =>
              match op_binary (lower n) l v0 r c2 with
              | Unsupported w => if has_binary (lower n) (type_of l) (type_of v0) then Unsupported w
                                 else Ok (logmsg r d_UnknownInputTypeCombinationBinary, c2)
              | x => bindr x (fun '(r1, c3, y) => Ok (r1, push_value c3 y)) end end) = Ok (r', c') -> lenle r r').
    { intros v0 G. destruct (pop_value c1) as [[l c2]|]; [|injection G as <- _; len_tac].
      destruct l; try (injection G as <- _; len_tac; fail);
      match type of G with context [op_binary ?a ?b ?c ?d ?e] =>
        destruct (op_binary a b c d e) as [[[r1 c3] y]| | |] eqn:E; cbn [bindr] in G; try discriminate G;
        [ apply op_binary_len in E; injection G as <- _; len_tac
        | match type of G with (if ?b then _ else _) = _ => destruct b; [discriminate G | injection G as <- _; len_tac] end ]
      end. }
    destruct v; try (injection H as <- _; len_tac; fail); eapply G; exact H.
  - cbv zeta in H.
    match type of H with (match ?g with _ => _ end) = _ => destruct g as [[vals c1] ok] end.
    destruct ok; injection H as <- _; len_tac.
  - injection H as <- _. len_tac.
Qed.

Lemma enact_len : forall b r c br b' r' c', enact b r c = Ok (br, b', r', c') -> lenle r r'.
Proof.
  intros b r c br b' r' c' H. destruct b; cbn [enact] in H;
    break H; injection H as _ _ <- _; use_subops_len; len_tac.
Qed.

Lemma frame_next_len : forall fuel r c fr r' c', frame_next fuel r c = Ok (fr, r', c') -> lenle r r'.
Proof.
  induction fuel as [|fuel IH]; intros r c fr r' c' H; cbn [frame_next] in H; [discriminate H|].
  destruct (c_frames c) as [|f rest]; [discriminate H|].
  destruct (if at_end f then (FDone, f) else (if at_end (set_pos f (S (f_pos f))) then FDone else FOk, set_pos f (S (f_pos f)))) as [res0 f1].
  destruct (f_exit f1) as [b|]; [|injection H as _ <- _; len_tac].
  destruct (andb (at_end f1) (negb (f_die f1))); [|injection H as _ <- _; len_tac].
  destruct (enact b r (set_frames c (f1 :: rest))) as [[[[br b'] r2] c2]| | |] eqn:E; cbn [bindr] in H; try discriminate H.
  apply enact_len in E.
  destruct br.
  - injection H as _ <- _. len_tac.
  - cbv zeta in H. destruct (top_code_empty _); [injection H as _ <- _; len_tac|].
    apply IH in H. eapply lenle_trans; eassumption.
  - injection H as _ <- _. len_tac.
  - apply IH in H. eapply lenle_trans; eassumption.
  - injection H as _ <- _. len_tac.
Qed.

Lemma handle_error_len : forall fuel r c msgs skip b r' c', handle_error fuel r c msgs skip = Ok (b, r', c') -> r' = r.
Proof.
  induction fuel as [|fuel IH]; intros r c msgs skip b r' c' H; cbn [handle_error] in H; [discriminate|].
  destruct (find_handler (skipn skip (c_frames c)) skip) as [k|]; [|injection H as _ <- _; reflexivity].
  match type of H with bindr (err_enact ?a ?b ?c) _ = _ => destruct (err_enact a b c) as [[[failed r3] c3]| | |] eqn:E end; cbn [bindr] in H; try discriminate.
  apply err_enact_rt in E. subst r3. destruct failed.
  - eapply IH. exact H.
  - injection H as _ <- _. reflexivity.
Qed.

Lemma on_error_len : forall r b r', on_error r = Ok (b, r') -> lenle r r'.
Proof.
  intros r b r' H. unfold on_error in H. destruct (cur (set_msgs r [])) as [c|]; [|discriminate].
  match type of H with bindr (handle_error ?f ?a ?c0 ?m ?s) _ = _ => destruct (handle_error f a c0 m s) as [[[rec r2] c2]| | |] eqn:E end;
    cbn [bindr] in H; try discriminate.
  apply handle_error_len in E. subst r2. destruct rec; injection H as _ <-; len_tac.
Qed.

Definition rt_of (it:iter) : rt := match it with Continue r => r | Executed r => r | Return _ r => r end.

Lemma deadline_len : forall r1 e r2,
  (if Z.eqb (r_max_runtime r1) 0 then (false, r1) else let (t, r') := now r1 in (Z.ltb (r_max_runtime r1 + r_run_ts r1) t, r')) = (e, r2) ->
  lenle r1 r2.
Proof.
  intros r1 e r2 H. destruct (Z.eqb (r_max_runtime r1) 0); [injection H as _ <-; len_tac|].
  destruct (now r1) as [t r'] eqn:En. injection H as _ <-. eapply now_lenle. exact En.
Qed.

Lemma do_iter_len : forall r it, do_iter r = Ok it -> lenle r (rt_of it).
Proof.
  intros r it H. unfold do_iter in H.
  destruct (r_exit_req r); [injection H as <-; apply lenle_refl|].
  destruct (cur r) as [c|]; [|discriminate].
  destruct (c_suspended c); [injection H as <-; apply lenle_refl|].
  destruct (c_frames c) as [|f0 fs] eqn:Ef; [injection H as <-; apply lenle_refl|].
  destruct (r_state r); try (injection H as <-; apply lenle_refl).
  destruct (frame_next frame_fuel r c) as [[[fr r1] c1]| | |] eqn:Efn; cbn [bindr] in H; try discriminate.
  apply frame_next_len in Efn.
  destruct (r_err r1).
  { destruct (on_error (upd_cur r1 c1)) as [[rec r2]| | |] eqn:Eo; cbn [bindr] in H; try discriminate.
    apply on_error_len in Eo. destruct rec; injection H as <-; cbn [rt_of]; len_tac. }
  assert (Instr : forall (it0:iter),
    match current_instr c1 with
    | None => UB "frame.current() dereferenced at the end of the instruction set"
    | Some i =>
        let '(expired, r2) :=
          if Z.eqb (r_max_runtime r1) 0 then (false, r1)
          else let (t, r') := now r1 in (Z.ltb (r_max_runtime r1 + r_run_ts r1) t, r') in
        if expired then
          Ok (Return RRuntimeError (set_msgs (set_errflag (set_exit_req (logmsg (upd_cur r2 c1) d_MaximumRuntimeReached) true) false) []))
        else
          bindr (exec_instr i r2 c1) (fun '(r3, c5) =>
            let r4 := upd_cur r3 c5 in
            if negb (r_err r4) then Ok (Executed (set_msgs r4 []))
            else bindr (on_error r4) (fun '(recovered, r5) => if recovered then Ok (Executed r5) else Ok (Return RRuntimeError r5))) end = Ok it0 ->
    lenle r (rt_of it0)).
  { intros it0 G. destruct (current_instr c1) as [i|]; [|discriminate].
    match type of G with (let '(_, _) := ?d in _) = _ => destruct d as [expired r2] eqn:Ed end. apply deadline_len in Ed.
    destruct expired; [injection G as <-; cbn [rt_of]; len_tac|].
    destruct (exec_instr i r2 c1) as [[r3 c5]| | |] eqn:Ex; cbn [bindr] in G; try discriminate. apply exec_instr_len in Ex.
    cbv zeta in G. destruct (negb (r_err (upd_cur r3 c5))); [injection G as <-; cbn [rt_of]; len_tac|].
    destruct (on_error (upd_cur r3 c5)) as [[rec r5]| | |] eqn:Eo; cbn [bindr] in G; try discriminate.
    apply on_error_len in Eo. destruct rec; injection G as <-; cbn [rt_of]; len_tac. }
  destruct fr.
  - destruct (Nat.eqb (length (c_frames c1)) (length (f0 :: fs))).
    + injection H as <-. cbn [rt_of]. len_tac.
    + apply Instr. exact H.
  - apply Instr. exact H.
  - match type of H with (let '(_, _) := ?d in _) = _ => destruct d as [expired r2] eqn:Ed end. apply deadline_len in Ed.
    destruct expired; injection H as <-; cbn [rt_of]; len_tac.
Qed.

Theorem execute_do_len : forall fuel r n x r', execute_do fuel r n = Ok (x, r') -> lenle r r'.
Proof.
  induction fuel as [|fuel IH]; intros r n x r' H; cbn [execute_do] in H; [discriminate|].
  destruct (r_exit_req r). { injection H as _ <-. apply lenle_refl. }
  destruct n as [|n]. { injection H as _ <-. apply lenle_refl. }
  destruct (do_iter r) as [it| | |] eqn:E; cbn [bindr] in H; try discriminate.
  apply do_iter_len in E. destruct it as [r1|r1|x1 r1]; cbn [rt_of] in E.
  - eapply lenle_trans; [exact E|]. eapply IH. exact H.
  - eapply lenle_trans; [exact E|]. eapply IH. exact H.
  - injection H as _ <-. exact E.
Qed.
