(* C20 - determinism and (non-)interference through the process state. *)
From Coq Require Import String Ascii.
From Coq Require Import ZArith List Bool Lia.
From SqfVerif Require Import Gen.Statics VM.VmDefs API.IsoDefs.
Import ListNotations.
Local Open Scope list_scope.

(* ================================================================== 1. a run is a function of (program, process state) *)
Theorem deterministic : forall d g p o1 g1 o2 g2, run d g p = (o1, g1) -> run d g p = (o2, g2) -> o1 = o2 /\ g1 = g2.
Proof. intros d g p o1 g1 o2 g2 H1 H2. rewrite H1 in H2. injection H2 as <- <-. auto. Qed.

(* ================================================================== 2. outputs depend only on the components the program reads *)
Lemma mem_app : forall c a b, mem_comp c (a ++ b) = orb (mem_comp c a) (mem_comp c b).
Proof. intros c a b. unfold mem_comp. apply existsb_app. Qed.

Lemma op_step_agree : forall d R g g' i o, agree R g g' -> (forall c, mem_comp c (reads_op d o) = true -> mem_comp c R = true) ->
  let '(g1, i1, o1) := op_step d g i o in let '(g2, i2, o2) := op_step d g' i o in
  i1 = i2 /\ o1 = o2 /\ agree R g1 g2.
Proof.
  intros [dd dc] R g g' i o [Ad Ac] Hr.
  destruct o; destruct dd, dc; cbn in *; unfold agree; cbn;
    try (pose proof (Ad (Hr Dec eq_refl)) as Ed); try (pose proof (Ac (Hr Ctr eq_refl)) as Ec);
    try rewrite Ed; try rewrite Ec; repeat split; auto.
Qed.

Lemma run_from_agree : forall d R p g g' i, agree R g g' -> (forall c, mem_comp c (reads d p) = true -> mem_comp c R = true) ->
  let '(g1, i1, o1) := run_from d g i p in let '(g2, i2, o2) := run_from d g' i p in
  i1 = i2 /\ o1 = o2 /\ agree R g1 g2.
Proof.
  intros d R p. induction p as [|o p IH]; intros g g' i Ha Hr; cbn [run_from]; [auto|].
  assert (Hro : forall c, mem_comp c (reads_op d o) = true -> mem_comp c R = true).
  { intros c Hc. apply Hr. unfold reads. cbn [flat_map]. rewrite mem_app, Hc. reflexivity. }
  assert (Hrp : forall c, mem_comp c (reads d p) = true -> mem_comp c R = true).
  { intros c Hc. apply Hr. unfold reads. cbn [flat_map]. rewrite mem_app. unfold reads in Hc. rewrite Hc. apply orb_true_r. }
  pose proof (op_step_agree d R g g' i o Ha Hro) as S.
  destruct (op_step d g i o) as [[g1 i1] o1]. destruct (op_step d g' i o) as [[g2 i2] o2]. destruct S as [<- [<- Ha1]].
  pose proof (IH g1 g2 i1 Ha1 Hrp) as S2.
  destruct (run_from d g1 i1 p) as [[g3 i3] o3]. destruct (run_from d g2 i1 p) as [[g4 i4] o4]. destruct S2 as [<- [<- Ha2]].
  auto.
Qed.

Theorem outputs_depend_on_reads_only : forall d p g g', agree (reads d p) g g' -> out_of d g p = out_of d g' p.
Proof.
  intros d p g g' Ha. unfold out_of, run. pose proof (run_from_agree d (reads d p) p g g' fresh Ha (fun c H => H)) as S.
  destruct (run_from d g fresh p) as [[g1 i1] o1]. destruct (run_from d g' fresh p) as [[g2 i2] o2]. destruct S as [_ [<- _]]. reflexivity.
Qed.

(* ================================================================== 3. a program changes only the components it writes *)
Lemma op_step_keeps : forall d g i o, let '(g1, _, _) := op_step d g i o in
  (mem_comp Dec (writes_op d o) = false -> g_dec g1 = g_dec g) /\ (mem_comp Ctr (writes_op d o) = false -> g_ctr g1 = g_ctr g).
Proof.
  intros [dd dc] g i o. destruct o; cbn [op_step writes_op]; unfold set_dec, set_ctr; cbn [d_dec_global d_ctr_global];
    try (destruct dd); try (destruct dc); cbn; split; auto; discriminate.
Qed.

Lemma run_from_keeps : forall d p g i, let '(g1, _, _) := run_from d g i p in
  (mem_comp Dec (writes d p) = false -> g_dec g1 = g_dec g) /\ (mem_comp Ctr (writes d p) = false -> g_ctr g1 = g_ctr g).
Proof.
  intros d p. induction p as [|o p IH]; intros g i; cbn [run_from]; [auto|].
  pose proof (op_step_keeps d g i o) as K. destruct (op_step d g i o) as [[g1 i1] o1].
  pose proof (IH g1 i1) as K2. destruct (run_from d g1 i1 p) as [[g2 i2] o2].
  unfold writes in *. cbn [flat_map]. split; intros H; rewrite mem_app in H; apply orb_false_elim in H; destruct H as [H1 H2].
  - destruct K as [K _]. destruct K2 as [K2 _]. rewrite (K2 H2). apply K. exact H1.
  - destruct K as [_ K]. destruct K2 as [_ K2]. rewrite (K2 H2). apply K. exact H1.
Qed.

Lemma disjoint_spec : forall a b c, disjoint a b = true -> mem_comp c a = true -> mem_comp c b = false.
Proof.
  intros a b c H Hc. unfold disjoint in H. rewrite forallb_forall in H. unfold mem_comp in Hc. apply existsb_exists in Hc.
  destruct Hc as [x [Hin He]]. specialize (H x Hin). destruct c, x; try discriminate; apply negb_true_iff in H; exact H.
Qed.

(* noninterference_modulo: what P prints in a fresh VM is the same whether or not Q ran before it in the same process,
   provided Q writes no shared component that P reads *)
Theorem noninterference_modulo : forall d p q g, disjoint (reads d p) (writes d q) = true ->
  out_of d (after d g q) p = out_of d g p.
Proof.
  intros d p q g H. apply outputs_depend_on_reads_only. unfold after, run.
  pose proof (run_from_keeps d q g fresh) as K. destruct (run_from d g fresh q) as [[g1 i1] o1]. cbn [snd]. destruct K as [Kd Kc].
  split; intros Hm.
  - apply Kd. eapply disjoint_spec; eassumption.
  - apply Kc. eapply disjoint_spec; eassumption.
Qed.

(* with every component in the instance (the isolation the property asks for) nothing another program did matters *)
Theorem noninterference_spec : forall p q g, out_of iso_spec (after iso_spec g q) p = out_of iso_spec g p.
Proof.
  intros p q g. apply noninterference_modulo. unfold disjoint. rewrite forallb_forall. intros c Hin.
  exfalso. unfold reads in Hin. apply in_flat_map in Hin. destruct Hin as [o [_ Ho]]. destruct o; cbn in Ho; exact Ho.
Qed.

(* with the counter in the runtime (repair C20-01) only the print mode is left *)
Definition prints_number (o:gop) : bool := match o with GPrint _ | GCounter => true | _ => false end.
Definition prints (p:list gop) : bool := existsb prints_number p.
Definition sets_mode (q:list gop) : bool := existsb (fun o => match o with GToFixed _ => true | _ => false end) q.
Theorem counter_fixed_only_mode_left : forall p q g, (prints p = false \/ sets_mode q = false) ->
  out_of iso_counter_fixed (after iso_counter_fixed g q) p = out_of iso_counter_fixed g p.
Proof.
  intros p q g H. apply noninterference_modulo. unfold disjoint. rewrite forallb_forall. intros c Hin.
  unfold reads in Hin. apply in_flat_map in Hin. destruct Hin as [o [Hop Ho]].
  assert (Hpn : prints_number o = true /\ c = Dec).
  { destruct o; cbn in Ho; try contradiction; destruct Ho as [<-|[]]; auto. }
  destruct Hpn as [Hpn ->].
  destruct H as [H|H].
  - unfold prints in H. assert (X : existsb prints_number p = true).
    { apply existsb_exists. eexists. split; [exact Hop|exact Hpn]. } congruence.
  - apply negb_true_iff. unfold mem_comp. destruct (existsb (comp_eqb Dec) (writes iso_counter_fixed q)) eqn:E; [|reflexivity].
    apply existsb_exists in E. destruct E as [x [Hx He]]. unfold writes in Hx. apply in_flat_map in Hx. destruct Hx as [o2 [Hq Ho2]].
    destruct o2; cbn in Ho2; try contradiction.
    assert (X : sets_mode q = true). { unfold sets_mode. apply existsb_exists. eexists. split; [exact Hq|reflexivity]. } congruence.
Qed.

(* ================================================================== 4. the code as it is: witnesses *)
Theorem noninterference_refuted :
  (exists p q, out_of iso_as_is (after iso_as_is g0 q) p <> out_of iso_as_is g0 p /\ p = [GPrint 3] /\ q = [GToFixed 2]) /\
  (exists p q, out_of iso_as_is (after iso_as_is g0 q) p <> out_of iso_as_is g0 p /\ p = [GCounter] /\ q = [GCounter]).
Proof.
  split.
  - exists [GPrint 3], [GToFixed 2]. split; [vm_compute; discriminate|auto].
  - exists [GCounter], [GCounter]. split; [vm_compute; discriminate|auto].
Qed.

Theorem tofixed_still_leaks_refuted :
  exists p q, out_of iso_counter_fixed (after iso_counter_fixed g0 q) p <> out_of iso_counter_fixed g0 p /\ p = [GPrint 3] /\ q = [GToFixed 2].
Proof. exists [GPrint 3], [GToFixed 2]. split; [vm_compute; discriminate|auto]. Qed.

(* ================================================================== 5. the statics of the implementation are exactly the classified ones *)
Fixpoint sl_eqb (a b:list string) : bool :=
  match a, b with [], [] => true | x :: a', y :: b' => andb (String.eqb x y) (sl_eqb a' b') | _, _ => false end.
Lemma sl_eqb_eq : forall a b, sl_eqb a b = true -> a = b.
Proof.
  induction a as [|x a IH]; destruct b as [|y b]; cbn; intros H; try discriminate; [reflexivity|].
  apply andb_prop in H. destruct H as [H1 H2]. apply String.eqb_eq in H1. subst. f_equal. apply IH. exact H2.
Qed.
Definition statics_ok : bool := sl_eqb statics (map fst modelled_G).
