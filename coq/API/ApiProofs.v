(* C18 - proofs about the model of the exported C functions. *)
From Coq Require Import String Ascii.
From Coq Require Import ZArith List Bool Lia.
From SqfVerif Require Import Gen.DiagCodes Gen.ResultMap VM.VmDefs VM.VmExec VM.C04Defs VM.C04Shape VM.C04Proofs
  API.CtlDefs API.CtlProofs API.VmLen API.ApiDefs.
Import ListNotations.
Local Open Scope list_scope.
Opaque frame_fuel exec_fuel.

(* ================================================================== 1. the scheduler loop leaves no script behind when it reports ok/empty *)
Definition bad (x:rresult) : Prop := x = RInvalid \/ x = RActionError \/ x = RRuntimeError.
(* how a loop result relates to what is left: an exit request (everything is cleared by the epilogue), a failure,
   or `empty` with an empty context list *)
Definition settled (x:rresult) (r:rt) : Prop := r_exit_req r = true \/ bad x \/ (x = REmpty /\ r_ctxs r = []).

Lemma sp_step_len : forall r0 c x r', sp_step r0 c = Ok (x, r') -> lenle r0 r'.
Proof.
  intros r0 c x r' H. unfold sp_step in H. destruct (c_suspended c).
  - destruct (now r0) as [t r1] eqn:En. apply now_lenle in En. destruct (Z.leb (c_wakeup c) t).
    + apply execute_do_len in H. eapply lenle_trans; [exact En|]. eapply lenle_trans; [|exact H]. apply lenle_upd_cur, lenle_refl.
    + match type of H with (let '(_, _) := ?d in _) = _ => destruct d as [expired r2] eqn:Ed end. apply deadline_len in Ed.
      destruct expired; injection H as _ <-; len_tac.
  - eapply execute_do_len. exact H.
Qed.

Lemma start_pass_shape : forall fuel r i x0 p, start_pass fuel r i x0 = Ok p -> r_ctxs r <> [] ->
  match p with
  | PassExit x r' => settled x r'
  | PassDone x r' => r_ctxs r' <> [] end.
Proof.
  induction fuel as [|fuel IH]; intros r i x0 p H Hne; [discriminate|].
  rewrite start_pass_unfold in H.
  destruct (Nat.leb (length (r_ctxs r)) i). { injection H as <-. exact Hne. }
  destruct (cur (set_active r (Some i))) as [c00|]; [|discriminate].
  destruct (sp_step _ _) as [[x1 r2]| | |] eqn:Es; cbn [bindr] in H; try discriminate.
  pose proof (sp_step_good _ _ _ _ Es) as Hg. apply sp_step_len in Es.
  assert (Hne2 : r_ctxs r2 <> []).
  { unfold lenle in Es. assert (L : length (r_ctxs (upd_cur (set_active r (Some i)) (sp_ctx c00))) = length (r_ctxs r)).
    { unfold upd_cur. cbn. apply list_upd_length. }
    rewrite L in Es. destruct (r_ctxs r); [congruence|]. destruct (r_ctxs r2); [cbn in Es; lia|discriminate]. }
  destruct (r_exit_req r2) eqn:Ee. { injection H as <-. left. cbn. exact Ee. }
  destruct x1.
  - injection H as <-. right. left. left. reflexivity.
  - cbv zeta in H. destruct (r_ctxs (set_ctxs (sp_dropped r2) (remove_nth (r_ctxs (sp_dropped r2)) i))) eqn:Er.
    + injection H as <-. right. right. split; [reflexivity|]. exact Er.
    + eapply IH; [exact H|]. rewrite Er. discriminate.
  - eapply IH; [exact H|exact Hne2].
  - injection H as <-. right. left. right. left. reflexivity.
  - injection H as <-. right. left. right. right. reflexivity.
Qed.

Lemma start_loop_shape : forall fuel r x0 x r', start_loop fuel r x0 = Ok (x, r') -> r_ctxs r <> [] -> settled x r'.
Proof.
  induction fuel as [|fuel IH]; intros r x0 x r' H Hne; cbn [start_loop] in H; [discriminate|].
  destruct (r_ctxs r) as [|c0 cs] eqn:Ec; [congruence|].
  destruct (start_pass exec_fuel r 0 x0) as [p| | |] eqn:Ep; cbn [bindr] in H; try discriminate.
  apply start_pass_shape in Ep; [|rewrite Ec; discriminate].
  destruct p as [x1 r1|x1 r1].
  - eapply IH; [exact H|exact Ep].
  - injection H as <- <-. exact Ep.
Qed.

(* ================================================================== 2. one run started by sqfvm_call *)
Definition rt_idle (r:rt) : Prop := r_state r = StEmpty /\ r_run r = false /\ r_ctxs r = [] /\ r_err r = false.

Lemma load_fields : forall r c, r_state (load r c) = r_state r /\ r_run (load r c) = r_run r /\ r_err (load r c) = r_err r /\
  r_out (load r c) = r_out r /\ r_ctxs (load r c) <> [].
Proof. intros r c. unfold load. cbn. repeat split. destruct (r_ctxs r); discriminate. Qed.

(* the run of one call, and the abort sqfvm_call issues after a failure *)
Theorem call_run : forall r c x r1, rt_idle r -> execute AStart (load r c) = Ok (x, r1) ->
  good x /\ r_run r1 = false /\ r_err r1 = false /\
  (exists s, r_out r1 = s ++ r_out r /\ (x = RRuntimeError -> failure_explained s)) /\
  (if aborts_after x
   then exists xa r2, execute AAbort r1 = Ok (xa, r2) /\ rt_idle r2 /\ r_out r2 = r_out r1 /\ r_nss r2 = r_nss r1
   else rt_idle r1).
Proof.
  intros r c x r1 [Hs [Hrun [Hc He]]] H.
  destruct (load_fields r c) as [L1 [L2 [L3 [L4 L5]]]].
  assert (Hev : exists s, r_out r1 = s ++ r_out (load r c) /\ r_err r1 = false /\ (x = RRuntimeError -> failure_explained s)).
  { eapply execute_on_empty_events; [congruence|congruence|left; reflexivity|exact H]. }
  destruct Hev as [s [Ho [He1 Hx]]]. rewrite L4 in Ho.
  cbn [execute] in H. rewrite L2, Hrun in H.
  destruct (start_loop exec_fuel _ RInvalid) as [[x1 ra]| | |] eqn:E; cbn [bindr] in H; try discriminate.
  injection H as <- <-.
  assert (L6 : r_ctxs (set_state (enter (load r c)) StRunning) <> []) by (rewrite entered_ctxs; exact L5).
  assert (Hg : good x1). { eapply start_loop_good; [exact E|right; exact L6]. }
  assert (Hsh : settled x1 ra). { eapply start_loop_shape; [exact E|exact L6]. }
  destruct (finish_action_ctl x1 ra) as [F1 [F2 [F3 [F4 F5]]]].
  split; [exact Hg|]. split; [exact F1|]. split; [exact He1|]. split; [exists s; auto|].
  destruct Hg as [-> | [-> | ->]]; cbn [aborts_after].
  - (* ok: only an exit request ends the loop with ok *)
    destruct Hsh as [Hex|[[Hb|[Hb|Hb]]|[Hb _]]]; try discriminate.
    destruct (F4 Hex) as [A B]. unfold rt_idle. rewrite F3, Hex. auto.
  - destruct Hsh as [Hex|[[Hb|[Hb|Hb]]|[_ Hb]]]; try discriminate.
    + destruct (F4 Hex) as [A B]. unfold rt_idle. rewrite F3, Hex. auto.
    + unfold rt_idle. rewrite F3. destruct (r_exit_req ra) eqn:Ee.
      * destruct (F4 eq_refl) as [A B]. auto.
      * destruct (F5 eq_refl) as [A B]. rewrite A. auto.
  - (* runtime error: the caller aborts *)
    cbn [execute]. rewrite F3, F1. destruct (r_exit_req ra) eqn:Ee.
    + destruct (F4 eq_refl) as [A B]. eexists. eexists. split; [reflexivity|]. unfold rt_idle. rewrite F3. auto.
    + cbn [table]. eexists. eexists. split; [reflexivity|]. unfold rt_idle. cbn. auto.
Qed.

(* ================================================================== 3. the callback records *)
Definition tagged (i:inst) (cd:calldata) (l:list cbrec) : Prop := Forall (fun r => cb_user r = a_user i /\ cb_call r = cd) l.

Lemma tag_tagged : forall i l, tagged i (a_cd i) (tag i l).
Proof. intros i l. unfold tagged, tag. apply Forall_forall. intros r Hin. apply in_map_iff in Hin. destruct Hin as [x [<- _]]. cbn. auto. Qed.

Lemma records_tagged : forall i l, tagged i (a_cd i) (records_of i l).
Proof.
  intros i l. induction l as [|e rest IH]; [constructor|].
  destruct e as [lvl code|s]; cbn [records_of]; [constructor; [cbn; auto|exact IH]|exact IH].
Qed.

(* severities of the messages in a list of events / of the records made from it: every message is delivered, in order *)
Fixpoint levels (l:list event) : list Z := match l with [] => [] | EDiag lvl _ :: r => lvl :: levels r | EMark _ :: r => levels r end.
Lemma records_levels : forall i l, map cb_sev (records_of i l) = levels l.
Proof.
  intros i l. induction l as [|e rest IH]; [reflexivity|].
  destruct e as [lvl code|s]; cbn [records_of levels map cb_sev]; [f_equal; exact IH|exact IH].
Qed.

Lemma new_events_complete : forall before after s, r_out after = s ++ r_out before -> new_events before after = rev s.
Proof.
  intros before after s H. unfold new_events. rewrite H, app_length, Nat.add_sub. rewrite firstn_app, firstn_all, Nat.sub_diag. cbn. rewrite app_nil_r. reflexivity.
Qed.

Lemma tagged_app : forall i cd a b, tagged i cd a -> tagged i cd b -> tagged i cd (a ++ b).
Proof. intros. apply Forall_app. auto. Qed.

(* ================================================================== 4. sqfvm_call *)
Definition inst_ok (i:inst) : Prop := rt_idle (a_rt i).

Section Call.
Notation call := (api_call api_repaired).

(* codes_truthful: which code a call returns, case by case, and what that code means for the run *)
Theorem codes_truthful : forall i cd ty f code i' recs, inst_ok i -> call i cd ty f = Ok (code, i', recs) ->
  match f with
  | FPpFail _ => code = preprocessing_failed
  | FParseFail _ _ =>
      if ty_parses ty then code = parsing_failed
      else if Z.eqb ty ty_p then code = result_ok else code = invalid_type
  | FOk _ _ c _ =>
      if ty_executes ty then
        exists x r1 s, execute AStart (load (a_rt i) c) = Ok (x, r1) /\ r_out r1 = s ++ r_out (a_rt i) /\
          ((code = result_ok /\ (x = REmpty \/ x = ROk) /\ r_err r1 = false) \/
           (code = result_failed /\ x = RRuntimeError /\ failure_explained s))
      else if orb (Z.eqb ty ty_1) (Z.eqb ty ty_p) then code = result_ok
      else code = invalid_type
  end.
Proof.
  intros i cd ty f code i' recs [Hs Hrest] H. unfold api_call in H. rewrite Hs in H. cbn [is_empty_state negb] in H.
  destruct f as [d1|d1 d2|d1 d2 c pp].
  - cbn [d_pp_deref api_repaired] in H. injection H as <- _ _. reflexivity.
  - destruct (ty_parses ty); [injection H as <- _ _; reflexivity|].
    destruct (Z.eqb ty ty_p); injection H as <- _ _; reflexivity.
  - destruct (ty_executes ty).
    + cbn [a_rt set_cd] in H.
      destruct (execute AStart (load (a_rt i) c)) as [[x r1]| | |] eqn:E; cbn [bindr] in H; try discriminate.
      pose proof (call_run (a_rt i) c x r1 (conj Hs Hrest) E) as [Hg [Hrun [He [[s [Ho Hx]] Hab]]]].
      exists x, r1, s. split; [reflexivity|]. split; [exact Ho|].
      destruct Hg as [-> | [-> | ->]]; cbn [aborts_after code_of_result] in *.
      * injection H as <- _ _. left. auto.
      * injection H as <- _ _. left. auto.
      * destruct Hab as [xa [r2 [Ea _]]]. rewrite Ea in H. cbn [bindr] in H. injection H as <- _ _. right. auto.
    + destruct (Z.eqb ty ty_1); [injection H as <- _ _; reflexivity|].
      destruct (Z.eqb ty ty_p); injection H as <- _ _; reflexivity.
Qed.

(* all_diagnostics_delivered_tagged: every callback invocation of the call carries the user data of the instance and the
   call data of this call, and the messages of the run are all there, in the order they were logged *)
Theorem all_diagnostics_delivered_tagged : forall i cd ty f code i' recs, inst_ok i -> call i cd ty f = Ok (code, i', recs) ->
  tagged i (CdVal cd) recs /\
  match f with
  | FOk d1 d2 c _ =>
      if ty_executes ty then
        exists x r1 s, execute AStart (load (a_rt i) c) = Ok (x, r1) /\ r_out r1 = s ++ r_out (a_rt i) /\
          map cb_sev recs = map fst d1 ++ map fst d2 ++ levels (rev s)
      else True
  | _ => True end.
Proof.
  intros i cd ty f code i' recs [Hs Hrest] H. unfold api_call in H. rewrite Hs in H. cbn [is_empty_state negb] in H.
  set (i1 := set_cd i (CdVal cd)) in *.
  assert (T : forall l, tagged i (CdVal cd) (tag i1 l)) by (intros l; apply (tag_tagged i1 l)).
  destruct f as [d1|d1 d2|d1 d2 c pp].
  - cbn [d_pp_deref api_repaired] in H. injection H as _ _ <-. split; [apply T|exact I].
  - destruct (ty_parses ty); [injection H as _ _ <-; split; [apply tagged_app; apply T|exact I]|].
    destruct (Z.eqb ty ty_p); injection H as _ _ <-; (split; [|exact I]).
    + apply tagged_app; [apply T|]. constructor; [cbn; auto|constructor].
    + apply T.
  - destruct (ty_executes ty).
    + change (a_rt i1) with (a_rt i) in H.
      destruct (execute AStart (load (a_rt i) c)) as [[x r1]| | |] eqn:E; cbn [bindr] in H; try discriminate.
      pose proof (call_run (a_rt i) c x r1 (conj Hs Hrest) E) as [Hg [Hrun [He [[s [Ho Hx]] Hab]]]].
      assert (R : recs = tag i1 d1 ++ tag i1 d2 ++ delivered i1 (load (a_rt i) c) r1).
      { destruct (aborts_after x).
        - destruct Hab as [xa [r2 [Ea _]]]. rewrite Ea in H. cbn [bindr] in H. injection H as _ _ <-. reflexivity.
        - injection H as _ _ <-. reflexivity. }
      split.
      * rewrite R. apply tagged_app; [apply T|]. apply tagged_app; [apply T|]. apply (records_tagged i1).
      * exists x, r1, s. split; [reflexivity|]. split; [exact Ho|].
        rewrite R, !map_app. unfold tag. rewrite !map_map. cbn [cb_sev]. f_equal. f_equal.
        unfold delivered. rewrite records_levels. f_equal. apply new_events_complete.
        destruct (load_fields (a_rt i) c) as [_ [_ [_ [L4 _]]]]. rewrite L4. exact Ho.
    + destruct (Z.eqb ty ty_1); [injection H as _ _ <-; split; [apply tagged_app; apply T|exact I]|].
      destruct (Z.eqb ty ty_p); injection H as _ _ <-; (split; [|exact I]).
      * apply tagged_app; [apply T|]. constructor; [cbn; auto|constructor].
      * apply T.
Qed.

(* idle_after_every_call and only_globals_and_config_persist, for one call *)
Theorem call_leaves_idle : forall i cd ty f code i' recs, inst_ok i -> call i cd ty f = Ok (code, i', recs) ->
  inst_ok i' /\ api_status i' = 0%Z /\
  a_cfg i' = a_cfg i /\ a_user i' = a_user i /\ a_live i' = a_live i /\
  (* nothing but what the script stored: without an executed script the namespaces are untouched *)
  (match f with FOk _ _ _ _ => if ty_executes ty then True else r_nss (a_rt i') = r_nss (a_rt i) | _ => r_nss (a_rt i') = r_nss (a_rt i) end).
Proof.
  intros i cd ty f code i' recs Hok H. pose proof Hok as [Hs Hrest]. unfold api_call in H. rewrite Hs in H. cbn [is_empty_state negb] in H.
  assert (Same : forall c0 r0, Ok (c0, set_cd i (CdVal cd), r0) = Ok (code, i', recs) ->
            inst_ok i' /\ api_status i' = 0%Z /\ a_cfg i' = a_cfg i /\ a_user i' = a_user i /\ a_live i' = a_live i /\
            r_nss (a_rt i') = r_nss (a_rt i)).
  { intros c0 r0 E. injection E as _ <- _. unfold inst_ok, api_status. cbn. rewrite Hs. repeat split; auto; apply Hrest. }
  destruct f as [d1|d1 d2|d1 d2 c pp].
  - cbn [d_pp_deref api_repaired] in H. apply Same in H. tauto.
  - destruct (ty_parses ty); [apply Same in H; tauto|]. destruct (Z.eqb ty ty_p); apply Same in H; tauto.
  - destruct (ty_executes ty).
    + change (a_rt (set_cd i (CdVal cd))) with (a_rt i) in H.
      destruct (execute AStart (load (a_rt i) c)) as [[x r1]| | |] eqn:E; cbn [bindr] in H; try discriminate.
      pose proof (call_run (a_rt i) c x r1 (conj Hs Hrest) E) as [Hg [Hrun [He [_ Hab]]]].
      destruct (aborts_after x).
      * destruct Hab as [xa [r2 [Ea [Hi [_ _]]]]]. rewrite Ea in H. cbn [bindr] in H. injection H as _ <- _.
        unfold inst_ok, api_status. cbn. destruct Hi as [Hi1 Hi2]. rewrite Hi1. repeat split; auto; try apply Hi2; congruence.
      * injection H as _ <- _. unfold inst_ok, api_status. cbn. destruct Hab as [Hi1 Hi2]. rewrite Hi1. repeat split; auto; try apply Hi2; congruence.
    + destruct (Z.eqb ty ty_1); [apply Same in H; tauto|]. destruct (Z.eqb ty ty_p); apply Same in H; tauto.
Qed.
End Call.

(* ================================================================== 5. sqfvm_load_config, sqfvm_status, whole histories *)
Theorem load_codes_and_tags : forall i f code i' recs, api_load api_repaired i f = Ok (code, i', recs) ->
  (match f with CPpFail _ => code = preprocessing_failed | CParseFail _ _ => code = parsing_failed | COk _ _ _ => code = result_ok end) /\
  tagged i CdNull recs /\ a_rt i' = a_rt i /\ a_user i' = a_user i /\ a_live i' = a_live i /\
  (match f with COk _ _ cl => a_cfg i' = a_cfg i ++ cl | _ => a_cfg i' = a_cfg i end).
Proof.
  intros i f code i' recs H. unfold api_load in H. cbn [d_load_calldata d_pp_deref api_repaired] in H.
  assert (T : forall l, tagged i CdNull (tag (set_cd i CdNull) l)) by (intros l; apply (tag_tagged (set_cd i CdNull) l)).
  destruct f as [d1|d1 d2|d1 d2 cl]; injection H as <- <- <-; cbn; repeat split; auto; try (apply tagged_app; apply T).
Qed.

Definition world_ok (w:world) : Prop := Forall inst_ok (w_insts w).

Lemma Forall_list_set : forall {A} (P:A -> Prop) l n x, Forall P l -> P x -> Forall P (list_set l n x).
Proof.
  intros A P l. induction l as [|a l IH]; intros n x Hl Hx; [constructor|].
  inversion Hl; subst. destruct n; cbn; constructor; auto.
Qed.
Lemma nth_list_set_other : forall {A} (l:list A) n m x, n <> m -> nth_error (list_set l n x) m = nth_error l m.
Proof.
  intros A l. induction l as [|a l IH]; intros n m x Hn; [destruct n, m; reflexivity|].
  destruct n, m; cbn; try reflexivity; try congruence. apply IH. congruence.
Qed.

Lemma with_clock_idle : forall r t, rt_idle r -> rt_idle (with_clock r t).
Proof. intros r t H. exact H. Qed.

Lemma create_at_idle : forall t tick mr, rt_idle (create_at t tick mr).
Proof. intros. unfold rt_idle. cbn. auto. Qed.

(* idle_after_every_call: whatever the API call was, every instance is idle (status 0) when it returns, and instances other
   than the one addressed are not touched at all *)
Theorem idle_after_every_call : forall w o ret recs w', world_ok w -> step api_repaired w o = Ok (ret, recs, w') ->
  world_ok w' /\
  (forall n i, nth_error (w_insts w') n = Some i -> api_status i = 0%Z) /\
  (forall h, (o = ODestroy h \/ o = OStatus h \/ (exists f, o = OLoad h f) \/ (exists cd ty f, o = OCall h cd ty f) \/ (exists cd c, o = OProbe h cd c)) ->
     forall n m, h = HInst n -> m <> n -> nth_error (w_insts w') m = nth_error (w_insts w) m).
Proof.
  intros w o ret recs w' Hw H.
  assert (Stat : forall wx, world_ok wx -> forall n i, nth_error (w_insts wx) n = Some i -> api_status i = 0%Z).
  { intros wx Hwx n i Hn. unfold world_ok in Hwx. rewrite Forall_forall in Hwx. apply nth_error_In in Hn.
    destruct (Hwx i Hn) as [Hs _]. unfold api_status. rewrite Hs. reflexivity. }
  (* the generic per-instance step *)
  assert (On : forall h inv (k:nat -> inst -> res (Z * inst * list cbrec)),
            (forall n i0 r i1 rc, inst_ok i0 -> k n i0 = Ok (r, i1, rc) -> inst_ok i1) ->
            match h with
            | HNull | HBogus => Ok (inv, [], w)
            | HInst n => match nth_error (w_insts w) n with
                         | None => UB "handle that was never returned"
                         | Some i => if negb (a_live i) then UB "use of a destroyed instance (freed memory)"
                                     else bindr (k n (set_rt i (with_clock (a_rt i) (w_clock w)))) (fun '(ret, i1, recs) =>
                                            Ok (ret, recs, {| w_insts := list_set (w_insts w) n i1; w_clock := r_clock (a_rt i1); w_tick := w_tick w |})) end end
            = Ok (ret, recs, w') ->
            world_ok w' /\ (forall n m, h = HInst n -> m <> n -> nth_error (w_insts w') m = nth_error (w_insts w) m)).
  { intros h inv k Hk E. destruct h as [| |n].
    - injection E as _ _ <-. split; [exact Hw|]. intros; discriminate.
    - injection E as _ _ <-. split; [exact Hw|]. intros; discriminate.
    - destruct (nth_error (w_insts w) n) as [i|] eqn:En; [|discriminate].
      destruct (negb (a_live i)); [discriminate|].
      destruct (k n _) as [[[r1 i1] rc]| | |] eqn:Ek; cbn [bindr] in E; try discriminate.
      injection E as _ _ <-. cbn [w_insts]. split.
      + unfold world_ok. cbn [w_insts]. apply Forall_list_set; [exact Hw|].
        eapply Hk; [|exact Ek]. unfold world_ok in Hw. rewrite Forall_forall in Hw. apply nth_error_In in En. exact (Hw i En).
      + intros n0 m Hh Hm. injection Hh as <-. apply nth_list_set_other. congruence. }
  destruct o as [user mr|h|h|h f|h cd ty f|h cd cls]; cbn [step] in H.
  - (* create *)
    injection H as _ _ <-. split; [|split].
    + unfold world_ok. cbn [w_insts]. apply Forall_app. split; [exact Hw|]. constructor; [|constructor]. apply create_at_idle.
    + apply Stat. unfold world_ok. cbn [w_insts]. apply Forall_app. split; [exact Hw|]. constructor; [|constructor]. apply create_at_idle.
    + intros h [E|[E|[[f E]|[[cd [ty [f E]]]|[cd [c E]]]]]]; discriminate.
  - (* destroy *)
    destruct h as [| |n].
    + cbv beta iota delta [d_destroy_null api_repaired] in H. injection H as _ _ <-. split; [exact Hw|]. split; [apply Stat; exact Hw|]. intros h0 Hh0 n0 m Hh Hm; destruct Hh0 as [E|[E|[[f0 E]|[[cd0 [ty0 [f0 E]]]|[cd0 [c0 E]]]]]]; try discriminate; injection E as <-; discriminate.
    + injection H as _ _ <-. split; [exact Hw|]. split; [apply Stat; exact Hw|]. intros h0 Hh0 n0 m Hh Hm; destruct Hh0 as [E|[E|[[f0 E]|[[cd0 [ty0 [f0 E]]]|[cd0 [c0 E]]]]]]; try discriminate; injection E as <-; discriminate.
    + destruct (On (HInst n) 0%Z (fun _ i => Ok (0%Z, set_live i false, []))) as [A B]; [|exact H|].
      * intros n0 i0 r i1 rc Hi E. injection E as _ <- _. exact Hi.
      * split; [exact A|]. split; [apply Stat; exact A|]. intros h0 Hh0 n0 m Hh Hm.
        destruct Hh0 as [E|[E|[[f0 E]|[[cd0 [ty0 [f0 E]]]|[cd0 [c0 E]]]]]]; try discriminate. injection E as <-. eapply B; eauto.
  - destruct (On h instance_invalid (fun _ i => Ok (api_status i, i, []))) as [A B]; [|exact H|].
    + intros n0 i0 r i1 rc Hi E. injection E as _ <- _. exact Hi.
    + split; [exact A|]. split; [apply Stat; exact A|]. intros h0 Hh0 n0 m Hh Hm.
      destruct Hh0 as [E|[E|[[f E]|[[cd [ty [f E]]]|[cd [c E]]]]]]; try discriminate. injection E as <-. eapply B; eauto.
  - destruct (On h instance_invalid (fun _ i => api_load api_repaired i f)) as [A B]; [|exact H|].
    + intros n0 i0 r i1 rc Hi E. apply load_codes_and_tags in E. destruct E as [_ [_ [Er _]]]. unfold inst_ok. rewrite Er. exact Hi.
    + split; [exact A|]. split; [apply Stat; exact A|]. intros h0 Hh0 n0 m Hh Hm.
      destruct Hh0 as [E|[E|[[f0 E]|[[cd [ty [f0 E]]]|[cd [c E]]]]]]; try discriminate. injection E as <- _. eapply B; eauto.
  - destruct (On h instance_invalid (fun _ i => api_call api_repaired i cd ty f)) as [A B]; [|exact H|].
    + intros n0 i0 r i1 rc Hi E. eapply call_leaves_idle in E; [|exact Hi]. apply E.
    + split; [exact A|]. split; [apply Stat; exact A|]. intros h0 Hh0 n0 m Hh Hm.
      destruct Hh0 as [E|[E|[[f0 E]|[[cd0 [ty0 [f0 E]]]|[cd0 [c E]]]]]]; try discriminate. injection E as <- _ _ _. eapply B; eauto.
  - destruct (On h instance_invalid (fun _ i => api_call api_repaired i cd ty_s (FOk [] [] (probe_code (existsb (String.eqb cls) (a_cfg i))) ""%string))) as [A B]; [|exact H|].
    + intros n0 i0 r i1 rc Hi E. eapply call_leaves_idle in E; [|exact Hi]. apply E.
    + split; [exact A|]. split; [apply Stat; exact A|]. intros h0 Hh0 n0 m Hh Hm.
      destruct Hh0 as [E|[E|[[f0 E]|[[cd0 [ty0 [f0 E]]]|[cd0 [c E]]]]]]; try discriminate. injection E as <- _ _. eapply B; eauto.
Qed.

(* invalid handles *)
Theorem invalid_handle_codes : forall d w h, h = HNull \/ h = HBogus ->
  (forall cd ty f, step d w (OCall h cd ty f) = Ok (instance_invalid, [], w)) /\
  (forall f, step d w (OLoad h f) = Ok (instance_invalid, [], w)) /\
  step d w (OStatus h) = Ok (instance_invalid, [], w).
Proof. intros d w h [-> | ->]; repeat split; reflexivity. Qed.

(* the elapsed-time budget is per call: the run of a call on an idle instance measures max_runtime from its own first clock reading *)
Theorem budget_starts_with_the_call : forall r c, rt_idle r ->
  let r0 := set_state (enter (load r c)) StRunning in
  r_run_ts r0 = (r_clock r + r_tick r)%Z /\ r_err r0 = false /\ r_msgs r0 = [] /\ r_exit_req r0 = false.
Proof.
  intros r c [Hs _]. cbn zeta. unfold enter, begin_run_if_empty.
  change (r_state (set_run (load r c) true)) with (r_state r). rewrite Hs. cbn. auto.
Qed.

(* ================================================================== 6. the code before the proposed repairs *)
Theorem pp_failure_dereferences_empty_optional_refuted : forall i cd ty d1, inst_ok i ->
  exists w, api_call api_as_is i cd ty (FPpFail d1) = UB w.
Proof. intros i cd ty d1 [Hs _]. unfold api_call. rewrite Hs. cbn. eexists. reflexivity. Qed.

Theorem load_config_keeps_stale_call_data_refuted : forall i d2 cl, a_cd i <> CdNull ->
  exists code i' r rest, api_load api_as_is i (COk [] ((1, 40001) :: d2)%Z cl) = Ok (code, i', r :: rest) /\ cb_call r = a_cd i /\ cb_call r <> CdNull.
Proof. intros i d2 cl H. cbn. eexists. eexists. eexists. eexists. split; [reflexivity|]. cbn. auto. Qed.

Theorem destroy_null_refuted : forall w, exists s, step api_as_is w (ODestroy HNull) = UB s.
Proof. intros w. eexists. reflexivity. Qed.

(* ================================================================== 7. the tables of sqfvm.cpp / sqfvm.h (translator) *)
Definition str_eqb := String.eqb.
Fixpoint sassoc {A} (k:string) (l:list (string * A)) : option A :=
  match l with [] => None | (k', v) :: r => if String.eqb k k' then Some v else sassoc k r end.
Definition const_is (k:string) (v:Z) (l:list (string * Z)) : bool := match sassoc k l with Some x => Z.eqb x v | None => false end.

Definition model_result_table : list (string * string) :=
  map (fun x => (result_name x, if Z.eqb (code_of_result x) result_ok then "result_ok" else "result_failed")%string) all_results
  ++ [("default", "result_failed")%string].
Definition model_aborts : list string := map result_name (filter aborts_after all_results).
Definition slist_eqb (a b:list string) : bool := list_eqb String.eqb a b.

Definition type_entry_ok (e:string * (string * bool * list (string * string) * list string * string * bool)) : bool :=
  let '(ch, (pf, ex, tab, ab, plain, emits)) := e in
  if orb (String.eqb ch "s") (String.eqb ch "a") then
    andb (String.eqb pf "parsing_failed") (andb ex (andb (list_eqb pair_eqb tab model_result_table) (andb (slist_eqb ab model_aborts) (String.eqb plain ""))))
  else if String.eqb ch "p" then andb (String.eqb pf "") (andb (negb ex) (andb (String.eqb plain "result_ok") emits))
  else if String.eqb ch "1" then andb (String.eqb pf "parsing_failed") (andb (negb ex) (andb (String.eqb plain "result_ok") (negb emits)))
  else if String.eqb ch "default" then andb (negb ex) (String.eqb plain "invalid_type")
  else false.

Definition api_tables_ok : bool :=
  andb (forallb type_entry_ok call_types)
  (andb (slist_eqb (map fst call_types) ["a"; "s"; "p"; "1"; "default"]%string)
  (andb (const_is "instance_invalid" instance_invalid call_consts)
  (andb (const_is "preprocessing_failed" preprocessing_failed call_consts)
  (andb (const_is "parsing_failed" parsing_failed call_consts)
  (andb (const_is "instance_running" instance_running call_consts)
  (andb (const_is "invalid_type" invalid_type call_consts)
  (andb (const_is "result_ok" result_ok call_consts)
  (andb (const_is "result_failed" result_failed call_consts)
  (andb (String.eqb call_invalid_handle "instance_invalid")
  (andb (String.eqb call_busy "instance_running")
  (andb (String.eqb call_pp_fail "preprocessing_failed")
  (andb (const_is load_invalid_handle instance_invalid load_consts)
  (andb (const_is load_pp_fail preprocessing_failed load_consts)
  (andb (const_is load_parse_fail parsing_failed load_consts)
  (andb (const_is load_ok result_ok load_consts)
        (Z.eqb status_invalid_handle instance_invalid)))))))))))))))).

(* every documented code that names one of the constants has that constant's value; status documents the state numbers *)
Definition documented_ok : bool :=
  andb (forallb (fun e => let '(n, k, _) := e in if String.eqb k "" then true else const_is k n call_consts) documented_call)
  (andb (forallb (fun e => let '(n, k, _) := e in if String.eqb k "" then true else const_is k n load_consts) documented_load)
        (forallb (fun s => existsb (fun e => let '(n, _, _) := e in Z.eqb n (ApiDefs.state_num s)) documented_status)
                 [StEmpty; StHalted; StRunning; StHaltedError])).

(* the source carries the repairs the model assumes (C18-01, C18-02) *)
Definition source_repaired : bool :=
  andb (negb call_pp_fail_derefs) (andb (negb load_pp_fail_derefs) (andb load_resets_call_data call_sets_call_data)).
