(* C18 - the exported C functions (src/export/sqfvm.cpp) on top of the shared VM model: instances with a validity mark,
   the logger that tags every message with the user data of the instance and the call data of the running call,
   sqfvm_create_instance / sqfvm_destroy_instance / sqfvm_status / sqfvm_load_config / sqfvm_call.
   The preprocessor and the parsers are parameters of a call (`front`: what they answered for this text and which
   diagnostics they logged); the check obtains them from the implementation's own front ends (harness `probe`).
   Defect switches describe sqfvm.cpp BEFORE the repairs proposed in /verif/proposed_fixes/C18-0x.  No proofs here. *)
From Coq Require Import String Ascii.
From Coq Require Import ZArith List Bool.
From SqfVerif Require Import Gen.DiagCodes VM.VmDefs VM.VmExec.
Import ListNotations.
Local Open Scope string_scope.
Local Open Scope list_scope.
Local Open Scope Z_scope.

Record adefects := {
  (* C18-01: `ppedStr->data()` on the empty optional when preprocessing failed (sqfvm.cpp:179,216) *)
  d_pp_deref : bool;
  (* C18-02: sqfvm_load_config leaves logger->call_data as the last sqfvm_call set it (uninitialised before the first) *)
  d_load_calldata : bool;
  (* C18-03: sqfvm_destroy_instance(NULL) reads through the null pointer (sqfvm.cpp:128) *)
  d_destroy_null : bool }.
Definition api_as_is : adefects := {| d_pp_deref := true; d_load_calldata := true; d_destroy_null := true |}.
Definition api_repaired : adefects := {| d_pp_deref := false; d_load_calldata := false; d_destroy_null := false |}.

Notation diag := (Z * Z)%type (only parsing).   (* level, code *)

(* what the front ends did with the text of a call *)
Inductive front :=
| FPpFail (d1:list (Z*Z))                                  (* preprocess() logged d1 and returned nothing *)
| FParseFail (d1 d2:list (Z*Z))                            (* preprocessed; the parser selected by the type logged d2 and failed *)
| FOk (d1 d2:list (Z*Z)) (c:code) (pp:string).             (* preprocessed text pp; parsed to c (for types that parse) *)

Inductive cfront :=
| CPpFail (d1:list (Z*Z))
| CParseFail (d1 d2:list (Z*Z))
| COk (d1 d2:list (Z*Z)) (classes:list string).

(* logger->call_data: a pointer value; CdGarbage = never written (the constructor of `target` leaves it uninitialised) *)
Inductive calldata := CdGarbage | CdNull | CdVal (z:Z).

(* one invocation of the log callback *)
Record cbrec := { cb_user : Z; cb_call : calldata; cb_sev : Z; cb_text : option string }.

Record inst := {
  a_live : bool;            (* the magic is intact *)
  a_user : Z;
  a_cd : calldata;
  a_rt : rt;
  a_cfg : list string }.    (* class names loaded into the config tree *)

Definition set_rt (i:inst) (r:rt) : inst := {| a_live := a_live i; a_user := a_user i; a_cd := a_cd i; a_rt := r; a_cfg := a_cfg i |}.
Definition set_cd (i:inst) (c:calldata) : inst := {| a_live := a_live i; a_user := a_user i; a_cd := c; a_rt := a_rt i; a_cfg := a_cfg i |}.
Definition set_cfg (i:inst) (l:list string) : inst := {| a_live := a_live i; a_user := a_user i; a_cd := a_cd i; a_rt := a_rt i; a_cfg := l |}.
Definition set_live (i:inst) (b:bool) : inst := {| a_live := b; a_user := a_user i; a_cd := a_cd i; a_rt := a_rt i; a_cfg := a_cfg i |}.

(* type characters *)
Definition ty_s : Z := 115. Definition ty_a : Z := 97. Definition ty_p : Z := 112. Definition ty_1 : Z := 49.
Definition ty_executes (t:Z) : bool := orb (Z.eqb t ty_s) (Z.eqb t ty_a).
Definition ty_parses (t:Z) : bool := orb (ty_executes t) (Z.eqb t ty_1).
Definition ty_known (t:Z) : bool := orb (ty_parses t) (Z.eqb t ty_p).

(* return codes (names as in sqfvm.cpp) *)
Definition instance_invalid : Z := -1. Definition preprocessing_failed : Z := -2. Definition parsing_failed : Z := -3.
Definition instance_running : Z := -4. Definition invalid_type : Z := -5. Definition result_failed : Z := -6. Definition result_ok : Z := 0.

(* switch (result) of sqfvm_call (sqfvm.cpp:235-247) *)
Definition code_of_result (x:rresult) : Z := match x with ROk | REmpty => result_ok | _ => result_failed end.
Definition aborts_after (x:rresult) : bool := match x with RInvalid | RActionError | RRuntimeError => true | _ => false end.

Definition state_num (s:rstate) : Z := match s with StEmpty => 0 | StHalted => 1 | StRunning => 2 | StHaltedError => 3 end.
Definition is_empty_state (s:rstate) : bool := match s with StEmpty => true | _ => false end.

(* target::log: every message goes to the callback with the instance's user data and the current call data *)
Definition tag (i:inst) (l:list (Z*Z)) : list cbrec :=
  map (fun x => {| cb_user := a_user i; cb_call := a_cd i; cb_sev := fst x; cb_text := None |}) l.

(* the events the runtime logged between two moments, oldest first, as callback invocations;
   a marker (text of a diag_log line / printed value) belongs to the message logged just before it *)
Fixpoint records_of (i:inst) (l:list event) : list cbrec :=
  match l with
  | [] => []
  | EDiag lvl _ :: rest =>
      {| cb_user := a_user i; cb_call := a_cd i; cb_sev := lvl;
         cb_text := match rest with EMark s :: _ => Some s | _ => None end |} :: records_of i rest
  | EMark _ :: rest => records_of i rest
  end.
Definition new_events (before after:rt) : list event :=
  rev (firstn (length (r_out after) - length (r_out before)) (r_out after)).
Definition delivered (i:inst) (before after:rt) : list cbrec := records_of i (new_events before after).

Section Api.
Variable d : adefects.

(* sqfvm_call on a live instance *)
Definition api_call (i:inst) (cd:Z) (ty:Z) (f:front) : res (Z * inst * list cbrec) :=
  if negb (is_empty_state (r_state (a_rt i))) then Ok (instance_running, i, [])
  else
    let i1 := set_cd i (CdVal cd) in
    match f with
    | FPpFail d1 =>
        if d_pp_deref d then UB "sqfvm_call dereferences the empty optional returned by preprocess (sqfvm.cpp:216)"
        else Ok (preprocessing_failed, i1, tag i1 d1)
    | FParseFail d1 d2 =>
        if ty_parses ty then Ok (parsing_failed, i1, tag i1 d1 ++ tag i1 d2)
        else if Z.eqb ty ty_p then Ok (result_ok, i1, tag i1 d1 ++ [{| cb_user := a_user i1; cb_call := a_cd i1; cb_sev := -1; cb_text := None |}])
        else Ok (invalid_type, i1, tag i1 d1)
    | FOk d1 d2 c pp =>
        if ty_executes ty then
          (* context_create + push_frame + execute(start); abort after a failure *)
          let r0 := load (a_rt i1) c in
          bindr (execute AStart r0) (fun '(x, r1) =>
            let recs := tag i1 d1 ++ tag i1 d2 ++ delivered i1 r0 r1 in
            if aborts_after x
            then bindr (execute AAbort r1) (fun '(_, r2) => Ok (code_of_result x, set_rt i1 r2, recs))
            else Ok (code_of_result x, set_rt i1 r1, recs))
        else if Z.eqb ty ty_1 then Ok (result_ok, i1, tag i1 d1 ++ tag i1 d2)
        else if Z.eqb ty ty_p then
          Ok (result_ok, i1, tag i1 d1 ++ [{| cb_user := a_user i1; cb_call := a_cd i1; cb_sev := -1; cb_text := Some pp |}])
        else Ok (invalid_type, i1, tag i1 d1)
    end.

(* sqfvm_load_config on a live instance *)
Definition api_load (i:inst) (f:cfront) : res (Z * inst * list cbrec) :=
  let i1 := if d_load_calldata d then i else set_cd i CdNull in
  match f with
  | CPpFail d1 =>
      if d_pp_deref d then UB "sqfvm_load_config dereferences the empty optional returned by preprocess (sqfvm.cpp:179)"
      else Ok (preprocessing_failed, i1, tag i1 d1)
  | CParseFail d1 d2 => Ok (parsing_failed, i1, tag i1 d1 ++ tag i1 d2)
  | COk d1 d2 classes => Ok (result_ok, set_cfg i1 (a_cfg i1 ++ classes), tag i1 d1 ++ tag i1 d2)
  end.

Definition api_status (i:inst) : Z := state_num (r_state (a_rt i)).
End Api.

(* ------------------------------------------------------------------ several instances, one process clock *)
Inductive handle := HNull | HBogus | HInst (n:nat).

Inductive aop :=
| OCreate (user:Z) (max_runtime_us:Z)
| ODestroy (h:handle)
| OStatus (h:handle)
| OLoad (h:handle) (f:cfront)
| OCall (h:handle) (cd:Z) (ty:Z) (f:front)
| OProbe (h:handle) (cd:Z) (cls:string).   (* sqfvm_call 's': diag_log str isClass (configFile >> cls) *)

Record world := { w_insts : list inst; w_clock : Z; w_tick : Z }.

(* the runtime constructor reads the clock once (runtime.h:348) *)
Definition create_at (t tick mr:Z) : rt :=
  let r := init_rt [] mr tick 10000 150 in
  set_run_ts (set_timestamp (set_clock r (t + tick)) (t + tick)) (t + tick).

Definition with_clock (r:rt) (t:Z) : rt := set_clock r t.

Fixpoint list_set {A} (l:list A) (n:nat) (x:A) : list A :=
  match l, n with [], _ => [] | _ :: r, O => x :: r | a :: r, S n' => a :: list_set r n' x end.

Definition probe_code (b:bool) : code := [IPush (VBool b); IUnary "str"; IUnary "diag_log"].

(* one API call on the world: return value, callback invocations of this call, new world *)
Definition step (d:adefects) (w:world) (o:aop) : res (Z * list cbrec * world) :=
  let on_inst := fun (h:handle) (invalid:Z) (k:nat -> inst -> res (Z * inst * list cbrec)) =>
    match h with
    | HNull | HBogus => Ok (invalid, [], w)
    | HInst n =>
        match nth_error (w_insts w) n with
        | None => UB "handle that was never returned"
        | Some i =>
            if negb (a_live i) then UB "use of a destroyed instance (freed memory)"
            else
              let i0 := set_rt i (with_clock (a_rt i) (w_clock w)) in
              bindr (k n i0) (fun '(ret, i1, recs) =>
                Ok (ret, recs, {| w_insts := list_set (w_insts w) n i1; w_clock := r_clock (a_rt i1); w_tick := w_tick w |})) end end in
  match o with
  | OCreate user mr =>
      let r := create_at (w_clock w) (w_tick w) mr in
      let i := {| a_live := true; a_user := user; a_cd := CdGarbage; a_rt := r; a_cfg := [] |} in
      Ok (Z.of_nat (length (w_insts w)), [], {| w_insts := w_insts w ++ [i]; w_clock := r_clock r; w_tick := w_tick w |})
  | ODestroy h =>
      match h with
      | HNull => if d_destroy_null d then UB "sqfvm_destroy_instance(NULL) reads through the null pointer (sqfvm.cpp:128)" else Ok (0, [], w)
      | HBogus => Ok (0, [], w)
      | HInst n => on_inst h 0 (fun _ i => Ok (0, set_live i false, []))
      end
  | OStatus h => on_inst h instance_invalid (fun _ i => Ok (api_status i, i, []))
  | OLoad h f => on_inst h instance_invalid (fun _ i => api_load d i f)
  | OCall h cd ty f => on_inst h instance_invalid (fun _ i => api_call d i cd ty f)
  | OProbe h cd cls =>
      on_inst h instance_invalid (fun _ i =>
        api_call d i cd ty_s (FOk [] [] (probe_code (existsb (String.eqb cls) (a_cfg i))) ""))
  end.

Fixpoint run_ops (d:adefects) (w:world) (l:list aop) (acc:list (res (Z * list cbrec))) : list (res (Z * list cbrec)) :=
  match l with
  | [] => rev acc
  | o :: l' =>
      match step d w o with
      | Ok (ret, recs, w') => run_ops d w' l' (Ok (ret, recs) :: acc)
      | Unsupported s => rev (Unsupported s :: acc)
      | Hang s => rev (Hang s :: acc)
      | UB s => rev (UB s :: acc) end end.

(* ------------------------------------------------------------------ printing (harness/h_api.cpp) *)
Definition show_cd (c:calldata) : string := match c with CdGarbage => "U" | CdNull => "0" | CdVal z => show_Z z end.
Definition show_rec (r:cbrec) : string :=
  append (show_Z (cb_user r)) (append ":" (append (show_cd (cb_call r)) (append ":" (append (show_Z (cb_sev r))
    (match cb_text r with
     | Some s => if Z.eqb (cb_sev r) (-1) then append ":R" s else append ":M<" (append s ">")
     | None => if Z.eqb (cb_sev r) (-1) then ":R" else "" end))))).
Fixpoint show_recs (l:list cbrec) : string :=
  match l with [] => "" | r :: rest => append (show_rec r) (match rest with [] => "" | _ => append "," (show_recs rest) end) end.
Definition show_op (o:res (Z * list cbrec)) : string :=
  match o with
  | Ok (ret, recs) => append (show_Z ret) (append "{" (append (show_recs recs) "}"))
  | Unsupported s => append "UNSUPPORTED " s
  | Hang s => append "HANG " s
  | UB s => append "UB " s end.
