(* C19 - two threads using runtime::execute(action) at the same time: a small-step interleaving model.
   Atomic steps are the accesses to the shared fields of the runtime (runtime.cpp:328-666):
     m_run_atomic (compare_exchange / store), m_state, m_is_exit_requested, m_is_halt_requested, the context list,
   and one pass of the execute_do loop (runtime.cpp:92-325), whose effect on the VM is left open: each pass
   nondeterministically executes an instruction, pops a frame, finishes, fails, suspends, expires, or asks for exit itself.
   The shared fields are sequentially consistent registers here (DESIGN Appendix B, C19).  That is what std::atomic gives:
   m_run_atomic is one; m_state / m_is_exit_requested / m_is_halt_requested become atomic with proposed_fixes/C19-05
   (as plain fields their concurrent use is a C++ data race, which no model can describe).
   Two agents interleave arbitrarily.  All theorems are proved by a certified reachability computation: the set of reachable
   states is computed (vm_compute), checked to contain the initial states and to be closed under every step, and the
   property is evaluated on every element - an inductive invariant found by the machine and checked by the kernel.
   The model is of the code WITH the proposed repairs C19-01..04 (res = empty without scripts; they do not change any
   shared access).  The scheduler loop's shortcut for a sleeping script (no execute_do call, time limit tested) is covered by
   the outcomes `suspended` / `max_runtime reached` of a pass. *)
From Coq Require Import PArith NArith List Bool Lia MSets.MSetPositive.
Import ListNotations.
Local Open Scope list_scope.

Inductive kind := KStart | KStep | KLine | KLeave.
Inductive xres := XInv | XEmp | XOk | XErr.                       (* the local variable res *)
Inductive mstate := SEmpty | SHalted | SRunning | SHaltedError.   (* m_state (evaluating is not modelled) *)
Inductive ghost := GNone | GReq0 | GReq1 | GBad | GLate.

Inductive pc :=
| Idle
(* an executing action of kind k: start / assembly_step / line_step / leave_scope *)
| XCas (k:kind)                (* m_run_atomic.compare_exchange(false, true) *)
| XBegin (k:kind)              (* begin_run_if_empty(): reads m_state *)
| XClrExit (k:kind)            (* m_is_exit_requested = false *)
| XClrHalt (k:kind)            (* m_is_halt_requested = false *)
| XSetRun (k:kind)             (* m_state = running *)
| XLoop (k:kind) (x:xres)      (* loop head of the action *)
| XDoHead (k:kind)             (* execute_do: if (runtime.is_exit_requested()) return ok *)
| XDoState (k:kind)            (* execute_do: if (runtime_state() != running) return ok *)
| XInstr (k:kind)              (* execute_do: the rest of one pass *)
| XAfterDo (k:kind) (x:xres)   (* back in execute(): tests after execute_do returned x *)
| XExitEmpty (k:kind) (x:xres) (* start: contexts cleared, m_state = empty to be stored, then start_loop_exit *)
| XSwitch (k:kind) (x:xres)    (* switch (res): m_state = ... *)
| XExitChk (k:kind) (x:xres)   (* if (m_is_exit_requested) *)
| XExitSet (k:kind) (x:xres)   (* ... m_state = empty *)
| XRelease (k:kind) (x:xres)   (* m_run_atomic = false *)
(* stop *)
| SState | SRun | SWrite
(* abort *)
| AState | ARun | AWrite | ACas | AClear | ASetEmpty | ARelease.

Record sys := {
  run : bool; state : mstate; ex : bool; ha : bool; cx : bool;   (* cx: the context list is not empty *)
  pc0 : pc; pc1 : pc;
  used0 : bool;       (* restricted system: agent 0 has issued its one action *)
  g : ghost }.        (* a stop/abort of agent 1 was accepted while agent 0 executed; instructions agent 0 executed since *)

Definition table (x:xres) : mstate := match x with XEmp => SEmpty | XOk => SHalted | XInv | XErr => SHaltedError end.

Definition in_cs (p:pc) : bool :=
  match p with
  | XBegin _ | XClrExit _ | XClrHalt _ | XSetRun _ | XLoop _ _ | XDoHead _ | XDoState _ | XInstr _ | XAfterDo _ _
  | XExitEmpty _ _ | XSwitch _ _ | XExitChk _ _ | XExitSet _ _ | XRelease _ _ | AClear | ASetEmpty | ARelease => true
  | _ => false end.

(* shared part updates *)
Definition upd (s:sys) (r:bool) (st:mstate) (e h c:bool) : sys :=
  {| run := r; state := st; ex := e; ha := h; cx := c; pc0 := pc0 s; pc1 := pc1 s; used0 := used0 s; g := g s |}.
Definition w_run s b := upd s b (state s) (ex s) (ha s) (cx s).
Definition w_state s x := upd s (run s) x (ex s) (ha s) (cx s).
Definition w_ex s b := upd s (run s) (state s) b (ha s) (cx s).
Definition w_ha s b := upd s (run s) (state s) (ex s) b (cx s).
Definition w_cx s b := upd s (run s) (state s) (ex s) (ha s) b.
Definition w_g s x := {| run := run s; state := state s; ex := ex s; ha := ha s; cx := cx s; pc0 := pc0 s; pc1 := pc1 s; used0 := used0 s; g := x |}.

Definition mstate_eqb (a b:mstate) : bool :=
  match a, b with SEmpty, SEmpty | SHalted, SHalted | SRunning, SRunning | SHaltedError, SHaltedError => true | _, _ => false end.

(* what one agent can do next: list of (its new pc, new system without the pc update, executed an instruction?, accepted stop?) *)
Definition moves (p:pc) (s:sys) : list (pc * sys * bool * bool) :=
  let plain := fun (p':pc) (s':sys) => (p', s', false, false) in
  match p with
  | Idle => []     (* choosing the next action is done by the caller *)
  | XCas k => if run s then [plain Idle s] else [plain (XBegin k) (w_run s true)]
  | XBegin k => [plain (XClrExit k) s]
  | XClrExit k => [plain (XClrHalt k) (w_ex s false)]
  | XClrHalt k => [plain (XSetRun k) (w_ha s false)]
  | XSetRun k => [plain (XLoop k (if cx s then XInv else XEmp)) (w_state s SRunning)]
  | XLoop k x =>
      match k with
      | KStart => if cx s then [plain (XDoHead k) s] else [plain (XSwitch k x) s]
      | KStep => [plain (XDoHead k) s]
      | KLine | KLeave => if andb (negb (ex s)) (andb (negb (ha s)) (cx s)) then [plain (XDoHead k) s] else [plain (XSwitch k x) s] end
  | XDoHead k => if ex s then [plain (XAfterDo k XOk) s] else [plain (XDoState k) s]
  | XDoState k => if mstate_eqb (state s) SRunning then [plain (XInstr k) s] else [plain (XAfterDo k XOk) s]
  | XInstr k =>
      (* executed an instruction, budget left (only the slice of start has more than one) *)
      (match k with KStart => [(XDoHead k, s, true, false); (XDoHead k, w_ex s true, true, false)] | _ => [] end) ++
      [ (XAfterDo k XOk, s, true, false);            (* executed, exit_after reached 0 *)
        (XAfterDo k XOk, w_ex s true, true, false);  (* executed an operator that asked for exit itself (halt, exit__) *)
        (XDoHead k, s, false, false);                (* a frame was completed / an error was recovered: no instruction *)
        (XAfterDo k XEmp, s, false, false);          (* context empty *)
        (XAfterDo k XErr, s, false, false);          (* runtime error *)
        (XAfterDo k XErr, s, true, false);           (* runtime error raised by the instruction *)
        (XAfterDo k XOk, s, false, false);           (* suspended *)
        (XAfterDo k XOk, w_ha s true, false, false); (* breakpoint hit *)
        (XAfterDo k XErr, w_ex s true, false, false) (* max_runtime reached: runtime.exit(0) *) ]
  | XAfterDo k x =>
      match k with
      | KStart =>
          if ex s then [plain (XExitEmpty k x) (w_cx s false)]
          else match x with
               | XEmp => [plain (XSwitch k x) (w_cx s false); plain (XDoHead k) s]    (* erase: list now empty / not *)
               | XOk => [plain (XDoHead k) s]
               | XInv | XErr => [plain (XSwitch k x) s] end
      | KStep => [plain (XSwitch k x) s]
      | KLine | KLeave =>
          match x with
          | XOk => [plain (XSwitch k x) s; plain (XLoop k x) s]   (* line changed / scope left, or once more *)
          | _ => [plain (XSwitch k x) s] end end
  | XExitEmpty k x => [plain (XSwitch k x) (w_state s SEmpty)]
  | XSwitch k x => [plain (XExitChk k x) (w_state s (table x))]
  | XExitChk k x => if ex s then [plain (XExitSet k x) (w_cx s false)] else [plain (XRelease k x) s]
  | XExitSet k x => [plain (XRelease k x) (w_state s SEmpty)]
  | XRelease k x => [plain Idle (w_run s false)]
  | SState => if mstate_eqb (state s) SRunning then [plain SRun s] else [plain Idle s]
  | SRun => if run s then [plain SWrite s] else [plain Idle s]
  | SWrite => [(Idle, w_ex s true, false, true)]
  | AState => match state s with SRunning => [plain ARun s] | SHalted | SHaltedError => [plain ACas s] | SEmpty => [plain Idle s] end
  | ARun => if run s then [plain AWrite s] else [plain Idle s]
  | AWrite => [(Idle, w_ex s true, false, true)]
  | ACas => if run s then [plain Idle s] else [plain AClear (w_run s true)]
  | AClear => [plain ASetEmpty (w_cx s false)]
  | ASetEmpty => [plain ARelease (w_state s SEmpty)]
  | ARelease => [plain Idle (w_run s false)]
  end.

Definition set_pc0 (s:sys) (p:pc) : sys :=
  {| run := run s; state := state s; ex := ex s; ha := ha s; cx := cx s; pc0 := p; pc1 := pc1 s; used0 := used0 s; g := g s |}.
Definition set_pc1 (s:sys) (p:pc) : sys :=
  {| run := run s; state := state s; ex := ex s; ha := ha s; cx := cx s; pc0 := pc0 s; pc1 := p; used0 := used0 s; g := g s |}.
Definition set_used0 (s:sys) : sys :=
  {| run := run s; state := state s; ex := ex s; ha := ha s; cx := cx s; pc0 := pc0 s; pc1 := pc1 s; used0 := true; g := g s |}.

Definition kinds := [KStart; KStep; KLine; KLeave].
Definition ghost_count (x:ghost) : ghost := match x with GNone => GNone | GReq0 => GReq1 | GReq1 => GBad | GBad => GBad | GLate => GLate end.

(* steps of agent 0.  restricted: it issues exactly one executing action (the executor of the property) *)
Definition steps0 (restricted:bool) (s:sys) : list sys :=
  match pc0 s with
  | Idle =>
      if andb restricted (used0 s) then []
      else map (fun k => w_g (set_used0 (set_pc0 s (XCas k))) GNone) kinds ++
           (if restricted then [] else [w_g (set_pc0 s SState) GNone; w_g (set_pc0 s AState) GNone])
  | p => map (fun m : pc * sys * bool * bool =>
                let '(p', s', counted, _) := m in
                let s1 := set_pc0 s' p' in if counted then w_g s1 (ghost_count (g s1)) else s1) (moves p s)
  end.

(* steps of agent 1 (the controller): any action at any time *)
Definition steps1 (s:sys) : list sys :=
  match pc1 s with
  | Idle => map (fun k => set_pc1 s (XCas k)) kinds ++ [set_pc1 s SState; set_pc1 s AState]
  | p => map (fun m : pc * sys * bool * bool =>
                let '(p', s', _, accepted) := m in
                let s1 := set_pc1 s' p' in
                if andb accepted (in_cs (pc0 s))
                then (match g s1 with
                      | GNone => w_g s1 (match pc0 s with XRelease _ _ => GLate | _ => GReq0 end)   (* after the executor's last test: too late *)
                      | _ => s1 end)
                else s1) (moves p s)
  end.

Definition succs (restricted:bool) (s:sys) : list sys := steps0 restricted s ++ steps1 s.

(* initial states: nobody acts; the runtime is idle in any of its resting states, with or without scripts *)
Definition init (st:mstate) (c e:bool) : sys :=
  {| run := false; state := st; ex := e; ha := false; cx := c; pc0 := Idle; pc1 := Idle; used0 := false; g := GNone |}.
Definition inits : list sys :=
  flat_map (fun st => flat_map (fun c => [init st c false; init st c true]) [true; false]) [SEmpty; SHalted; SHaltedError].

Inductive reachable (restricted:bool) : sys -> Prop :=
| r_init s : In s inits -> reachable restricted s
| r_step s s' : reachable restricted s -> In s' (succs restricted s) -> reachable restricted s'.

(* ------------------------------------------------------------------ encoding of states as numbers *)
Definition kind_idx k := match k with KStart => 0 | KStep => 1 | KLine => 2 | KLeave => 3 end.
Definition kind_of n := match n with 0 => KStart | 1 => KStep | 2 => KLine | _ => KLeave end.
Definition xres_idx x := match x with XInv => 0 | XEmp => 1 | XOk => 2 | XErr => 3 end.
Definition xres_of n := match n with 0 => XInv | 1 => XEmp | 2 => XOk | _ => XErr end.
Definition mstate_idx x := match x with SEmpty => 0 | SHalted => 1 | SRunning => 2 | SHaltedError => 3 end.
Definition mstate_of n := match n with 0 => SEmpty | 1 => SHalted | 2 => SRunning | _ => SHaltedError end.
Definition ghost_idx x := match x with GNone => 0 | GReq0 => 1 | GReq1 => 2 | GBad => 3 | GLate => 4 end.
Definition ghost_of n := match n with 0 => GNone | 1 => GReq0 | 2 => GReq1 | 3 => GBad | _ => GLate end.
Definition bool_idx (b:bool) := if b then 1 else 0.
Definition bool_of n := match n with 0 => false | _ => true end.

(* pc: constructor number * 16 + kind * 4 + res *)
Definition pc_idx (p:pc) : nat :=
  match p with
  | Idle => 0
  | XCas k => 16 + 4 * kind_idx k | XBegin k => 32 + 4 * kind_idx k | XClrExit k => 48 + 4 * kind_idx k
  | XClrHalt k => 64 + 4 * kind_idx k | XSetRun k => 80 + 4 * kind_idx k
  | XLoop k x => 96 + 4 * kind_idx k + xres_idx x
  | XDoHead k => 112 + 4 * kind_idx k | XDoState k => 128 + 4 * kind_idx k | XInstr k => 144 + 4 * kind_idx k
  | XAfterDo k x => 160 + 4 * kind_idx k + xres_idx x
  | XExitEmpty k x => 176 + 4 * kind_idx k + xres_idx x
  | XSwitch k x => 192 + 4 * kind_idx k + xres_idx x
  | XExitChk k x => 208 + 4 * kind_idx k + xres_idx x
  | XExitSet k x => 224 + 4 * kind_idx k + xres_idx x
  | XRelease k x => 240 + 4 * kind_idx k + xres_idx x
  | SState => 256 | SRun => 257 | SWrite => 258
  | AState => 259 | ARun => 260 | AWrite => 261 | ACas => 262 | AClear => 263 | ASetEmpty => 264 | ARelease => 265
  end.
Definition pc_of (n:nat) : pc :=
  let c := Nat.div n 16 in
  let k := kind_of (Nat.div (Nat.modulo n 16) 4) in
  let x := xres_of (Nat.modulo n 4) in
  match c with
  | 0 => Idle
  | 1 => XCas k | 2 => XBegin k | 3 => XClrExit k | 4 => XClrHalt k | 5 => XSetRun k
  | 6 => XLoop k x | 7 => XDoHead k | 8 => XDoState k | 9 => XInstr k
  | 10 => XAfterDo k x | 11 => XExitEmpty k x | 12 => XSwitch k x | 13 => XExitChk k x | 14 => XExitSet k x | 15 => XRelease k x
  | _ => match n - 256 with
         | 0 => SState | 1 => SRun | 2 => SWrite | 3 => AState | 4 => ARun | 5 => AWrite | 6 => ACas | 7 => AClear
         | 8 => ASetEmpty | _ => ARelease end
  end.
Lemma pc_of_idx : forall p, pc_of (pc_idx p) = p.
Proof. destruct p as [|k|k|k|k|k|k x|k|k|k|k x|k x|k x|k x|k x|k x| | | | | | | | | |]; try destruct k; try destruct x; reflexivity. Qed.
Lemma pc_idx_bound : forall p, pc_idx p < 512.
Proof. destruct p as [|k|k|k|k|k|k x|k|k|k|k x|k x|k x|k x|k x|k x| | | | | | | | | |]; try destruct k; try destruct x; cbn; lia. Qed.

Local Open Scope N_scope.
Definition pack (a:N) (b:N) (c:nat) : N := a * b + N.of_nat c.
Lemma unpack : forall a b c, N.of_nat c < b -> pack a b c / b = a /\ N.to_nat (pack a b c mod b) = c.
Proof.
  intros a b c H. unfold pack. assert (Hb : b <> 0) by lia. split.
  - rewrite N.div_add_l by exact Hb. rewrite N.div_small by exact H. lia.
  - rewrite N.add_comm, N.mod_add by exact Hb. rewrite N.mod_small by exact H. apply Nat2N.id.
Qed.

Definition enc_n (s:sys) : N :=
  pack (pack (pack (pack (pack (pack (pack (pack (N.of_nat (bool_idx (run s))) 4 (mstate_idx (state s))) 2 (bool_idx (ex s))) 2 (bool_idx (ha s)))
    2 (bool_idx (cx s))) 512 (pc_idx (pc0 s))) 512 (pc_idx (pc1 s))) 2 (bool_idx (used0 s))) 8 (ghost_idx (g s)).
Definition enc (s:sys) : positive := N.succ_pos (enc_n s).
Definition dec_n (n:N) : sys :=
  let gi := N.to_nat (n mod 8) in let n := n / 8 in
  let ui := N.to_nat (n mod 2) in let n := n / 2 in
  let p1 := N.to_nat (n mod 512) in let n := n / 512 in
  let p0 := N.to_nat (n mod 512) in let n := n / 512 in
  let ci := N.to_nat (n mod 2) in let n := n / 2 in
  let hi := N.to_nat (n mod 2) in let n := n / 2 in
  let ei := N.to_nat (n mod 2) in let n := n / 2 in
  let si := N.to_nat (n mod 4) in let n := n / 4 in
  {| run := bool_of (N.to_nat n); state := mstate_of si; ex := bool_of ei; ha := bool_of hi; cx := bool_of ci;
     pc0 := pc_of p0; pc1 := pc_of p1; used0 := bool_of ui; g := ghost_of gi |}.
Definition dec (p:positive) : sys := dec_n (N.pred (Npos p)).

Lemma bool_bound : forall b, N.of_nat (bool_idx b) < 2. Proof. destruct b; cbn; lia. Qed.
Lemma mstate_bound : forall b, N.of_nat (mstate_idx b) < 4. Proof. destruct b; cbn; lia. Qed.
Lemma ghost_bound : forall b, N.of_nat (ghost_idx b) < 8. Proof. destruct b; cbn; lia. Qed.
Lemma pc_bound : forall p, N.of_nat (pc_idx p) < 512. Proof. intros p. pose proof (pc_idx_bound p). lia. Qed.

Lemma dec_enc : forall s, dec (enc s) = s.
Proof.
  intros s. unfold dec, enc. rewrite N.succ_pos_spec, N.pred_succ. unfold dec_n, enc_n.
  repeat match goal with
  | |- context [pack ?a ?b ?c / ?b] =>
      let H := fresh in
      assert (H : pack a b c / b = a /\ N.to_nat (pack a b c mod b) = c)
        by (apply unpack; first [apply bool_bound|apply mstate_bound|apply ghost_bound|apply pc_bound]);
      destruct H as [-> ->]
  end.
  rewrite Nat2N.id. destruct s as [r st e h c p0 p1 u gg]. cbn [run state ex ha cx pc0 pc1 used0 g].
  rewrite !pc_of_idx. destruct r, st, e, h, c, u, gg; reflexivity.
Qed.
Local Close Scope N_scope.

(* ------------------------------------------------------------------ certified reachability *)
Definition visit (restricted:bool) (acc:PositiveSet.t * list sys) (s:sys) : PositiveSet.t * list sys :=
  fold_left (fun (a:PositiveSet.t * list sys) s' =>
               let '(seen, next) := a in
               let c := enc s' in
               if PositiveSet.mem c seen then (seen, next) else (PositiveSet.add c seen, s' :: next))
            (succs restricted s) acc.

Fixpoint bfs (restricted:bool) (fuel:nat) (frontier:list sys) (seen:PositiveSet.t) : PositiveSet.t :=
  match fuel with
  | O => seen
  | S fuel' =>
      match frontier with
      | [] => seen
      | _ => let '(seen', next) := fold_left (visit restricted) frontier (seen, []) in
             bfs restricted fuel' next seen' end
  end.

Definition reach_set (restricted:bool) : PositiveSet.t :=
  bfs restricted 2000 inits (fold_left (fun acc s => PositiveSet.add (enc s) acc) inits PositiveSet.empty).

(* the set contains the initial states, is closed under every step, and P holds on each element *)
Definition certify (restricted:bool) (P:sys -> bool) : bool :=
  let R := reach_set restricted in
  andb (forallb (fun s => PositiveSet.mem (enc s) R) inits)
       (forallb (fun c => let s := dec c in
                          andb (P s) (forallb (fun s' => PositiveSet.mem (enc s') R) (succs restricted s)))
                (PositiveSet.elements R)).

Theorem certify_sound : forall restricted P, certify restricted P = true ->
  forall s, reachable restricted s -> P s = true.
Proof.
  intros restricted P H. unfold certify in H. apply andb_prop in H. destruct H as [Hi Hc].
  rewrite forallb_forall in Hi. rewrite forallb_forall in Hc.
  assert (Hel : forall s, PositiveSet.mem (enc s) (reach_set restricted) = true ->
                P s = true /\ forall s', In s' (succs restricted s) -> PositiveSet.mem (enc s') (reach_set restricted) = true).
  { intros s Hm. assert (Hin : In (enc s) (PositiveSet.elements (reach_set restricted))).
    { apply PositiveSet.mem_spec in Hm. apply PositiveSet.elements_spec1 in Hm.
      apply SetoidList.InA_alt in Hm. destruct Hm as [y [-> Hy]]. exact Hy. }
    specialize (Hc _ Hin). cbv zeta in Hc. rewrite dec_enc in Hc. apply andb_prop in Hc. destruct Hc as [Hp Hs].
    split; [exact Hp|]. rewrite forallb_forall in Hs. exact Hs. }
  assert (Hr : forall s, reachable restricted s -> PositiveSet.mem (enc s) (reach_set restricted) = true).
  { intros s Hs. induction Hs as [s Hin|s s' Hs IH Hin]; [apply Hi; exact Hin|]. destruct (Hel s IH) as [_ Hn]. apply Hn. exact Hin. }
  intros s Hs. destruct (Hel s (Hr s Hs)) as [Hp _]. exact Hp.
Qed.

(* ------------------------------------------------------------------ the properties *)
(* at most one agent is between a successful compare_exchange and the store of false, and the flag says so *)
Definition p_mutex (s:sys) : bool :=
  andb (negb (andb (in_cs (pc0 s)) (in_cs (pc1 s)))) (Bool.eqb (run s) (orb (in_cs (pc0 s)) (in_cs (pc1 s)))).
(* when nobody is inside execute() the flag is free and the state is not `running`: the runtime accepts actions again *)
Definition p_quiescent (s:sys) : bool :=
  match pc0 s, pc1 s with
  | Idle, Idle => andb (negb (run s)) (negb (mstate_eqb (state s) SRunning))
  | _, _ => true end.
(* no agent is ever stuck inside execute(): whatever the other one did, its next atomic step is enabled *)
Definition p_progress (s:sys) : bool :=
  andb (match pc0 s with Idle => true | p => match moves p s with [] => false | _ => true end end)
       (match pc1 s with Idle => true | p => match moves p s with [] => false | _ => true end end).
(* the ghost counter: instructions agent 0 executed after agent 1's stop/abort was accepted *)
Definition p_bounded (s:sys) : bool := match g s with GBad => false | _ => true end.
(* an accepted stop/abort discards all scripts: when the stopped action hands the flag back the runtime is empty *)
Definition p_discards (s:sys) : bool :=
  match pc0 s, g s with
  | XRelease _ _, GReq0 | XRelease _ _, GReq1 => andb (mstate_eqb (state s) SEmpty) (negb (cx s))
  | _, _ => true end.
(* a stop/abort store is only ever pending against an executor that is past its own reset of the flag *)
Definition p_all_general (s:sys) : bool := andb (p_mutex s) (andb (p_quiescent s) (p_progress s)).
Definition p_all_restricted (s:sys) : bool := andb (p_all_general s) (andb (p_bounded s) (p_discards s)).

Lemma certified_restricted : certify true p_all_restricted = true.
Proof. vm_compute. reflexivity. Qed.
Lemma certified_general : certify false p_all_general = true.
Proof. vm_compute. reflexivity. Qed.

(* sizes of the two reachable sets (for the evidence; not used by any proof) *)
Definition reach_size (restricted:bool) : nat := length (PositiveSet.elements (reach_set restricted)).

Theorem mutual_exclusion : forall b s, reachable b s ->
  (in_cs (pc0 s) = true -> in_cs (pc1 s) = true -> False) /\ run s = orb (in_cs (pc0 s)) (in_cs (pc1 s)).
Proof.
  intros b s H. assert (P : p_mutex s = true).
  { destruct b.
    - pose proof (certify_sound true _ certified_restricted s H) as Q. unfold p_all_restricted, p_all_general in Q.
      apply andb_prop in Q. destruct Q as [Q _]. apply andb_prop in Q. destruct Q as [Q _]. exact Q.
    - pose proof (certify_sound false _ certified_general s H) as Q. unfold p_all_general in Q.
      apply andb_prop in Q. destruct Q as [Q _]. exact Q. }
  unfold p_mutex in P. apply andb_prop in P. destruct P as [A B]. split.
  - intros H0 H1. rewrite H0, H1 in A. discriminate.
  - apply Bool.eqb_prop. exact B.
Qed.

Theorem never_stuck : forall b s, reachable b s ->
  (pc0 s <> Idle -> moves (pc0 s) s <> []) /\ (pc1 s <> Idle -> moves (pc1 s) s <> []) /\
  (pc0 s = Idle -> pc1 s = Idle -> run s = false /\ state s <> SRunning).
Proof.
  intros b s H. assert (P : p_quiescent s = true /\ p_progress s = true).
  { destruct b.
    - pose proof (certify_sound true _ certified_restricted s H) as Q. unfold p_all_restricted, p_all_general in Q.
      apply andb_prop in Q. destruct Q as [Q _]. apply andb_prop in Q. destruct Q as [_ Q]. apply andb_prop in Q. exact Q.
    - pose proof (certify_sound false _ certified_general s H) as Q. unfold p_all_general in Q.
      apply andb_prop in Q. destruct Q as [_ Q]. apply andb_prop in Q. exact Q. }
  destruct P as [Pq Pp]. unfold p_progress in Pp. apply andb_prop in Pp. destruct Pp as [P0 P1]. repeat split.
  - intros Hn He. destruct (pc0 s) eqn:Ep; [congruence| rewrite He in P0; discriminate ..].
  - intros Hn He. destruct (pc1 s) eqn:Ep; [congruence| rewrite He in P1; discriminate ..].
  - unfold p_quiescent in Pq. rewrite H0, H1 in Pq. apply andb_prop in Pq. destruct Pq as [A _]. destruct (run s); [discriminate|reflexivity].
  - unfold p_quiescent in Pq. rewrite H0, H1 in Pq. apply andb_prop in Pq. destruct Pq as [_ A]. intros E. rewrite E in A. discriminate.
Qed.

(* one executing action of agent 0, anything from agent 1: after a stop/abort of agent 1 has been accepted (its store of the
   exit request, made after it saw state = running and the run flag set) agent 0 executes at most one more instruction,
   and - if the store came before agent 0's last test of the request - when it hands the run flag back all scripts are gone
   and the state is empty *)
Theorem stop_abort_bounded : forall s, reachable true s ->
  g s <> GBad /\
  (forall k x, pc0 s = XRelease k x -> (g s = GReq0 \/ g s = GReq1) -> state s = SEmpty /\ cx s = false).
Proof.
  intros s H. pose proof (certify_sound true _ certified_restricted s H) as Q. unfold p_all_restricted in Q.
  apply andb_prop in Q. destruct Q as [_ Q]. apply andb_prop in Q. destruct Q as [Qb Qd]. split.
  - unfold p_bounded in Qb. intros E. rewrite E in Qb. discriminate.
  - intros k x Hp Hg. unfold p_discards in Qd. rewrite Hp in Qd.
    assert (Q : andb (mstate_eqb (state s) SEmpty) (negb (cx s)) = true) by (destruct Hg as [Hg|Hg]; rewrite Hg in Qd; exact Qd).
    apply andb_prop in Q. destruct Q as [A B]. split; [destruct (state s); try discriminate; reflexivity|destruct (cx s); [discriminate|reflexivity]].
Qed.

(* ------------------------------------------------------------------ a request that lands on the NEXT action is lost *)
(* general system: agent 0 issues a second action while agent 1 is between its reads (state = running, run flag set)
   and its store of the exit request; the store lands before the new action's own reset of the flag and is erased by it:
   stop returned ok, yet the executor never sees it and runs on without bound. *)
Fixpoint follow (restricted:bool) (s:sys) (path:list nat) : option sys :=
  match path with
  | [] => Some s
  | n :: rest => match nth_error (succs restricted s) n with Some s' => follow restricted s' rest | None => None end end.

Lemma follow_reachable : forall b path s s', reachable b s -> follow b s path = Some s' -> reachable b s'.
Proof.
  intros b path. induction path as [|n rest IH]; intros s s' Hr H; cbn in H; [injection H as <-; exact Hr|].
  destruct (nth_error (succs b s) n) as [s1|] eqn:E; [|discriminate]. eapply IH; [|exact H].
  eapply r_step; [exact Hr|]. eapply nth_error_In. exact E.
Qed.

Definition lost_path : list nat :=
  [1; 0; 0; 0; 0; 0; 5; 1; 1; 0; 0; 0; 0; 0; 0; 0; 0; 0; 0; 1; 0; 0; 0; 0; 0; 0; 0; 0; 0; 0; 0; 0; 0; 0].
(* agent 0: assembly_step up to m_state = running | agent 1: stop reads running, reads the run flag | agent 0: finishes the
   step, issues start, wins the compare_exchange | agent 1: stores the exit request, stop returns ok | agent 0: resets the
   request (prologue of start) and executes instruction after instruction *)
Theorem stop_lost_across_actions_refuted :
  exists s, reachable false s /\ g s = GBad /\ ex s = false /\ pc1 s = Idle.
Proof.
  destruct (follow false (init SEmpty true false) lost_path) as [s|] eqn:E; [|vm_compute in E; discriminate].
  exists s. split.
  - eapply follow_reachable; [|exact E]. apply r_init. vm_compute. tauto.
  - vm_compute in E. injection E as <-. cbn. auto.
Qed.

Definition late_path : list nat := [1; 0; 0; 0; 0; 0; 6; 1; 1; 0; 0; 0; 0; 0; 0; 0; 1; 0].
(* agent 0: assembly_step | agent 1: abort reads running and the run flag | agent 0: executes its instruction, stores halted,
   tests the request (not set), is about to release | agent 1: stores the request, abort returns ok | agent 0: releases.
   The accepted abort discarded nothing: halted, scripts still loaded, a stale request left behind. *)
Theorem accepted_abort_can_miss_refuted :
  exists s, reachable true s /\ g s = GLate /\ pc0 s = Idle /\ pc1 s = Idle /\ state s = SHalted /\ cx s = true /\ ex s = true.
Proof.
  destruct (follow true (init SEmpty true false) late_path) as [s|] eqn:E; [|vm_compute in E; discriminate].
  exists s. split.
  - eapply follow_reachable; [|exact E]. apply r_init. vm_compute. tauto.
  - vm_compute in E. injection E as <-. cbn. repeat split; reflexivity.
Qed.
