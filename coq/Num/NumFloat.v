(* C06, value half: the number conversions of Num/NumDefs.v meet the IEEE-754 / printf specification
   (Flocq's generic rounding on real numbers). *)
From Coq Require Import ZArith List Bool Lia Reals Lra SpecFloat.
From Flocq Require Import Core Bracket Div Round BinarySingleNaN.
From SqfVerif Require Import Num.NumDefs.
Import ListNotations.
Local Open Scope Z_scope.

Section Rounding.
Variable prec emax : Z.
Context (prec_gt_0_ : Prec_gt_0 prec).
Context (prec_lt_emax_ : Prec_lt_emax prec emax).

Notation fexpb := (SpecFloat.fexp prec emax).
Notation RN := (round radix2 fexpb ZnearestE).

(* round_ratio is the correctly rounded quotient: nearest, ties to even; +infinity iff the rounded
   value does not fit *)
Theorem round_ratio_correct : forall p q, 0 < p -> 0 < q ->
  let x := (IZR p / IZR q)%R in
  let z := round_ratio prec emax p q in
  valid_binary prec emax z = true /\
  if Rlt_bool (Rabs (RN x)) (bpow radix2 emax) then
    SF2R radix2 z = RN x /\ is_finite_SF z = true /\ sign_SF z = false
  else z = S754_infinity false.
Proof.
  intros p q Hp Hq x z.
  assert (0 < x)%R as Hx.
  { unfold x. apply Rdiv_lt_0_compat; now apply IZR_lt. }
  assert (F2R (Float radix2 p 0) = IZR p) as Fp by (unfold F2R; simpl; ring).
  assert (F2R (Float radix2 q 0) = IZR q) as Fq by (unfold F2R; simpl; ring).
  pose proof (@Fdiv_correct radix2 fexpb (Float radix2 p 0) (Float radix2 q 0)) as HD.
  rewrite Fp, Fq in HD. specialize (HD (IZR_lt _ _ Hp) (IZR_lt _ _ Hq)).
  unfold z, round_ratio.
  destruct (Fdiv fexpb (Float radix2 p 0) (Float radix2 q 0)) as [[m e] l].
  destruct HD as [He Hb]. fold x in He, Hb.
  pose proof (binary_round_aux_correct' prec emax _ _ mode_NE x m e l) as HR.
  rewrite Rabs_pos_eq in HR by now apply Rlt_le.
  specialize (HR (Rgt_not_eq _ _ Hx) Hb He).
  rewrite Rlt_bool_false in HR by now apply Rlt_le.
  cbn zeta in HR. destruct HR as [Hv HR]. split; [exact Hv|].
  change (round_mode mode_NE) with ZnearestE in HR.
  destruct (Rlt_bool (Rabs (RN x)) (bpow radix2 emax)); exact HR.
Qed.

(* valid finite/zero spec_floats are determined by their real value and sign *)
Lemma SF_inj : forall z1 z2,
  valid_binary prec emax z1 = true -> valid_binary prec emax z2 = true ->
  is_finite_SF z1 = true -> is_finite_SF z2 = true ->
  SF2R radix2 z1 = SF2R radix2 z2 -> sign_SF z1 = sign_SF z2 -> z1 = z2.
Proof.
  intros z1 z2 V1 V2 F1 F2 HR HS.
  rewrite <- (B2SF_SF2B prec emax z1 V1), <- (B2SF_SF2B prec emax z2 V2). f_equal.
  apply B2R_Bsign_inj.
  - now rewrite is_finite_SF2B.
  - now rewrite is_finite_SF2B.
  - now rewrite !B2R_SF2B.
  - now rewrite !Bsign_SF2B.
Qed.

(* the result depends on the rational only, not on the fraction chosen to write it *)
Theorem round_ratio_ext : forall p1 q1 p2 q2, 0 < p1 -> 0 < q1 -> 0 < p2 -> 0 < q2 ->
  p1 * q2 = p2 * q1 -> round_ratio prec emax p1 q1 = round_ratio prec emax p2 q2.
Proof.
  intros p1 q1 p2 q2 Hp1 Hq1 Hp2 Hq2 Heq.
  assert ((IZR p1 / IZR q1 = IZR p2 / IZR q2)%R) as Hx.
  { apply (f_equal IZR) in Heq. rewrite !mult_IZR in Heq.
    assert (IZR q1 <> 0%R) by (apply not_0_IZR; lia). assert (IZR q2 <> 0%R) by (apply not_0_IZR; lia).
    field_simplify_eq; [|split; assumption]. lra. }
  destruct (round_ratio_correct p1 q1 Hp1 Hq1) as [V1 C1].
  destruct (round_ratio_correct p2 q2 Hp2 Hq2) as [V2 C2].
  rewrite Hx in C1.
  destruct (Rlt_bool (Rabs (RN (IZR p2 / IZR q2))) (bpow radix2 emax)).
  - destruct C1 as (R1 & F1 & S1). destruct C2 as (R2 & F2 & S2).
    apply SF_inj; congruence.
  - congruence.
Qed.
End Rounding.

Global Instance prec24 : Prec_gt_0 24 := eq_refl.
Global Instance prec24_emax : Prec_lt_emax 24 128 := eq_refl.
Global Instance prec53 : Prec_gt_0 53 := eq_refl.
Global Instance prec53_emax : Prec_lt_emax 53 1024 := eq_refl.

Lemma pow10_pos : forall k, 0 < 10 ^ k \/ k < 0.
Proof. intro k. destruct (Z_lt_le_dec k 0); [now right|left]. apply Z.pow_pos_nonneg; lia. Qed.

Lemma ratio_of_pos : forall D X, 0 < D -> 0 < fst (ratio_of D X) /\ 0 < snd (ratio_of D X).
Proof.
  intros D X HD. unfold ratio_of. destruct (0 <=? X) eqn:HX; cbn [fst snd].
  - apply Z.leb_le in HX. split; [|lia]. apply Z.mul_pos_pos; [assumption|]. apply Z.pow_pos_nonneg; lia.
  - apply Z.leb_gt in HX. split; [assumption|]. apply Z.pow_pos_nonneg; lia.
Qed.

(* trailing zeros of the digit string may move into the exponent *)
Theorem nearest32_dec_shift : forall D ex j, 0 < D -> 0 <= j ->
  nearest32_dec (D * 10 ^ j) ex = nearest32_dec D (ex + j).
Proof.
  intros D ex j HD Hj.
  assert (0 < 10 ^ j) as Hpj by (apply Z.pow_pos_nonneg; lia).
  assert (0 < D * 10 ^ j) as HDj by now apply Z.mul_pos_pos.
  unfold nearest32_dec.
  replace (D * 10 ^ j <=? 0) with false by (symmetry; apply Z.leb_gt; assumption).
  replace (D <=? 0) with false by (symmetry; apply Z.leb_gt; assumption).
  pose proof (ratio_of_pos (D * 10 ^ j) ex HDj) as [P1 Q1].
  pose proof (ratio_of_pos D (ex + j) HD) as [P2 Q2].
  destruct (ratio_of (D * 10 ^ j) ex) as [p1 q1] eqn:E1. destruct (ratio_of D (ex + j)) as [p2 q2] eqn:E2.
  cbn [fst snd] in *.
  apply (round_ratio_ext 24 128 _ _); try assumption.
  unfold ratio_of in E1, E2.
  destruct (0 <=? ex) eqn:H1; destruct (0 <=? ex + j) eqn:H2;
    injection E1 as <- <-; injection E2 as <- <-;
    try apply Z.leb_le in H1; try apply Z.leb_gt in H1; try apply Z.leb_le in H2; try apply Z.leb_gt in H2.
  - rewrite Z.pow_add_r by lia. ring.
  - lia.
  - replace (10 ^ j) with (10 ^ (ex + j) * 10 ^ (- ex)) by (rewrite <- Z.pow_add_r by lia; f_equal; lia). ring.
  - replace (10 ^ (- ex)) with (10 ^ j * 10 ^ (- (ex + j))) by (rewrite <- Z.pow_add_r by lia; f_equal; lia). ring.
Qed.

(* ------------------------------------------------------------------ decimal literals *)

(* the real number a decimal (D, X) spells *)
Definition dec_R (D X : Z) : R := F2R (Float radix10 D X).

Lemma ratio_of_R : forall D X,
  (IZR (fst (ratio_of D X)) / IZR (snd (ratio_of D X)))%R = dec_R D X.
Proof.
  intros D X. unfold ratio_of, dec_R, F2R. cbn [Fnum Fexp].
  destruct (0 <=? X) eqn:HX; cbn [fst snd].
  - apply Z.leb_le in HX. rewrite mult_IZR. change 10 with (radix_val radix10) at 1.
    rewrite IZR_Zpower by assumption. field.
  - apply Z.leb_gt in HX. change 10 with (radix_val radix10) at 1.
    rewrite IZR_Zpower by lia. rewrite <- (Z.opp_involutive X) at 2. rewrite (bpow_opp radix10 (- X)).
    reflexivity.
Qed.

Notation RN32 := (round radix2 (SpecFloat.fexp 24 128) ZnearestE).

(* strtof: the binary32 nearest to the spelled decimal (ties to even), +infinity when that does not fit *)
Theorem nearest32_dec_spec : forall D X, 0 < D ->
  let x := dec_R D X in
  let z := nearest32_dec D X in
  valid_binary 24 128 z = true /\
  if Rlt_bool (Rabs (RN32 x)) (bpow radix2 128) then
    SF2R radix2 z = RN32 x /\ is_finite_SF z = true /\ sign_SF z = false
  else z = S754_infinity false.
Proof.
  intros D X HD x z. unfold z, nearest32_dec.
  replace (D <=? 0) with false by (symmetry; apply Z.leb_gt; assumption).
  pose proof (ratio_of_pos D X HD) as [Hp Hq]. pose proof (ratio_of_R D X) as HR.
  destruct (ratio_of D X) as [p q]. cbn [fst snd] in *.
  pose proof (round_ratio_correct 24 128 _ _ p q Hp Hq) as H. cbn zeta in H. rewrite HR in H. exact H.
Qed.

(* literal_value for the repaired rule: a NUMBER token evaluates to the binary32 nearest to the decimal it
   spells; when that is beyond the largest binary32 the token takes the NumberOutOfRange path (NaN + warning) *)
Theorem literal_value_repaired : forall t D X, dec_of t = (D, X) ->
  (D <= 0 -> lit_num repaired t = (S754_zero false, false)) /\
  (0 < D ->
     if Rlt_bool (Rabs (RN32 (dec_R D X))) (bpow radix2 128) then
       exists z, lit_num repaired t = (z, false) /\ valid_binary 24 128 z = true /\
                 SF2R radix2 z = RN32 (dec_R D X) /\ is_finite_SF z = true /\ sign_SF z = false
     else lit_num repaired t = (S754_nan, true)).
Proof.
  intros t D X Hd. unfold lit_num. rewrite Hd. unfold lit_of_dec. cbn [d_stod_cast repaired]. split.
  - intro H0. unfold nearest32_dec. replace (D <=? 0) with true by (symmetry; apply Z.leb_le; assumption). reflexivity.
  - intro HD. destruct (nearest32_dec_spec D X HD) as [Hv Hs].
    destruct (Rlt_bool (Rabs (RN32 (dec_R D X))) (bpow radix2 128)).
    + destruct Hs as (HR & HF & HS). exists (nearest32_dec D X). repeat split; try assumption.
      destruct (nearest32_dec D X); try reflexivity; discriminate.
    + now rewrite Hs.
Qed.

(* DESIGN section 8: the rule of the code as it stands (std::stod, then conversion to float) does not give the
   nearest binary32: the decimal below lies just above the midpoint of 1 and 1+2^-23, stod rounds it to the
   midpoint exactly, the conversion to float rounds the tie to even, i.e. down to 1. *)
Definition witness_double_rounding : list byte :=
  (* 1.00000005960464477539062500000001 *)
  [49;46;48;48;48;48;48;48;48;53;57;54;48;52;54;52;52;55;55;53;51;57;48;54;50;53;48;48;48;48;48;48;48;49].
(* a decimal below the smallest normal double: stod reports ERANGE, the literal becomes NaN; the nearest binary32 is 0 *)
Definition witness_tiny : list byte := [49;101;45;51;50;48].      (* 1e-320 *)

Theorem literal_value_refuted :
  (fst (next_tok as_is witness_double_rounding) = TNum witness_double_rounding /\
   lit_num as_is witness_double_rounding = (S754_finite false 8388608 (-23), false) /\
   lit_num repaired witness_double_rounding = (S754_finite false 8388609 (-23), false)) /\
  (fst (next_tok as_is witness_tiny) = TNum witness_tiny /\
   lit_num as_is witness_tiny = (S754_nan, true) /\
   lit_num repaired witness_tiny = (S754_zero false, false)).
Proof. vm_compute. repeat split. Qed.

Theorem literal_value_refuted_ex :
  exists t D X, fst (next_tok as_is t) = TNum t /\ dec_of t = (D, X) /\ 0 < D /\
                fst (lit_num as_is t) <> nearest32_dec D X.
Proof.
  exists witness_double_rounding. eexists. eexists. split; [vm_compute; reflexivity|].
  split; [vm_compute; reflexivity|]. split; [reflexivity|]. vm_compute. discriminate.
Qed.

(* ------------------------------------------------------------------ %g: six significant digits *)

Notation RN10 := (round radix10 (FLX_exp 6) ZnearestE).
Global Instance prec6 : Prec_gt_0 6 := eq_refl.

Lemma bin_value_pos : forall m e, (0 < F2R (Float radix2 (Zpos m) e))%R.
Proof. intros. now apply F2R_gt_0. Qed.

Lemma bin_as_ratio : forall m e,
  let '(n, d) := if 0 <=? e then (Zpos m * 2 ^ e, 1) else (Zpos m, 2 ^ (- e)) in
  0 < n /\ 0 < d /\ (IZR n / IZR d)%R = F2R (Float radix2 (Zpos m) e).
Proof.
  intros m e. unfold F2R. cbn [Fnum Fexp]. destruct (0 <=? e) eqn:He.
  - apply Z.leb_le in He. split; [|split; [lia|]].
    + apply Z.mul_pos_pos; [lia|]. apply Z.pow_pos_nonneg; lia.
    + rewrite mult_IZR. change 2 with (radix_val radix2) at 1. rewrite IZR_Zpower by assumption. field.
  - apply Z.leb_gt in He. split; [lia|split].
    + apply Z.pow_pos_nonneg; lia.
    + change 2 with (radix_val radix2) at 1. rewrite IZR_Zpower by lia.
      rewrite <- (Z.opp_involutive e) at 2. rewrite (bpow_opp radix2 (- e)). reflexivity.
Qed.

Lemma bpow10_6 : forall e, bpow radix10 (e + 6) = F2R (Float radix10 1000000 e).
Proof. intro e. unfold F2R. cbn [Fnum Fexp]. rewrite bpow_plus. simpl (bpow radix10 6). ring. Qed.
Lemma bpow10_5 : forall e, bpow radix10 (e + 5) = F2R (Float radix10 100000 e).
Proof. intro e. unfold F2R. cbn [Fnum Fexp]. rewrite bpow_plus. simpl (bpow radix10 5). ring. Qed.

(* printf's digit generation: (q, ex) is the six-digit decimal nearest to the binary value (ties to even),
   normalised to 10^5 <= q < 10^6, and ex is its decimal exponent mag10(x) - 6 (or one more after a carry) *)
Theorem dec6_of_spec : forall m e,
  let x := F2R (Float radix2 (Zpos m) e) in
  let q := fst (dec6_of m e) in let ex := snd (dec6_of m e) in
  F2R (Float radix10 q ex) = RN10 x /\ 100000 <= q < 1000000 /\
  (ex = mag radix10 x - 6 \/ ex = mag radix10 x - 6 + 1).
Proof.
  intros m e x. unfold dec6_of.
  pose proof (bin_as_ratio m e) as HB. pose proof (bin_value_pos m e) as Hx. fold x in Hx.
  destruct (if 0 <=? e then (Zpos m * 2 ^ e, 1) else (Zpos m, 2 ^ (- e))) as [n d].
  destruct HB as (Hn & Hd & HR). fold x in HR.
  assert (F2R (Float radix10 n 0) = IZR n) as Fn by (unfold F2R; simpl; ring).
  assert (F2R (Float radix10 d 0) = IZR d) as Fd by (unfold F2R; simpl; ring).
  pose proof (@Fdiv_correct radix10 (FLX_exp 6) (Float radix10 n 0) (Float radix10 d 0)) as HD.
  rewrite Fn, Fd, HR in HD. specialize (HD (IZR_lt _ _ Hn) (IZR_lt _ _ Hd)).
  destruct (Fdiv (FLX_exp 6) (Float radix10 n 0) (Float radix10 d 0)) as [[mq eq] l].
  destruct HD as [He Hb].
  pose proof (round_trunc_NE_correct' radix10 (FLX_exp 6) x mq eq l (Rlt_le _ _ Hx) Hb (or_introl He)) as HRN.
  pose proof (truncate_correct_partial' radix10 (FLX_exp 6) x mq eq l Hx Hb He) as HT.
  destruct (truncate radix10 (FLX_exp 6) (mq, eq, l)) as [[m' e'] l'].
  destruct HT as [Hb' He'].
  (* 10^5 <= m' < 10^6 *)
  assert (e' = mag radix10 x - 6) as Hmag by (rewrite He'; reflexivity).
  pose proof (inbetween_float_bounds _ _ _ _ _ Hb') as [Hlo Hhi].
  assert (x <> 0%R) as Hx0 by now apply Rgt_not_eq.
  pose proof (bpow_mag_gt radix10 x) as Hgt. pose proof (bpow_mag_le radix10 x Hx0) as Hle.
  rewrite Rabs_pos_eq in Hgt, Hle by now apply Rlt_le.
  assert (m' < 1000000) as Hm1.
  { apply (lt_F2R radix10 e'). rewrite <- bpow10_6. replace (e' + 6) with (mag radix10 x : Z) by lia.
    eapply Rle_lt_trans; eassumption. }
  assert (100000 < m' + 1) as Hm0.
  { apply (lt_F2R radix10 e'). rewrite <- bpow10_5. replace (e' + 5) with (mag radix10 x - 1) by lia.
    eapply Rle_lt_trans; eassumption. }
  set (q0 := cond_incr (round_N (negb (Z.even m')) l') m') in *.
  assert (m' <= q0 <= m' + 1) as Hq0 by (unfold q0, cond_incr; destruct (round_N _ _); lia).
  destruct (q0 =? 1000000) eqn:Hc; cbn [fst snd].
  - apply Z.eqb_eq in Hc. split; [|split; [lia|right; lia]].
    rewrite HRN, Hc. unfold F2R. cbn [Fnum Fexp]. rewrite bpow_plus. simpl (bpow radix10 1). ring.
  - apply Z.eqb_neq in Hc. split; [now rewrite HRN|split; [lia|left; lia]].
Qed.

Lemma bpow2_128_lt : (bpow radix2 128 < bpow radix10 39)%R.
Proof. simpl. apply IZR_lt. apply Z.ltb_lt. vm_compute. reflexivity. Qed.
Lemma bpow10_m45_le : (bpow radix10 (-45) <= bpow radix2 (-149))%R.
Proof.
  change (-45) with (- (45)). change (-149) with (- (149)). rewrite !bpow_opp.
  apply Rinv_le_contravar; [apply bpow_gt_0|]. simpl. apply IZR_le. apply Z.leb_le. vm_compute. reflexivity.
Qed.

(* every binary32 (mantissa below 2^24, exponent -149..104) has a decimal exponent of at most two digits *)
Theorem dec6_of_range : forall m e, Zpos m < 2 ^ 24 -> -149 <= e <= 104 ->
  100000 <= fst (dec6_of m e) < 1000000 /\ -100 < snd (dec6_of m e) + 5 < 100.
Proof.
  intros m e Hm He. destruct (dec6_of_spec m e) as (_ & Hq & Hex). split; [exact Hq|].
  set (x := F2R (Float radix2 (Zpos m) e)) in *.
  pose proof (bin_value_pos m e) as Hx. fold x in Hx.
  assert (x <> 0%R) as Hx0 by now apply Rgt_not_eq.
  assert (mag radix10 x <= 39) as Hup.
  { apply mag_le_bpow; [assumption|]. eapply Rlt_trans; [|apply bpow2_128_lt].
    apply F2R_lt_bpow. cbn [Fnum Fexp Z.abs]. eapply Z.lt_le_trans; [exact Hm|].
    change (Zpower radix2 (128 - e)) with (2 ^ (128 - e)). apply Z.pow_le_mono_r; lia. }
  assert (-44 <= mag radix10 x) as Hlo.
  { apply mag_ge_bpow. change (-44 - 1) with (-45). rewrite Rabs_pos_eq by now apply Rlt_le.
    eapply Rle_trans; [apply bpow10_m45_le|]. eapply Rle_trans; [apply (bpow_le radix2 (-149) e); lia|].
    rewrite <- (F2R_bpow radix2 e). apply F2R_le. lia. }
  lia.
Qed.

Lemma valid_binary32_bounds : forall s m e, valid_binary 24 128 (S754_finite s m e) = true ->
  Zpos m < 2 ^ 24 /\ -149 <= e <= 104.
Proof.
  intros s m e H. cbn [valid_binary] in H. unfold bounded, canonical_mantissa in H.
  apply andb_prop in H. destruct H as [Hc Hb]. apply Zeq_bool_eq in Hc. apply Z.leb_le in Hb.
  unfold SpecFloat.fexp, SpecFloat.emin in Hc.
  rewrite Digits.Zpos_digits2_pos in Hc.
  pose proof (Digits.Zdigits_correct radix2 (Zpos m)) as Hd. cbn [Z.abs] in Hd.
  set (d := Digits.Zdigits radix2 (Zpos m)) in *.
  assert (d <= 24) by lia.
  split; [|lia].
  eapply Z.lt_le_trans; [apply Hd|]. change (Zpower radix2 d) with (2 ^ d). apply Z.pow_le_mono_r; lia.
Qed.

(* if the nearest binary32 of the six-digit decimal of (m, e) is (m, e) again, then (m, e) is a valid binary32
   and its decimal exponent has at most two digits *)
Lemma printable_range : forall m e,
  nearest32_dec (fst (dec6_of m e)) (snd (dec6_of m e)) = S754_finite false m e ->
  100000 <= fst (dec6_of m e) < 1000000 /\ -100 < snd (dec6_of m e) + 5 < 100.
Proof.
  intros m e H. destruct (dec6_of_spec m e) as (_ & Hq & _).
  destruct (nearest32_dec_spec (fst (dec6_of m e)) (snd (dec6_of m e)) ltac:(lia)) as [Hv _].
  rewrite H in Hv. destruct (valid_binary32_bounds _ _ _ Hv) as [Hm He].
  now apply dec6_of_range.
Qed.

(* ------------------------------------------------------------------ hexadecimal literals *)

Global Instance fexp32_valid : Valid_exp (SpecFloat.fexp 24 128) := fexp_correct 24 128 prec24.

Definition hex_int (t : list byte) : Z :=
  fold_left (fun a c => 16 * a + hexval c) (match t with c0 :: r0 => if c0 =? 36 then r0 else tl r0 | [] => [] end) 0.

(* a HEXNUMBER token evaluates to the binary32 nearest to the integer it spells (ties to even); from 2^63 on
   std::stol throws and the token takes the NumberOutOfRange path *)
Theorem literal_hex_value : forall t,
  let h := hex_int t in
  (2 ^ 63 <= h -> lit_hex t = (S754_nan, true)) /\
  (h <= 0 -> lit_hex t = (S754_zero false, false)) /\
  (0 < h < 2 ^ 63 -> exists z, lit_hex t = (z, false) /\ valid_binary 24 128 z = true /\
                               SF2R radix2 z = RN32 (IZR h) /\ is_finite_SF z = true).
Proof with auto with typeclass_instances.
  intros t h. unfold lit_hex. fold (hex_int t). fold h. repeat split.
  - intro H. replace (2 ^ 63 <=? h) with true by (symmetry; apply Z.leb_le; assumption). reflexivity.
  - intro H. replace (2 ^ 63 <=? h) with false by (symmetry; apply Z.leb_gt; lia). destruct h; try reflexivity. lia.
  - intros [H0 H63]. replace (2 ^ 63 <=? h) with false by (symmetry; apply Z.leb_gt; lia).
    destruct h as [|p|p]; try lia.
    pose proof (binary_round_correct 24 128 _ _ mode_NE false p 0) as HB. cbn zeta in HB.
    destruct HB as [Hv HB]. cbn [cond_Zopp] in HB.
    assert (F2R (Float radix2 (Zpos p) 0) = IZR (Zpos p)) as HF by (unfold F2R; simpl; ring).
    rewrite HF in HB. change (round_mode mode_NE) with ZnearestE in HB.
    assert (Rabs (RN32 (IZR (Zpos p))) < bpow radix2 128)%R as Hlt.
    { assert (generic_format radix2 (SpecFloat.fexp 24 128) (bpow radix2 63)) as G63.
      { apply generic_format_bpow. unfold SpecFloat.fexp, SpecFloat.emin. lia. }
      assert (0 <= RN32 (IZR (Zpos p)))%R as Hge.
      { apply round_ge_generic... apply generic_format_0. apply IZR_le. lia. }
      assert (RN32 (IZR (Zpos p)) <= bpow radix2 63)%R as Hle.
      { apply round_le_generic... change (bpow radix2 63) with (IZR (2 ^ 63)). apply IZR_le. lia. }
      rewrite Rabs_pos_eq by assumption. eapply Rle_lt_trans; [exact Hle|]. apply bpow_lt. lia. }
    rewrite Rlt_bool_true in HB by exact Hlt. destruct HB as (HR & HF' & _).
    eexists. split; [reflexivity|]. repeat split; assumption.
Qed.

(* ------------------------------------------------------------------ the rule of the unchanged code, characterised *)

Notation RN64 := (round radix2 (SpecFloat.fexp 53 1024) ZnearestE).

(* When std::stod does not throw, the literal is RN32 (RN64 x): the decimal is rounded to binary64 and the result
   is rounded again to binary32. (literal_value_refuted shows the two roundings differ from one.) *)
Theorem literal_value_as_is_two_roundings : forall t D X dbl, dec_of t = (D, X) -> 0 < D ->
  stod D X = Some dbl ->
  lit_num as_is t = (cast32 dbl, false) /\
  SF2R radix2 dbl = RN64 (dec_R D X) /\
  (Rabs (RN32 (RN64 (dec_R D X))) < bpow radix2 128 ->
   SF2R radix2 (cast32 dbl) = RN32 (RN64 (dec_R D X)))%R.
Proof.
  intros t D X dbl Hd HD Hs. unfold lit_num. rewrite Hd. unfold lit_of_dec. cbn [d_stod_cast as_is]. rewrite Hs.
  split; [reflexivity|].
  unfold stod in Hs. replace (D <=? 0) with false in Hs by (symmetry; apply Z.leb_gt; assumption).
  pose proof (ratio_of_pos D X HD) as [Hp Hq]. pose proof (ratio_of_R D X) as HR.
  destruct (ratio_of D X) as [p q]. cbn [fst snd] in *.
  pose proof (round_ratio_correct 53 1024 _ _ p q Hp Hq) as [Hv HC]. cbn zeta in HC. rewrite HR in HC.
  destruct (round_ratio 53 1024 p q) as [s0|s0| |s m e] eqn:Hrr; try discriminate.
  assert (dbl = S754_finite s m e) as Hdbl.
  { destruct ((p * 2 ^ 1076 <? q * (2 ^ 54 - 1)) && negb (if 0 <=? e then Z.pos m * 2 ^ e * q =? p else Z.pos m * q =? p * 2 ^ (- e)));
      [discriminate|now injection Hs]. }
  subst dbl.
  destruct (Rlt_bool (Rabs (RN64 (dec_R D X))) (bpow radix2 1024)); [|discriminate].
  destruct HC as (HR64 & _ & _). split; [exact HR64|].
  intro Hfit. cbn [cast32].
  pose proof (binary_round_correct 24 128 _ _ mode_NE s m e) as [_ HB]. cbn zeta in HB.
  change (round_mode mode_NE) with ZnearestE in HB.
  change (F2R (Float radix2 (cond_Zopp s (Zpos m)) e)) with (SF2R radix2 (S754_finite s m e)) in HB.
  rewrite HR64 in HB. rewrite Rlt_bool_true in HB by exact Hfit. now destruct HB.
Qed.
