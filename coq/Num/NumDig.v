(* C06, value half: the classical FLT_DIG fact for binary32 - a decimal of at most six significant digits
   survives the trip decimal -> nearest binary32 -> six-digit decimal (what str prints). *)
From Coq Require Import ZArith List Bool Lia Reals Lra SpecFloat.
From Flocq Require Import Core Bracket Div Round BinarySingleNaN.
From SqfVerif Require Import Num.NumDefs Num.NumFloat.
Import ListNotations.
Local Open Scope Z_scope.

Notation F10 := (FLX_exp 6).
Notation F2 := (FLT_exp (-149) 24).

Lemma bpow2_m23 : bpow radix2 (-23) = (/ 8388608)%R.
Proof. reflexivity. Qed.

(* R-level statement: for d in the six-digit decimal format, at or above the smallest normal binary32,
   rounding to binary32 and then back to six digits returns d *)
Theorem survives_R : forall d : R,
  generic_format radix10 F10 d -> (bpow radix2 (-126) <= d)%R ->
  round radix10 F10 ZnearestE (round radix2 F2 ZnearestE d) = d.
Proof with auto with typeclass_instances.
  intros d Fd Hd.
  assert (0 < d)%R as Hpos by (eapply Rlt_le_trans; [apply (bpow_gt_0 radix2 (-126))|exact Hd]).
  assert (d <> 0%R) as Hd0 by now apply Rgt_not_eq.
  set (y := round radix2 F2 ZnearestE d).
  (* binary side: |y - d| <= d * 2^-24 *)
  set (E := mag radix2 d : Z).
  assert (-125 <= E) as HE.
  { unfold E. apply mag_ge_bpow. rewrite Rabs_pos_eq by lra. exact Hd. }
  pose proof (bpow_mag_le radix2 d Hd0) as HEle. rewrite Rabs_pos_eq in HEle by lra. fold E in HEle.
  assert (ulp radix2 F2 d = bpow radix2 (E - 24)) as Hulp2.
  { rewrite ulp_neq_0 by assumption. unfold cexp. fold E. f_equal. unfold FLT_exp. lia. }
  pose proof (error_le_half_ulp radix2 F2 (fun x => negb (Z.even x)) d) as Herr. fold y in Herr.
  rewrite Hulp2 in Herr.
  replace (E - 24) with ((E - 1) + (-23)) in Herr by lia. rewrite bpow_plus, bpow2_m23 in Herr.
  apply Rabs_le_inv in Herr.
  (* decimal side *)
  set (M := mag radix10 d : Z).
  pose proof (bpow_mag_le radix10 d Hd0) as HMle. rewrite Rabs_pos_eq in HMle by lra. fold M in HMle.
  pose proof (bpow_mag_gt radix10 d) as HMgt. rewrite Rabs_pos_eq in HMgt by lra. fold M in HMgt.
  assert (ulp radix10 F10 d = bpow radix10 (M - 6)) as Hulp10.
  { rewrite ulp_neq_0 by assumption. unfold cexp. fold M. reflexivity. }
  assert (bpow radix10 M = 1000000 * bpow radix10 (M - 6))%R as HM6.
  { replace M with ((M - 6) + 6) at 1 by lia. rewrite bpow_plus. simpl (bpow radix10 6). ring. }
  assert (bpow radix10 (M - 1) = 1000000 * bpow radix10 (M - 7))%R as HM7.
  { replace (M - 1) with ((M - 7) + 6) at 1 by lia. rewrite bpow_plus. simpl (bpow radix10 6). ring. }
  pose proof (bpow_gt_0 radix10 (M - 6)) as Hb6. pose proof (bpow_gt_0 radix10 (M - 7)) as Hb7.
  pose proof (bpow_gt_0 radix2 (E - 1)) as HbE.
  apply Rle_antisym.
  - apply round_N_le_midp... rewrite succ_eq_pos by lra. rewrite Hulp10. lra.
  - apply round_N_ge_midp... rewrite pred_eq_pos by lra. unfold pred_pos. fold M.
    case Req_bool_spec; intro Hpow.
    + replace (F10 (M - 1)) with (M - 7) by (unfold FLX_exp; lia). lra.
    + rewrite Hulp10. lra.
Qed.

Lemma nearest32_dec_ext : forall D1 X1 D2 X2, 0 < D1 -> 0 < D2 ->
  dec_R D1 X1 = dec_R D2 X2 -> nearest32_dec D1 X1 = nearest32_dec D2 X2.
Proof.
  intros D1 X1 D2 X2 H1 H2 HR. unfold nearest32_dec.
  replace (D1 <=? 0) with false by (symmetry; apply Z.leb_gt; assumption).
  replace (D2 <=? 0) with false by (symmetry; apply Z.leb_gt; assumption).
  pose proof (ratio_of_pos D1 X1 H1) as [P1 Q1]. pose proof (ratio_of_pos D2 X2 H2) as [P2 Q2].
  rewrite <- (ratio_of_R D1 X1), <- (ratio_of_R D2 X2) in HR.
  destruct (ratio_of D1 X1) as [p1 q1]. destruct (ratio_of D2 X2) as [p2 q2]. cbn [fst snd] in *.
  apply (round_ratio_ext 24 128 _ _); try assumption.
  apply eq_IZR. rewrite !mult_IZR.
  assert (IZR q1 <> 0%R) by (apply not_0_IZR; lia). assert (IZR q2 <> 0%R) by (apply not_0_IZR; lia).
  replace (IZR p1) with (IZR p1 / IZR q1 * IZR q1)%R by (field; assumption).
  rewrite HR. field. assumption.
Qed.

(* dec6_survives: a decimal n*10^k of at most six significant digits whose nearest binary32 y is a normal
   number: str y spells n*10^k again (as a value), so the text compiles back to y. Below 2^-126 (subnormal
   results) the statement is false in general and is not claimed. *)
Theorem dec6_survives : forall n k m e,
  0 < n < 1000000 -> (bpow radix2 (-126) <= dec_R n k)%R ->
  nearest32_dec n k = S754_finite false m e ->
  dec_R (fst (dec6_of m e)) (snd (dec6_of m e)) = dec_R n k /\
  nearest32_dec (fst (dec6_of m e)) (snd (dec6_of m e)) = S754_finite false m e.
Proof.
  intros n k m e Hn Hlow Hy.
  set (d := dec_R n k) in *.
  assert (generic_format radix10 F10 d) as Fd.
  { apply generic_format_FLX. apply (FLX_spec radix10 6 d (Float radix10 n k)); [reflexivity|].
    cbn [Fnum]. rewrite Z.abs_eq by lia. change (Zpower radix10 6) with 1000000. lia. }
  destruct (nearest32_dec_spec n k ltac:(lia)) as [Hv Hs]. fold d in Hs. rewrite Hy in Hs, Hv.
  destruct (Rlt_bool (Rabs (round radix2 (SpecFloat.fexp 24 128) ZnearestE d)) (bpow radix2 128)); [|discriminate].
  destruct Hs as (HR & _ & _).
  assert (F2R (Float radix2 (Zpos m) e) = round radix2 F2 ZnearestE d) as Hval.
  { exact HR. }
  destruct (dec6_of_spec m e) as (Hspec & Hq & _).
  rewrite Hval, (survives_R d Fd Hlow) in Hspec.
  assert (dec_R (fst (dec6_of m e)) (snd (dec6_of m e)) = d) as Hsame by exact Hspec.
  split; [exact Hsame|].
  rewrite <- Hy. apply nearest32_dec_ext; try lia. exact Hsame.
Qed.
