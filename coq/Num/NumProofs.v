(* C06, value half: proofs about Num/NumDefs.v (strings, arrays, booleans, lexing of printed numbers). *)
From Coq Require Import ZArith List Bool Lia SpecFloat.
From SqfVerif Require Import Num.NumDefs Num.NumFloat.
Import ListNotations.
Local Open Scope Z_scope.

(* ------------------------------------------------------------------ strings *)

Lemma esc_nil : forall s, esc s = [] -> s = [].
Proof. intros [|c t]; [reflexivity|]. cbn [esc]. destruct (c =? 34); discriminate. Qed.

Lemma unq_cons2 : forall st c d r',
  unq st (c :: d :: r') = if (c =? st) && (d =? st) then c :: unq st r' else c :: unq st (d :: r').
Proof. reflexivity. Qed.

Lemma unq_esc : forall s, unq 34 (esc s ++ [34]) = s.
Proof.
  induction s as [|c t IH]; [reflexivity|].
  cbn [esc]. destruct (c =? 34) eqn:Hc.
  - apply Z.eqb_eq in Hc. subst c. cbn [app]. rewrite unq_cons2, Z.eqb_refl. cbn [andb]. now rewrite IH.
  - cbn [app]. destruct (esc t ++ [34]) as [|d r'] eqn:Hr.
    + now destruct (esc t).
    + rewrite unq_cons2, Hc. cbn [andb]. now rewrite IH.
Qed.

(* from_sqf (to_sqf s) = s for EVERY byte string (NUL included: std::string carries it) *)
Theorem string_roundtrip : forall s, from_sqf (to_sqf s) = Some s.
Proof.
  intro s. unfold from_sqf, to_sqf. rewrite Z.eqb_refl. cbn [orb negb].
  destruct (len (34 :: esc s ++ [34]) =? 2) eqn:Hl.
  - apply Z.eqb_eq in Hl. unfold len in Hl. cbn [length] in Hl. rewrite app_length in Hl. cbn [length] in Hl.
    assert (length (esc s) = 0%nat) as H0 by lia.
    destruct (esc s) eqn:He; [|discriminate]. now rewrite (esc_nil s He).
  - now rewrite unq_esc.
Qed.

Definition not_quote_next (rest : list byte) : Prop := match rest with c :: _ => c <> 34 | [] => True end.

Lemma lex_str_esc : forall s rest, not_quote_next rest ->
  lex_str 34 (esc s ++ 34 :: rest) = (esc s ++ [34], rest).
Proof.
  induction s as [|c t IH]; intros rest Hr.
  - cbn [esc app lex_str]. rewrite Z.eqb_refl. destruct rest as [|d r']; [reflexivity|].
    cbn in Hr. destruct (d =? 34) eqn:Hd; [apply Z.eqb_eq in Hd; contradiction|reflexivity].
  - cbn [esc]. destruct (c =? 34) eqn:Hc.
    + apply Z.eqb_eq in Hc. subst c. cbn [app lex_str]. rewrite Z.eqb_refl. now rewrite IH.
    + cbn [app lex_str]. rewrite Hc. now rewrite IH.
Qed.

Lemma skip_ws_nonws : forall c r, is_ws c = false -> skip_ws (c :: r) = c :: r.
Proof. intros c r H. cbn [skip_ws]. now rewrite H. Qed.

(* the tokenizer reads to_sqf s as exactly one string token, whatever follows (except another quote,
   which the tokenizer would take for a doubled quote) *)
Theorem lex_to_sqf : forall df s rest, not_quote_next rest ->
  next_tok df (to_sqf s ++ rest) = (TStr (to_sqf s), rest).
Proof.
  intros df s rest Hr. unfold to_sqf, next_tok. cbn [app].
  rewrite skip_ws_nonws by reflexivity.
  change (34 =? 91) with false. change (34 =? 93) with false. change (34 =? 44) with false.
  change (34 =? 45) with false. change (34 =? 43) with false. change (34 =? 34) with true. cbn [orb].
  rewrite <- app_assoc. cbn [app]. now rewrite lex_str_esc.
Qed.

(* ------------------------------------------------------------------ digit lists *)

Definition isdig (d : Z) : Prop := 0 <= d <= 9.
Definition dvalz (l : list Z) : Z := fold_left (fun a d => 10 * a + d) l 0.
Definition nondigit_head (rest : list byte) : Prop :=
  match rest with c :: _ => is_digit c = false | [] => True end.

Lemma is_digit_dch : forall d, isdig d -> is_digit (48 + d) = true.
Proof. intros d [H0 H9]. unfold is_digit. apply andb_true_intro. split; apply Z.leb_le; lia. Qed.

Lemma span_dch : forall l rest, Forall isdig l -> nondigit_head rest ->
  span is_digit (dch l ++ rest) = (dch l, rest).
Proof.
  induction l as [|d t IH]; intros rest Hl Hr.
  - cbn [dch map app]. destruct rest as [|c r]; [reflexivity|]. cbn [span]. cbn in Hr. now rewrite Hr.
  - inversion Hl as [|? ? Hd Ht]; subst. unfold dch in *. cbn [map app span].
    rewrite is_digit_dch by assumption. now rewrite IH.
Qed.

Lemma fold_dval_acc : forall l a, fold_left (fun a c => 10 * a + (c - 48)) (dch l) a = fold_left (fun a d => 10 * a + d) l a.
Proof.
  induction l as [|d t IH]; intro a; [reflexivity|]. unfold dch in *. cbn [map fold_left].
  rewrite IH. f_equal. lia.
Qed.
Lemma dval_dch : forall l, dval (dch l) = dvalz l.
Proof. intro l. apply fold_dval_acc. Qed.

Lemma fold_dvalz_acc : forall l a, fold_left (fun a d => 10 * a + d) l a = a * 10 ^ len l + dvalz l.
Proof.
  induction l as [|d t IH]; intro a.
  - unfold len, dvalz. cbn. lia.
  - unfold dvalz. cbn [fold_left]. rewrite IH, (IH (10 * 0 + d)).
    replace (len (d :: t)) with (len t + 1) by (unfold len; cbn [length]; lia).
    rewrite Z.pow_add_r by (unfold len; lia). lia.
Qed.
Lemma dvalz_app : forall a b, dvalz (a ++ b) = dvalz a * 10 ^ len b + dvalz b.
Proof. intros a b. unfold dvalz at 1. rewrite fold_left_app. now rewrite fold_dvalz_acc. Qed.
Lemma dvalz_zeros : forall j, dvalz (repeat 0 j) = 0.
Proof. induction j as [|j IH]; [reflexivity|]. unfold dvalz in *. cbn [repeat fold_left]. exact IH. Qed.
Lemma len_app : forall A (a b : list A), len (a ++ b) = len a + len b.
Proof. intros. unfold len. rewrite app_length. lia. Qed.
Lemma len_repeat : forall A (x : A) j, len (repeat x j) = Z.of_nat j.
Proof. intros. unfold len. now rewrite repeat_length. Qed.
Lemma len_nonneg : forall A (l : list A), 0 <= len l.
Proof. intros. unfold len. lia. Qed.

Lemma digs_isdig : forall k n, Forall isdig (digs k n).
Proof.
  induction k as [|k IH]; intro n; cbn [digs]; constructor; [|apply IH].
  unfold isdig. pose proof (Z.mod_pos_bound (n / 10 ^ Z.of_nat k) 10). lia.
Qed.
Lemma len_digs : forall k n, len (digs k n) = Z.of_nat k.
Proof. induction k as [|k IH]; intro n; unfold len in *; cbn [digs length]; [reflexivity|]. specialize (IH n). lia. Qed.

Lemma dvalz_digs : forall k n, dvalz (digs k n) = n mod 10 ^ Z.of_nat k.
Proof.
  induction k as [|k IH]; intro n.
  - cbn. now rewrite Z.mod_1_r.
  - cbn [digs]. change ((n / 10 ^ Z.of_nat k) mod 10 :: digs k n) with ([(n / 10 ^ Z.of_nat k) mod 10] ++ digs k n).
    rewrite dvalz_app, IH, len_digs. unfold dvalz. cbn [fold_left].
    rewrite Nat2Z.inj_succ, Z.pow_succ_r by lia.
    assert (0 < 10 ^ Z.of_nat k) as Hp by (apply Z.pow_pos_nonneg; lia).
    rewrite (Z.mul_comm 10 (10 ^ Z.of_nat k)), Z.rem_mul_r by lia. lia.
Qed.

Lemma strip0_spec : forall l, exists j, l = strip0 l ++ repeat 0 j.
Proof.
  induction l as [|d t [j IH]].
  - exists 0%nat. reflexivity.
  - cbn [strip0]. destruct (strip0 t) as [|x t'] eqn:Hs.
    + destruct (d =? 0) eqn:Hd.
      * apply Z.eqb_eq in Hd. subst d. exists (S j). cbn [app repeat]. now rewrite IH at 1.
      * exists j. cbn [app]. now rewrite IH at 1.
    + exists j. cbn [app]. now rewrite IH at 1.
Qed.
Lemma strip0_isdig : forall l, Forall isdig l -> Forall isdig (strip0 l).
Proof.
  induction l as [|d t IH]; intro H; [constructor|]. inversion H; subst. cbn [strip0].
  destruct (strip0 t) eqn:Hs.
  - destruct (d =? 0); constructor; auto.
  - constructor; auto.
Qed.
Lemma Forall_firstn : forall A (P : A -> Prop) n l, Forall P l -> Forall P (firstn n l).
Proof. intros A P n l H. rewrite <- (firstn_skipn n l) in H. now apply Forall_app in H. Qed.
Lemma Forall_skipn : forall A (P : A -> Prop) n l, Forall P l -> Forall P (skipn n l).
Proof. intros A P n l H. rewrite <- (firstn_skipn n l) in H. now apply Forall_app in H. Qed.

(* ------------------------------------------------------------------ printed numbers are number tokens *)

(* text of a decimal: integer digits ip (non-empty), fraction digits fp, optional exponent *)
Definition etext (eo : option (bool * list Z)) : list byte :=
  match eo with None => [] | Some (neg, ed) => 101 :: (if neg : bool then 45 else 43) :: dch ed end.
Definition eval_exp (eo : option (bool * list Z)) : Z :=
  match eo with None => 0 | Some (neg, ed) => if neg : bool then - dvalz ed else dvalz ed end.
Definition ntext (ip fp : list Z) (eo : option (bool * list Z)) : list byte := dch ip ++ frac fp ++ etext eo.
Definition exp_ok (eo : option (bool * list Z)) : Prop :=
  match eo with None => True | Some (_, ed) => ed <> [] /\ Forall isdig ed end.
(* what may follow a printed number without changing its token: not a digit, not a point, not e/E *)
Definition numstop (rest : list byte) : Prop :=
  match rest with c :: _ => is_digit c = false /\ (c =? 46) = false /\ is_e c = false | [] => True end.

Lemma numstop_nondigit : forall rest, numstop rest -> nondigit_head rest.
Proof. intros [|c r]; cbn; tauto. Qed.

Lemma dch_cons : forall d t, dch (d :: t) = (48 + d) :: dch t.
Proof. reflexivity. Qed.
Lemma dch_app : forall a b, dch (a ++ b) = dch a ++ dch b.
Proof. intros. unfold dch. apply map_app. Qed.
Lemma isnil_dch : forall l, isnil (dch l) = isnil l.
Proof. now intros [|]. Qed.

Lemma etext_head : forall eo rest, exp_ok eo -> numstop rest -> nondigit_head (etext eo ++ rest).
Proof.
  intros [[neg ed]|] rest He Hr; cbn [etext app].
  - reflexivity.
  - now apply numstop_nondigit.
Qed.
Lemma frac_head : forall fp R, nondigit_head R -> nondigit_head (frac fp ++ R).
Proof. intros [|d t] R H; cbn [frac app]; [assumption|reflexivity]. Qed.

Lemma lex_exp_part : forall eo rest, exp_ok eo -> numstop rest ->
  match etext eo ++ rest with
  | e :: r =>
      if is_e e then
        let '(sg, ra) := match r with
                         | s :: r'' => if is_sign s then ([s], r'') else ([], r)
                         | [] => ([], r)
                         end in
        let '(ds, rb) := span is_digit ra in
        if isnil ds then (if isnil sg then ([], etext eo ++ rest) else ([e], r)) else (e :: sg ++ ds, rb)
      else ([], etext eo ++ rest)
  | [] => ([], etext eo ++ rest)
  end = (etext eo, rest).
Proof.
  intros [[neg ed]|] rest He Hr.
  - destruct He as [Hne Hd]. cbn [etext app]. change (is_e 101) with true. cbn match.
    assert (is_sign (if neg then 45 else 43) = true) as Hs by now destruct neg.
    rewrite Hs. rewrite span_dch by (auto using numstop_nondigit). rewrite isnil_dch.
    destruct ed; [contradiction|]. reflexivity.
  - cbn [etext app]. destruct rest as [|c r]; [reflexivity|]. cbn in Hr. destruct Hr as (_ & _ & He'). now rewrite He'.
Qed.

Theorem lex_num_ntext : forall ip fp eo rest,
  ip <> [] -> Forall isdig ip -> Forall isdig fp -> exp_ok eo -> numstop rest ->
  lex_num (ntext ip fp eo ++ rest) = (ntext ip fp eo, rest).
Proof.
  intros ip fp eo rest Hne Hip Hfp He Hr. unfold ntext.
  destruct ip as [|d0 ip']; [contradiction|].
  inversion Hip as [|? ? Hd0 Hip']; subst.
  assert ((48 + d0 =? 46) = false) as Hnd by (apply Z.eqb_neq; unfold isdig in Hd0; lia).
  unfold lex_num. rewrite <- !app_assoc.
  rewrite dch_cons. cbn [app]. rewrite Hnd. cbn [negb andb].
  change ((48 + d0) :: dch ip' ++ frac fp ++ etext eo ++ rest) with (dch (d0 :: ip') ++ frac fp ++ etext eo ++ rest).
  rewrite span_dch by (auto using frac_head, etext_head).
  rewrite isnil_dch. cbn [isnil andb].
  destruct fp as [|f0 fp'].
  - cbn [frac app].
    assert (match etext eo ++ rest with
            | c :: r => if c =? 46 then let '(ds, r') := span is_digit r in if isnil ds then ([], etext eo ++ rest) else (46 :: ds, r') else ([], etext eo ++ rest)
            | [] => ([], etext eo ++ rest) end = (@nil byte, etext eo ++ rest)) as Hf.
    { destruct eo as [[neg ed]|]; cbn [etext app]; [reflexivity|].
      destruct rest as [|c r]; [reflexivity|]. cbn in Hr. destruct Hr as (_ & Hc & _). now rewrite Hc. }
    rewrite Hf. rewrite lex_exp_part by assumption. now rewrite app_nil_l.
  - cbn [frac app]. change (46 =? 46) with true. cbn match.
    rewrite span_dch by (auto using etext_head). rewrite isnil_dch. cbn [isnil].
    rewrite lex_exp_part by assumption. reflexivity.
Qed.

Theorem dec_of_ntext : forall ip fp eo,
  ip <> [] -> Forall isdig ip -> Forall isdig fp -> exp_ok eo ->
  dec_of (ntext ip fp eo) = (dvalz (ip ++ fp), eval_exp eo - len fp).
Proof.
  intros ip fp eo Hne Hip Hfp He. unfold ntext, dec_of.
  assert (nondigit_head (etext eo)) as He0.
  { rewrite <- (app_nil_r (etext eo)). apply etext_head; [assumption|exact I]. }
  rewrite (span_dch ip (frac fp ++ etext eo) Hip (frac_head fp _ He0)).
  assert (match etext eo with
            | e :: r => if is_e e then
                 match r with
                 | s :: r' => if s =? 45 then - dval (fst (span is_digit r'))
                              else if s =? 43 then dval (fst (span is_digit r')) else dval (fst (span is_digit r))
                 | [] => 0 end else 0
            | [] => 0 end = eval_exp eo) as Hexp.
  { destruct eo as [[neg ed]|]; [|reflexivity]. destruct He as [_ Hd]. cbn [etext eval_exp]. change (is_e 101) with true. cbn match.
    assert (span is_digit (dch ed) = (dch ed, [])) as Hsp.
    { rewrite <- (app_nil_r (dch ed)) at 1. apply span_dch; [assumption|exact I]. }
    destruct neg.
    - change (45 =? 45) with true. cbn match. rewrite Hsp. cbn [fst]. now rewrite dval_dch.
    - change (43 =? 45) with false. change (43 =? 43) with true. cbn match. rewrite Hsp. cbn [fst]. now rewrite dval_dch. }
  destruct fp as [|f0 fp'].
  - cbn [frac app].
    assert (match etext eo with c :: r => if c =? 46 then span is_digit r else ([], etext eo) | [] => ([], etext eo) end = (@nil byte, etext eo)) as Hf.
    { destruct eo as [[neg ed]|]; reflexivity. }
    rewrite Hf, Hexp. rewrite !app_nil_r, dval_dch. reflexivity.
  - cbn [frac app]. change (46 =? 46) with true. cbn match.
    rewrite (span_dch (f0 :: fp') (etext eo) Hfp He0).
    rewrite Hexp. rewrite <- dch_app, dval_dch. unfold len, dch. now rewrite map_length.
Qed.

Lemma dvalz_app_zeros : forall a j, dvalz (a ++ repeat 0 j) = dvalz a * 10 ^ Z.of_nat j.
Proof. intros. rewrite dvalz_app, dvalz_zeros, len_repeat. lia. Qed.

Lemma dvalz_digs6 : forall q, 100000 <= q < 1000000 -> dvalz (digs 6 q) = q.
Proof. intros q Hq. rewrite dvalz_digs. change (10 ^ Z.of_nat 6) with 1000000. apply Z.mod_small. lia. Qed.

Lemma dvalz_digs2 : forall x, 0 <= x < 100 -> dvalz (digs 2 x) = x.
Proof. intros x Hx. rewrite dvalz_digs. change (10 ^ Z.of_nat 2) with 100. apply Z.mod_small. lia. Qed.

(* the decimal (D, Xd) read from a text equals q * 10^ex up to j trailing zeros removed by printf *)
Definition same_dec (D Xd q ex : Z) : Prop := exists j, 0 <= j /\ q = D * 10 ^ j /\ Xd = ex + j.

Theorem print_g_shape : forall q ex,
  100000 <= q < 1000000 -> -100 < ex + 5 < 100 ->
  exists ip fp eo,
    print_g q ex = ntext ip fp eo /\ ip <> [] /\ Forall isdig ip /\ Forall isdig fp /\ exp_ok eo /\
    same_dec (dvalz (ip ++ fp)) (eval_exp eo - len fp) q ex.
Proof.
  intros q ex Hq HX. unfold print_g. set (X := ex + 5) in *.
  pose proof (digs_isdig 6 q) as Hds. pose proof (dvalz_digs6 q Hq) as Hv. pose proof (len_digs 6 q) as Hl.
  set (ds := digs 6 q) in *.
  destruct ((X <? -4) || (6 <=? X)) eqn:Hstyle.
  - (* exponent style *)
    assert (ds = (q / 10 ^ Z.of_nat 5) mod 10 :: digs 5 q) as Hds6 by reflexivity.
    set (d0 := (q / 10 ^ Z.of_nat 5) mod 10) in *.
    destruct (strip0_spec (digs 5 q)) as [j Hj].
    exists [d0], (strip0 (digs 5 q)), (Some (X <? 0, digs 2 (Z.abs X))).
    assert (Forall isdig (d0 :: digs 5 q)) as Hds' by (rewrite <- Hds6; exact Hds).
    pose proof (Forall_inv Hds') as Hd0. pose proof (Forall_inv_tail Hds') as Hd5.
    rewrite Hds6. cbn [firstn skipn].
    repeat split.
    + discriminate.
    + now constructor.
    + now apply strip0_isdig.
    + discriminate.
    + apply digs_isdig.
    + exists (Z.of_nat j). split; [lia|]. split.
      * rewrite <- dvalz_app_zeros, <- app_assoc, <- Hj. change ([d0] ++ digs 5 q) with ds. now rewrite Hv.
      * assert (len (digs 5 q) = 5) as H5 by (now rewrite len_digs).
        rewrite Hj, len_app, len_repeat in H5.
        cbn [eval_exp]. rewrite dvalz_digs2 by lia.
        destruct (X <? 0) eqn:Hneg; [apply Z.ltb_lt in Hneg|apply Z.ltb_ge in Hneg]; lia.
  - apply orb_false_elim in Hstyle. destruct Hstyle as [H1 H2]. apply Z.ltb_ge in H1. apply Z.leb_gt in H2.
    destruct (0 <=? X) eqn:Hpos; [apply Z.leb_le in Hpos|apply Z.leb_gt in Hpos].
    + (* fixed style, X >= 0 *)
      set (n := Z.to_nat (X + 1)).
      destruct (strip0_spec (skipn n ds)) as [j Hj].
      exists (firstn n ds), (strip0 (skipn n ds)), None.
      assert (len (firstn n ds) = X + 1) as Hlf.
      { unfold len. rewrite firstn_length. unfold len in Hl. unfold n. lia. }
      repeat split.
      * unfold ntext. cbn [etext]. now rewrite app_nil_r.
      * intro Hnil. rewrite Hnil in Hlf. unfold len in Hlf. cbn in Hlf. lia.
      * now apply Forall_firstn.
      * apply strip0_isdig. now apply Forall_skipn.
      * exists (Z.of_nat j). split; [lia|]. split.
        -- rewrite <- dvalz_app_zeros, <- app_assoc, <- Hj, firstn_skipn. now rewrite Hv.
        -- assert (len ds = len (firstn n ds) + len (skipn n ds)) as Hsum by (now rewrite <- len_app, firstn_skipn).
           rewrite Hj, len_app, len_repeat in Hsum. cbn [eval_exp]. lia.
    + (* fixed style, -4 <= X < 0 *)
      set (z := Z.to_nat (- X - 1)).
      destruct (strip0_spec (repeat 0 z ++ ds)) as [j Hj].
      exists [0], (strip0 (repeat 0 z ++ ds)), None.
      repeat split.
      * unfold ntext. cbn [etext]. now rewrite app_nil_r.
      * discriminate.
      * constructor; [unfold isdig; lia|constructor].
      * apply strip0_isdig. apply Forall_app. split; [|assumption].
        clear. induction z; cbn [repeat]; constructor; [unfold isdig; lia|assumption].
      * exists (Z.of_nat j). split; [lia|]. split.
        -- rewrite <- dvalz_app_zeros, <- app_assoc, <- Hj.
           change ([0] ++ repeat 0 z ++ ds) with (repeat 0 (S z) ++ ds).
           rewrite dvalz_app, dvalz_zeros. lia.
        -- assert (len (repeat 0 z ++ ds) = Z.of_nat z + 6) as Hsum by (now rewrite len_app, len_repeat, Hl).
           rewrite Hj, len_app, len_repeat in Hsum. cbn [eval_exp]. assert (Z.of_nat z = - X - 1) as Hz by (unfold z; lia). lia.
Qed.

(* ------------------------------------------------------------------ tokens in front of a separator *)

(* what follows a printed value inside `str` output: nothing, a comma or a closing bracket *)
Definition vstop (rest : list byte) : Prop := match rest with [] => True | c :: _ => c = 44 \/ c = 93 end.

Lemma vstop_numstop : forall rest, vstop rest -> numstop rest.
Proof. intros [|c r] H; [exact I|]. cbn in *. destruct H; subst c; repeat split. Qed.
Lemma vstop_not_quote : forall rest, vstop rest -> not_quote_next rest.
Proof. intros [|c r] H; [exact I|]. cbn in *. destruct H; subst c; discriminate. Qed.

Lemma next_tok_comma : forall df r, next_tok df (44 :: r) = (TComma, r). Proof. reflexivity. Qed.
Lemma next_tok_rbr : forall df r, next_tok df (93 :: r) = (TRBr, r). Proof. reflexivity. Qed.
Lemma next_tok_lbr : forall df r, next_tok df (91 :: r) = (TLBr, r). Proof. reflexivity. Qed.
Lemma next_tok_minus : forall df r, next_tok df (45 :: r) = (TMinus, r). Proof. reflexivity. Qed.
Lemma next_tok_nil : forall df, next_tok df [] = (TEof, []). Proof. reflexivity. Qed.

Lemma next_tok_true : forall df rest, vstop rest -> next_tok df (kw_true ++ rest) = (TTrue, rest).
Proof.
  intros df rest H. unfold kw_true, next_tok. cbn [app skip_ws is_ws]. cbn -[kw_match].
  cbn [kw_match tolower]. cbn. destruct rest as [|c r]; [reflexivity|]. cbn in H.
  destruct H; subst c; destruct (d_kw_prefix df); reflexivity.
Qed.
Lemma next_tok_false : forall df rest, vstop rest -> next_tok df (kw_false ++ rest) = (TFalse, rest).
Proof.
  intros df rest H. unfold kw_false, next_tok. cbn [app skip_ws is_ws]. cbn -[kw_match].
  cbn [kw_match tolower]. cbn. destruct rest as [|c r]; [reflexivity|]. cbn in H.
  destruct H; subst c; destruct (d_kw_prefix df); reflexivity.
Qed.

Lemma digit_range : forall c, is_digit c = true -> 48 <= c <= 57.
Proof. intros c H. unfold is_digit in H. apply andb_prop in H. destruct H as [H1 H2]. apply Z.leb_le in H1, H2. lia. Qed.

Lemma next_tok_num : forall df c t' rest,
  is_digit c = true -> vstop rest ->
  (c = 48 -> match t' ++ rest with x :: _ => x <> 120 | [] => True end) ->
  lex_num ((c :: t') ++ rest) = (c :: t', rest) ->
  next_tok df ((c :: t') ++ rest) = (TNum (c :: t'), rest).
Proof.
  intros df c t' rest Hc Hr Hx Hlex. pose proof (digit_range c Hc) as Hrg.
  unfold next_tok. cbn [app] in *.
  assert (is_ws c = false) as Hws.
  { unfold is_ws. repeat (apply orb_false_intro); apply Z.eqb_neq; lia. }
  rewrite skip_ws_nonws by assumption.
  repeat match goal with |- context [c =? ?k] =>
    lazymatch k with 48 => fail | _ => replace (c =? k) with false by (symmetry; apply Z.eqb_neq; lia) end end.
  cbn [orb].
  destruct (c =? 48) eqn:H48.
  - apply Z.eqb_eq in H48. specialize (Hx H48). subst c. unfold lex_hex. change (48 =? 36) with false. cbn match.
    destruct (t' ++ rest) as [|x r] eqn:Ht.
    + cbn [isnil]. rewrite Hlex. reflexivity.
    + replace (x =? 120) with false by (symmetry; apply Z.eqb_neq; assumption). cbn [isnil]. rewrite Hlex. reflexivity.
  - rewrite Hc. cbn [orb]. rewrite Hlex. reflexivity.
Qed.

(* ------------------------------------------------------------------ printed numbers read back *)

(* DESIGN.md Appendix B: a number is printable when it is finite and the nearest binary32 of its
   six-digit decimal (what %g prints) is the number itself *)
Definition printable_num (x : spec_float) : Prop :=
  match x with
  | S754_zero _ => True
  | S754_finite s m e => nearest32_dec (fst (dec6_of m e)) (snd (dec6_of m e)) = S754_finite false m e
  | _ => False
  end.

Lemma second_char_ok : forall ip' fp eo rest, Forall isdig ip' -> vstop rest ->
  match dch ip' ++ frac fp ++ etext eo ++ rest with x :: _ => x <> 120 | [] => True end.
Proof.
  intros ip' fp eo rest Hip Hr.
  destruct ip' as [|d t].
  - cbn [dch map app]. destruct fp as [|f t]; cbn [frac app]; [|discriminate].
    destruct eo as [[neg ed]|]; cbn [etext app]; [discriminate|].
    destruct rest as [|c r]; [exact I|]. cbn in Hr. destruct Hr; subst c; discriminate.
  - inversion Hip as [|? ? Hd _]; subst. rewrite dch_cons. cbn [app]. unfold isdig in Hd. lia.
Qed.

Theorem read_printed_pos : forall df q ex rest y,
  100000 <= q < 1000000 -> -100 < ex + 5 < 100 -> vstop rest ->
  nearest32_dec q ex = y -> (match y with S754_infinity _ => False | _ => True end) ->
  next_tok df (print_g q ex ++ rest) = (TNum (print_g q ex), rest) /\
  lit_num repaired (print_g q ex) = (y, false).
Proof.
  intros df q ex rest y Hq HX Hr Hy Hfin.
  destruct (print_g_shape q ex Hq HX) as (ip & fp & eo & Hshape & Hne & Hip & Hfp & He & (j & Hj & Hqj & HXd)).
  rewrite Hshape. split.
  - pose proof (lex_num_ntext ip fp eo rest Hne Hip Hfp He (vstop_numstop _ Hr)) as Hlex.
    destruct ip as [|d0 ip']; [contradiction|]. inversion Hip as [|? ? Hd0 Hip']; subst.
    unfold ntext in *. rewrite dch_cons in *. cbn [app] in *.
    apply (next_tok_num df (48 + d0) (dch ip' ++ frac fp ++ etext eo) rest).
    + now apply is_digit_dch.
    + assumption.
    + intros _. rewrite <- !app_assoc. now apply second_char_ok.
    + exact Hlex.
  - unfold lit_num. rewrite (dec_of_ntext ip fp eo Hne Hip Hfp He).
    set (D := dvalz (ip ++ fp)) in *. set (Xd := eval_exp eo - len fp) in *.
    assert (0 < D) as HD.
    { assert (0 < 10 ^ j) by (apply Z.pow_pos_nonneg; lia). nia. }
    unfold lit_of_dec. cbn [d_stod_cast repaired].
    rewrite HXd, <- (nearest32_dec_shift D ex j HD Hj), <- Hqj, Hy.
    destruct y; try reflexivity. contradiction.
Qed.

Lemma read_zero : forall df rest, vstop rest ->
  next_tok df ([48] ++ rest) = (TNum [48], rest) /\ lit_num repaired [48] = (S754_zero false, false).
Proof.
  intros df rest Hr. split; [|reflexivity].
  apply (next_tok_num df 48 [] rest); [reflexivity|assumption| |].
  - intros _. cbn [app]. destruct rest as [|c r]; [exact I|]. cbn in Hr. destruct Hr; subst c; discriminate.
  - apply (lex_num_ntext [0] [] None rest); try (now constructor); try discriminate.
    now apply vstop_numstop.
Qed.

(* ------------------------------------------------------------------ values *)

Section value_ind.
  Variable P : value -> Prop.
  Hypothesis Hb : forall b, P (VBool b).
  Hypothesis Hs : forall s, P (VStr s).
  Hypothesis Hn : forall x, P (VNum x).
  Hypothesis Ha : forall l, Forall P l -> P (VArr l).
  Fixpoint value_ind' (v : value) : P v :=
    match v with
    | VBool b => Hb b | VStr s => Hs s | VNum x => Hn x
    | VArr l => Ha l ((fix go (l : list value) : Forall P l :=
                         match l with [] => Forall_nil P | a :: t => Forall_cons a (value_ind' a) (go t) end) l)
    end.
End value_ind.

Fixpoint printable (v : value) : Prop :=
  match v with
  | VNum x => printable_num x
  | VArr l => (fix all (l : list value) : Prop := match l with [] => True | a :: t => printable a /\ all t end) l
  | _ => True
  end.
Lemma printable_arr : forall l, printable (VArr l) <-> Forall printable l.
Proof.
  induction l as [|a t IH].
  - split; intro; [constructor|exact I].
  - change (printable (VArr (a :: t))) with (printable a /\ printable (VArr t)). split.
    + intros [Ha Ht]. constructor; [assumption|]. now apply IH.
    + intro H. inversion H as [|? ? Ha Ht]; subst. split; [assumption|]. now apply IH.
Qed.

(* fuel that read_value needs for str_value v *)
Fixpoint vfuel (v : value) : nat :=
  match v with
  | VArr l => S ((fix ef (l : list value) : nat := match l with [] => O | a :: t => S (vfuel a + ef t) end) l)
  | _ => 1%nat
  end.
Definition efuel (l : list value) : nat :=
  (fix ef (l : list value) : nat := match l with [] => O | a :: t => S (vfuel a + ef t) end) l.
Lemma vfuel_arr : forall l, vfuel (VArr l) = S (efuel l). Proof. reflexivity. Qed.
Lemma efuel_cons : forall a t, efuel (a :: t) = S (vfuel a + efuel t). Proof. reflexivity. Qed.

Fixpoint join (l : list (list byte)) : list byte :=
  match l with [] => [] | a :: t => match t with [] => a | _ => a ++ 44 :: join t end end.

Lemma concat_join : forall l, l <> [] -> concat (map (fun t => t ++ [44]) l) = join l ++ [44].
Proof.
  induction l as [|a t IH]; intro H; [contradiction|]. cbn [map concat].
  destruct t as [|b t'].
  - cbn. now rewrite app_nil_r.
  - rewrite IH by discriminate. cbn [join]. rewrite <- !app_assoc. reflexivity.
Qed.

(* the stringstream trick of d_array::to_string_sqf yields the comma-separated list in brackets *)
Theorem arr_text_join : forall l, arr_text l = 91 :: join l ++ [93].
Proof.
  intros [|a t]; [reflexivity|]. unfold arr_text.
  rewrite concat_join by discriminate.
  change (91 :: join (a :: t) ++ [44]) with ((91 :: join (a :: t)) ++ [44]).
  now rewrite removelast_last.
Qed.

Lemma read_value_S : forall df f l, read_value df (S f) l =
  match next_tok df l with
  | (TTrue, r) => Ok (VBool true, r)
  | (TFalse, r) => Ok (VBool false, r)
  | (TStr t, r) => match from_sqf t with Some s => Ok (VStr s, r) | None => Fail end
  | (TNum t, r) => Ok (VNum (fst (lit_num df t)), r)
  | (THex t, r) => Ok (VNum (fst (lit_hex t)), r)
  | (TMinus, r) =>
      match next_tok df r with
      | (TNum t, r') => Ok (VNum (SFopp (fst (lit_num df t))), r')
      | (THex t, r') => Ok (VNum (SFopp (fst (lit_hex t))), r')
      | _ => Fail
      end
  | (TLBr, r) => match next_tok df r with (TRBr, r') => Ok (VArr [], r') | _ => read_elems df f r [] end
  | _ => Fail
  end.
Proof. reflexivity. Qed.
Lemma read_elems_S : forall df f l acc, read_elems df (S f) l acc =
  match read_value df f l with
  | Ok (v, r) =>
      match next_tok df r with
      | (TComma, r') => read_elems df f r' (v :: acc)
      | (TRBr, r') => Ok (VArr (rev (v :: acc)), r')
      | _ => Fail
      end
  | Fail => Fail
  | OutOfFuel => OutOfFuel
  end.
Proof. reflexivity. Qed.

Definition reads_back (v : value) : Prop :=
  forall fuel rest, (vfuel v <= fuel)%nat -> vstop rest ->
  read_value repaired fuel (str_value v ++ rest) = Ok (v, rest).

Lemma sgn_app : forall s t rest, (sgn s ++ t) ++ rest = sgn s ++ t ++ rest.
Proof. intros. now rewrite app_assoc. Qed.

Lemma reads_back_num : forall x, printable_num x -> reads_back (VNum x).
Proof.
  intros x Hp fuel rest Hf Hr. destruct fuel as [|f]; [cbn in Hf; lia|]. rewrite read_value_S.
  destruct x as [s|s| |s m e]; try contradiction.
  - (* zero *)
    cbn [str_value fmt_g6]. destruct (read_zero repaired rest Hr) as [Ht Hl]. destruct s; cbn [sgn].
    + change (([45] ++ [48]) ++ rest) with (45 :: [48] ++ rest). rewrite next_tok_minus, Ht, Hl. reflexivity.
    + cbn [app] in *. rewrite Ht, Hl. reflexivity.
  - cbn [printable_num] in Hp. pose proof Hp as Hy. destruct (printable_range m e Hp) as (Hq & HX).
    cbn [str_value fmt_g6]. rewrite (surjective_pairing (dec6_of m e)).
    destruct (read_printed_pos repaired _ _ rest _ Hq HX Hr Hy I) as [Ht Hl].
    set (q := fst (dec6_of m e)) in *. set (ex := snd (dec6_of m e)) in *.
    destruct s; cbn [sgn].
    + change (([45] ++ print_g q ex) ++ rest) with (45 :: print_g q ex ++ rest).
      rewrite next_tok_minus, Ht, Hl. reflexivity.
    + cbn [app]. rewrite Ht, Hl. reflexivity.
Qed.

Lemma first_tok_not_rbr : forall v rest, printable v -> vstop rest ->
  forall r', next_tok repaired (str_value v ++ rest) <> (TRBr, r').
Proof.
  intros v rest Hp Hr r'. destruct v as [b|s|x|l].
  - destruct b; cbn [str_value]; [rewrite next_tok_true|rewrite next_tok_false]; auto; discriminate.
  - cbn [str_value]. rewrite lex_to_sqf by now apply vstop_not_quote. discriminate.
  - cbn [printable] in Hp. destruct x as [s|s| |s m e]; try contradiction.
    + cbn [str_value fmt_g6]. destruct (read_zero repaired rest Hr) as [Ht _]. destruct s; cbn [sgn].
      * change (([45] ++ [48]) ++ rest) with (45 :: [48] ++ rest). rewrite next_tok_minus. discriminate.
      * cbn [app] in *. rewrite Ht. discriminate.
    + cbn [printable_num] in Hp. pose proof Hp as Hy. destruct (printable_range m e Hp) as (Hq & HX).
      cbn [str_value fmt_g6]. rewrite (surjective_pairing (dec6_of m e)).
      destruct (read_printed_pos repaired _ _ rest _ Hq HX Hr Hy I) as [Ht _].
      destruct s; cbn [sgn].
      * change (([45] ++ print_g (fst (dec6_of m e)) (snd (dec6_of m e))) ++ rest) with (45 :: print_g (fst (dec6_of m e)) (snd (dec6_of m e)) ++ rest).
        rewrite next_tok_minus. discriminate.
      * cbn [app]. rewrite Ht. discriminate.
  - cbn [str_value]. rewrite arr_text_join. cbn [app]. rewrite next_tok_lbr. discriminate.
Qed.

Lemma read_elems_join : forall l, l <> [] ->
  Forall (fun v => printable v /\ reads_back v) l ->
  forall fuel acc rest, (efuel l <= fuel)%nat ->
  read_elems repaired fuel (join (map str_value l) ++ 93 :: rest) acc = Ok (VArr (rev acc ++ l), rest).
Proof.
  induction l as [|v t IH]; intros Hne Hall fuel acc rest Hf; [contradiction|].
  inversion Hall as [|? ? [Hpv Hv] Ht]; subst.
  rewrite efuel_cons in Hf. destruct fuel as [|f]; [lia|]. rewrite read_elems_S.
  destruct t as [|w t'].
  - cbn [map join]. rewrite (Hv f (93 :: rest)) by (try lia; cbn; auto).
    rewrite next_tok_rbr. cbn [rev]. reflexivity.
  - change (join (map str_value (v :: w :: t'))) with (str_value v ++ 44 :: join (map str_value (w :: t'))).
    rewrite <- app_assoc. cbn [app].
    rewrite (Hv f (44 :: join (map str_value (w :: t')) ++ 93 :: rest)) by (try lia; cbn; auto).
    rewrite next_tok_comma. rewrite IH; try discriminate; try assumption; [|lia].
    cbn [rev]. now rewrite <- app_assoc.
Qed.

(* str of a printable value compiles and evaluates to that very value, for values of any size and depth *)
Theorem read_str_value : forall v, printable v -> reads_back v.
Proof.
  induction v as [b|s|x|l IHl] using value_ind'; intro Hp.
  - intros fuel rest Hf Hr. destruct fuel as [|f]; [cbn in Hf; lia|]. rewrite read_value_S.
    destruct b; cbn [str_value]; [rewrite next_tok_true|rewrite next_tok_false]; auto.
  - intros fuel rest Hf Hr. destruct fuel as [|f]; [cbn in Hf; lia|]. rewrite read_value_S.
    cbn [str_value]. rewrite lex_to_sqf by now apply vstop_not_quote. now rewrite string_roundtrip.
  - now apply reads_back_num.
  - intros fuel rest Hf Hr. rewrite vfuel_arr in Hf. destruct fuel as [|f]; [lia|]. rewrite read_value_S.
    cbn [str_value]. rewrite arr_text_join. cbn [app]. rewrite next_tok_lbr.
    apply printable_arr in Hp.
    destruct l as [|v t].
    + cbn [map join app]. rewrite next_tok_rbr. reflexivity.
    + assert (Forall (fun v => printable v /\ reads_back v) (v :: t)) as Hall.
      { clear -IHl Hp. induction (v :: t) as [|a l' IH]; [constructor|].
        inversion IHl; inversion Hp; subst. constructor; auto. }
      rewrite <- app_assoc. cbn [app].
      pose proof (read_elems_join (v :: t) ltac:(discriminate) Hall f [] rest ltac:(lia)) as HE.
      destruct (next_tok repaired (join (map str_value (v :: t)) ++ 93 :: rest)) as [tk r'] eqn:Htk.
      destruct tk; try exact HE.
      exfalso.
      (* the first token of a printed element is never the closing bracket *)
      inversion Hp as [|? ? Hpv _]; subst.
      destruct t as [|w t'].
      * cbn [map join] in Htk. exact (first_tok_not_rbr v (93 :: rest) Hpv (or_intror eq_refl) r' Htk).
      * change (join (map str_value (v :: w :: t'))) with (str_value v ++ 44 :: join (map str_value (w :: t'))) in Htk.
        rewrite <- app_assoc in Htk. cbn [app] in Htk.
        exact (first_tok_not_rbr v (44 :: join (map str_value (w :: t')) ++ 93 :: rest) Hpv (or_introl eq_refl) r' Htk).
Qed.

(* ------------------------------------------------------------------ fuel of read_all suffices; equality *)

Lemma str_leaf_nonempty : forall v, printable v -> str_value v <> [].
Proof.
  intros [b|s|x|l] Hp.
  - destruct b; discriminate.
  - discriminate.
  - cbn [printable] in Hp. destruct x as [s|s| |s m e]; try contradiction.
    + destruct s; discriminate.
    + cbn [printable_num] in Hp. destruct (printable_range m e Hp) as (Hq & HX).
      cbn [str_value fmt_g6]. rewrite (surjective_pairing (dec6_of m e)).
      destruct (print_g_shape _ _ Hq HX) as (ip & fp & eo & Hshape & Hne & _).
      rewrite Hshape. unfold ntext. destruct ip as [|d t]; [contradiction|]. destruct s; discriminate.
  - cbn [str_value]. rewrite arr_text_join. discriminate.
Qed.

Lemma length_join_ge : forall (a : list byte) t, (length a <= length (join (a :: t)))%nat.
Proof. intros a [|b t]; cbn [join]; [lia|]. rewrite app_length. lia. Qed.
Lemma length_join_cons : forall (a b : list byte) t,
  length (join (a :: b :: t)) = (length a + 1 + length (join (b :: t)))%nat.
Proof. intros. cbn [join]. rewrite app_length. cbn [length]. lia. Qed.

Lemma vfuel_bound : forall v, printable v -> (vfuel v < 2 * length (str_value v))%nat.
Proof.
  induction v as [b|s|x|l IHl] using value_ind'; intro Hp;
    try (pose proof (str_leaf_nonempty _ Hp) as Hne; destruct (str_value _) eqn:E; [contradiction|];
         cbn [vfuel length]; lia).
  apply printable_arr in Hp. rewrite vfuel_arr. cbn [str_value]. rewrite arr_text_join. cbn [length].
  rewrite app_length. cbn [length].
  assert (efuel l <= 2 * length (join (map str_value l)))%nat as HE.
  { clear -IHl Hp. induction l as [|v t IH]; [cbn; lia|].
    inversion IHl as [|? ? Hv Ht]; inversion Hp as [|? ? Hpv Hpt]; subst.
    specialize (IH Ht Hpt). specialize (Hv Hpv). rewrite efuel_cons.
    destruct t as [|w t'].
    - cbn [map join efuel] in *. lia.
    - cbn [map]. rewrite length_join_cons. cbn [map] in IH. lia. }
  lia.
Qed.

Theorem read_all_str_value : forall v, printable v -> read_all repaired (str_value v) = Ok v.
Proof.
  intros v Hp. unfold read_all.
  pose proof (read_str_value v Hp (2 * length (str_value v) + 2)%nat [] ltac:(pose proof (vfuel_bound v Hp); lia) I) as H.
  rewrite app_nil_r in H. rewrite H. reflexivity.
Qed.

Lemma bytes_eqb_refl : forall l, bytes_eqb l l = true.
Proof. induction l as [|c t IH]; [reflexivity|]. cbn [bytes_eqb]. now rewrite Z.eqb_refl, IH. Qed.

Lemma pos_compare_cont_refl : forall m, Pos.compare_cont Eq m m = Eq.
Proof. intro m. change (Pos.compare_cont Eq m m) with (Pos.compare m m). apply Pos.compare_refl. Qed.

Lemma feq_refl : forall x, printable_num x -> feq x x = true.
Proof.
  intros [s|s| |s m e] H; try contradiction; [reflexivity|].
  unfold feq, SFcompare. rewrite Z.compare_refl, pos_compare_cont_refl. now destruct s.
Qed.

(* isEqualTo is reflexive on printable values (no NaN inside) *)
Theorem veq_refl : forall v, printable v -> veq v v = true.
Proof.
  induction v as [b|s|x|l IHl] using value_ind'; intro Hp.
  - cbn. now destruct b.
  - cbn. apply bytes_eqb_refl.
  - cbn. now apply feq_refl.
  - apply printable_arr in Hp. cbn [veq].
    induction l as [|a t IH]; [reflexivity|].
    inversion IHl; inversion Hp; subst. apply andb_true_intro. split; auto.
Qed.

(* (call compile str v) isEqualTo v, in the model with the literal rule repaired *)
Theorem value_roundtrip : forall v, printable v ->
  exists v', read_all repaired (str_value v) = Ok v' /\ veq v' v = true /\ v' = v.
Proof. intros v Hp. exists v. repeat split; [now apply read_all_str_value|now apply veq_refl]. Qed.

Theorem bool_roundtrip : forall b, read_all repaired (str_value (VBool b)) = Ok (VBool b).
Proof. intro b. now apply read_all_str_value. Qed.

Theorem string_value_roundtrip : forall s, read_all repaired (str_value (VStr s)) = Ok (VStr s).
Proof. intro s. now apply read_all_str_value. Qed.

(* nested arrays: if every element reads back then so does the array (any length, any depth) *)
Theorem array_roundtrip : forall l, Forall printable l ->
  read_all repaired (str_value (VArr l)) = Ok (VArr l).
Proof. intros l H. apply read_all_str_value. now apply printable_arr. Qed.

(* ------------------------------------------------------------------ g6_relex *)

Lemma tok_printed : forall df q ex rest,
  100000 <= q < 1000000 -> -100 < ex + 5 < 100 -> vstop rest ->
  next_tok df (print_g q ex ++ rest) = (TNum (print_g q ex), rest).
Proof.
  intros df q ex rest Hq HX Hr.
  destruct (print_g_shape q ex Hq HX) as (ip & fp & eo & Hshape & Hne & Hip & Hfp & He & _).
  rewrite Hshape.
  pose proof (lex_num_ntext ip fp eo rest Hne Hip Hfp He (vstop_numstop _ Hr)) as Hlex.
  destruct ip as [|d0 ip']; [contradiction|]. inversion Hip as [|? ? Hd0 Hip']; subst.
  unfold ntext in *. rewrite dch_cons in *. cbn [app] in *.
  apply (next_tok_num df (48 + d0) (dch ip' ++ frac fp ++ etext eo) rest).
  - now apply is_digit_dch.
  - assumption.
  - intros _. rewrite <- !app_assoc. now apply second_char_ok.
  - exact Hlex.
Qed.

Lemma dec_printed : forall q ex,
  100000 <= q < 1000000 -> -100 < ex + 5 < 100 ->
  same_dec (fst (dec_of (print_g q ex))) (snd (dec_of (print_g q ex))) q ex.
Proof.
  intros q ex Hq HX.
  destruct (print_g_shape q ex Hq HX) as (ip & fp & eo & Hshape & Hne & Hip & Hfp & He & Hsame).
  rewrite Hshape, (dec_of_ntext ip fp eo Hne Hip Hfp He). exact Hsame.
Qed.

Lemma same_dec_R : forall D Xd q ex, same_dec D Xd q ex -> dec_R D Xd = dec_R q ex.
Proof.
  intros D Xd q ex (j & Hj & Hq & HX). subst q Xd. unfold dec_R.
  rewrite (Flocq.Core.Float_prop.F2R_change_exp radix10 ex D (ex + j)) by lia.
  replace (ex + j - ex) with j by lia. reflexivity.
Qed.

(* g6_relex: what d_scalar::to_string_sqf prints for a finite non-zero binary32 (after the sign) is ONE number
   token for the tokenizer, and the decimal that token spells is round6 x: the six-significant-digit decimal
   nearest to |x| (ties to even) *)
Theorem g6_relex : forall df s m e rest,
  valid_binary 24 128 (S754_finite s m e) = true -> vstop rest ->
  let q := fst (round6 (S754_finite s m e)) in let ex := snd (round6 (S754_finite s m e)) in
  fmt_g6 (S754_finite s m e) = sgn s ++ print_g q ex /\
  next_tok df (print_g q ex ++ rest) = (TNum (print_g q ex), rest) /\
  dec_R (fst (dec_of (print_g q ex))) (snd (dec_of (print_g q ex))) = dec_R q ex /\
  dec_R q ex = Flocq.Core.Generic_fmt.round radix10 (Flocq.Core.FLX.FLX_exp 6) Flocq.Core.Round_NE.ZnearestE
                 (Flocq.Core.Defs.F2R (Flocq.Core.Defs.Float Flocq.Core.Zaux.radix2 (Zpos m) e)).
Proof.
  intros df s m e rest Hv Hr. cbn [round6].
  destruct (valid_binary32_bounds s m e Hv) as [Hm He].
  destruct (dec6_of_range m e Hm He) as [Hq HX].
  destruct (dec6_of_spec m e) as (Hspec & _ & _).
  repeat split.
  - cbn [fmt_g6]. now rewrite (surjective_pairing (dec6_of m e)).
  - now apply tok_printed.
  - apply same_dec_R. now apply dec_printed.
  - exact Hspec.
Qed.
