(* C06, value half: executable model of how SQFvm prints booleans, strings, numbers and
   nested arrays (`str`) and how the SQF tokenizer/parser turn such text back into values.
   Definitions only (no proofs), so the file still extracts when a proof breaks.

   Sources mirrored (paths below /repo/src):
     runtime/d_string.h:50-91      to_string_sqf / from_sqf
     runtime/d_scalar.cpp:6-26     to_string_sqf  (snprintf "%g", s_decimals = -1)
     runtime/d_boolean.h:33-36     "true" / "false"
     runtime/d_array.h:112-126     "[" elem "," ... then seekp(-1) and "]"
     parser/sqf/tokenizer.hpp      next() dispatch 445-519; string tokens 264-339; hex 346-371;
                                   number 372-398; true/false 106-119, 227-228
     parser/sqf/sqf_parser.cpp     EXPU folding of +/- on NUMBER 67-88; HEXNUMBER 98-120;
                                   NUMBER 121-137; STRING 138-144; ARRAY 180-190
   Floats are Coq's SpecFloat.spec_float; rounding is Flocq's verified binary_round_aux on the
   exact quotient bracket computed by Flocq's Fdiv (both evaluate in Z). *)
From Coq Require Import ZArith List Bool SpecFloat.
From Flocq Require Import Core Bracket Div Round BinarySingleNaN.
Import ListNotations.
Local Open Scope Z_scope.

Notation byte := Z (only parsing).

Definition len {A} (l : list A) : Z := Z.of_nat (length l).

(* ------------------------------------------------------------------ strings *)

(* d_string::to_string_sqf (d_string.h:50-68): opening quote (34), every char, a quote char once more, closing quote *)
Fixpoint esc (s : list byte) : list byte :=
  match s with
  | [] => []
  | c :: t => if c =? 34 then 34 :: 34 :: esc t else c :: esc t
  end.
Definition to_sqf (s : list byte) : list byte := 34 :: esc s ++ [34].

(* the loop of d_string::from_sqf (d_string.h:80-88) over sview[i..len-1]; it runs while i < len-1,
   so it needs two remaining chars, and reads sview[i+1] *)
Fixpoint unq (start : byte) (l : list byte) : list byte :=
  match l with
  | c :: ((d :: r') as r) =>
      if (c =? start) && (d =? start) then c :: unq start r' else c :: unq start r
  | _ => []
  end.
(* d_string::from_sqf. sview[0] is read before the length test (d_string.h:74-75): on an empty
   view that read is out of bounds, the model says None for it. *)
Definition from_sqf (tok : list byte) : option (list byte) :=
  match tok with
  | [] => None
  | start :: body =>
      if negb ((start =? 34) || (start =? 39)) then Some []
      else if len tok =? 2 then Some []
      else Some (unq start body)
  end.

(* tokenizer.hpp:264-339, after the opening quote q: returns (consumed, rest). Reaching the end of
   the input ends the token too (unterminated string). *)
Fixpoint lex_str (q : byte) (l : list byte) : list byte * list byte :=
  match l with
  | [] => ([], [])
  | c :: r =>
      if c =? q then
        match r with
        | d :: r' => if d =? q then let '(a, b) := lex_str q r' in (c :: d :: a, b) else ([c], r)
        | [] => ([c], [])
        end
      else let '(a, b) := lex_str q r in (c :: a, b)
  end.

(* ------------------------------------------------------------------ number tokens *)

Definition is_digit (c : byte) : bool := (48 <=? c) && (c <=? 57).
Definition is_hexdigit (c : byte) : bool :=
  is_digit c || ((65 <=? c) && (c <=? 70)) || ((97 <=? c) && (c <=? 102)).
Definition is_e (c : byte) : bool := (c =? 101) || (c =? 69).
Definition is_sign (c : byte) : bool := (c =? 43) || (c =? 45).

Fixpoint span (p : byte -> bool) (l : list byte) : list byte * list byte :=
  match l with
  | c :: r => if p c then let '(a, b) := span p r in (c :: a, b) else ([], l)
  | [] => ([], [])
  end.

(* tokenizer.hpp:372-398. Returns (consumed, rest); consumed = [] means len = 0 (no token).
   The two `--iter` steps are kept: a '.' without digits is given back, and an exponent mark
   without digits gives back ONE char, so "1e+" followed by a non-digit yields the token "1e". *)
Definition isnil {A} (l : list A) : bool := match l with [] => true | _ => false end.

Definition lex_num (l : list byte) : list byte * list byte :=
  let dot_first := match l with c :: _ => c =? 46 | [] => false end in
  let '(ip, r1) := if dot_first then ([], l) else span is_digit l in
  if negb dot_first && isnil ip then ([], l) else
  let '(fp, r2) :=
    match r1 with
    | c :: r => if c =? 46 then
                  let '(ds, r') := span is_digit r in
                  if isnil ds then ([], r1) else (46 :: ds, r')
                else ([], r1)
    | [] => ([], r1)
    end in
  let '(ep, r3) :=
    match r2 with
    | e :: r =>
        if is_e e then
          let '(sg, ra) := match r with
                           | s :: r'' => if is_sign s then ([s], r'') else ([], r)
                           | [] => ([], r)
                           end in
          let '(ds, rb) := span is_digit ra in
          if isnil ds then (if isnil sg then ([], r2) else ([e], r)) else (e :: sg ++ ds, rb)
        else ([], r2)
    | [] => ([], r2)
    end in
  (ip ++ fp ++ ep, r3).

(* tokenizer.hpp:346-371: "$" hexdigits+  or  "0x" hexdigits+ (lower-case x only) *)
Definition lex_hex (l : list byte) : list byte * list byte :=
  match l with
  | c0 :: r0 =>
      if c0 =? 36 then
        let '(ds, r') := span is_hexdigit r0 in
        if isnil ds then ([], l) else (c0 :: ds, r')
      else
        match r0 with
        | x :: r => if x =? 120 then
                      let '(ds, r') := span is_hexdigit r in
                      if isnil ds then ([], l) else (c0 :: x :: ds, r')
                    else ([], l)
        | [] => ([], l)
        end
  | [] => ([], l)
  end.

(* One switch per recorded defect (as_is = the code as it stands, what the correspondence runs against).
   d_stod_cast: a NUMBER token goes through std::stod and is then converted to float (sqf_parser.cpp:125):
     two roundings, and double-range ERANGE handling. Off: the token is converted once (strtof) and an infinite
     result takes the out-of-range path (proposed_fixes/C06-literal-strtof.diff).
   d_kw_prefix: len_ident_match (tokenizer.hpp:106-119) accepts a keyword PREFIX when the input ends inside the
     keyword and refuses only a following letter. Off: the whole keyword is required and any identifier character
     (letter, digit, underscore) after it refuses the match (the repair proposed for C01). *)
Record defects := { d_stod_cast : bool; d_kw_prefix : bool }.
Definition as_is : defects := {| d_stod_cast := true; d_kw_prefix := true |}.
Definition repaired : defects := {| d_stod_cast := false; d_kw_prefix := false |}.

(* ------------------------------------------------------------------ tokens of the value sublanguage *)

Inductive tok :=
  | TNum (t : list byte) | THex (t : list byte) | TStr (t : list byte)
  | TTrue | TFalse | TLBr | TRBr | TComma | TMinus | TPlus | TEof
  | TOther.     (* anything else: identifiers, operators, code, comments ... outside this model *)

Definition tolower (c : byte) : byte := if (65 <=? c) && (c <=? 90) then c + 32 else c.
Definition is_alpha (c : byte) : bool := let d := tolower c in (97 <=? d) && (d <=? 122).

Definition is_identch (c : byte) : bool := is_alpha c || is_digit c || (c =? 95).

(* tokenizer.hpp:106-119 len_ident_match: compares while BOTH the keyword and the input last (so an
   input that ends inside the keyword still matches), then refuses if a letter follows. Some rest =
   matched with length > 0. With d_kw_prefix off: whole keyword, no identifier character after it. *)
Fixpoint kw_match (df : defects) (kw l : list byte) : option (list byte) :=
  match kw, l with
  | k :: kw', c :: r => if tolower c =? k then kw_match df kw' r else None
  | _ :: _, [] => if d_kw_prefix df then Some [] else None
  | [], c :: _ => if (if d_kw_prefix df then is_alpha c else is_identch c) then None else Some l
  | [], [] => Some l
  end.
Definition kw_true : list byte := [116; 114; 117; 101].
Definition kw_false : list byte := [102; 97; 108; 115; 101].

Definition is_ws (c : byte) : bool := (c =? 32) || (c =? 10) || (c =? 13) || (c =? 9).
Fixpoint skip_ws (l : list byte) : list byte :=
  match l with c :: r => if is_ws c then skip_ws r else l | [] => [] end.

(* tokenizer::next (445-519) after yylex has dropped whitespace tokens (parser.y:336) *)
Definition next_tok (df : defects) (l0 : list byte) : tok * list byte :=
  let l := skip_ws l0 in
  match l with
  | [] => (TEof, [])
  | c :: r =>
      if c =? 91 then (TLBr, r) else
      if c =? 93 then (TRBr, r) else
      if c =? 44 then (TComma, r) else
      if c =? 45 then (TMinus, r) else      (* t_number cannot match at '+'/'-': no digit there (373-378) *)
      if c =? 43 then (TPlus, r) else
      if (c =? 34) || (c =? 39) then let '(a, b) := lex_str c r in (TStr (c :: a), b) else
      if (c =? 116) || (c =? 84) then
        match kw_match df kw_true l with Some r' => (TTrue, r') | None => (TOther, l) end else
      if (c =? 102) || (c =? 70) then
        match kw_match df kw_false l with Some r' => (TFalse, r') | None => (TOther, l) end else
      if c =? 36 then
        (let '(t, r') := lex_hex l in if isnil t then (TOther, l) else (THex t, r')) else
      if c =? 48 then
        (let '(t, r') := lex_hex l in
         if isnil t then (let '(t2, r2) := lex_num l in if isnil t2 then (TOther, l) else (TNum t2, r2))
         else (THex t, r')) else
      if is_digit c || (c =? 46) then
        (let '(t, r') := lex_num l in if isnil t then (TOther, l) else (TNum t, r'))
      else (TOther, l)
  end.

(* ------------------------------------------------------------------ decimal text -> rational *)

Definition dval (l : list byte) : Z := fold_left (fun a c => 10 * a + (c - 48)) l 0.

(* what strtod/strtof read from a number token: digits [. digits] [e [sign] digits]; the value is
   D * 10^X. An exponent mark without digits is not part of the number (token "1e" reads as 1). *)
Definition dec_of (t : list byte) : Z * Z :=
  let '(ip, r1) := span is_digit t in
  let '(fp, r2) := match r1 with c :: r => if c =? 46 then span is_digit r else ([], r1) | [] => ([], r1) end in
  let ex :=
    match r2 with
    | e :: r =>
        if is_e e then
          match r with
          | s :: r' => if s =? 45 then - dval (fst (span is_digit r'))
                       else if s =? 43 then dval (fst (span is_digit r'))
                       else dval (fst (span is_digit r))
          | [] => 0
          end
        else 0
    | [] => 0
    end in
  (dval (ip ++ fp), ex - len fp).

Definition ratio_of (D X : Z) : Z * Z := if 0 <=? X then (D * 10 ^ X, 1) else (D, 10 ^ (- X)).

(* correctly rounded (nearest, ties to even) conversion of the positive rational p/q to the binary
   format (prec, emax); overflow gives +infinity *)
Definition round_ratio (prec emax p q : Z) : spec_float :=
  let '(m, e, l) := Fdiv (SpecFloat.fexp prec emax) (Float radix2 p 0) (Float radix2 q 0) in
  binary_round_aux prec emax mode_NE false m e l.

(* strtof *)
Definition nearest32_dec (D X : Z) : spec_float :=
  if D <=? 0 then S754_zero false else let '(p, q) := ratio_of D X in round_ratio 24 128 p q.

(* std::stod = strtod + out_of_range on ERANGE. glibc sets ERANGE on overflow and when the result is
   tiny (below 2^-1022 after rounding to 53 bits with unbounded exponent) and inexact. None = throws. *)
Definition stod (D X : Z) : option spec_float :=
  if D <=? 0 then Some (S754_zero false) else
  let '(p, q) := ratio_of D X in
  match round_ratio 53 1024 p q with
  | S754_finite s m e =>
      let tiny := p * 2 ^ 1076 <? q * (2 ^ 54 - 1) in
      let exact := if 0 <=? e then Zpos m * 2 ^ e * q =? p else Zpos m * q =? p * 2 ^ (- e) in
      if tiny && negb exact then None else Some (S754_finite s m e)
  | _ => None
  end.

(* d_scalar(double) : m_value((float)value)  (d_scalar.h:44) *)
Definition cast32 (d : spec_float) : spec_float :=
  match d with S754_finite s m e => binary_round 24 128 mode_NE s m e | _ => d end.

(* value pushed for a NUMBER token and whether NumberOutOfRange (20022) is logged *)
Definition lit_of_dec (df : defects) (D X : Z) : spec_float * bool :=
  if d_stod_cast df then
    match stod D X with None => (S754_nan, true) | Some d => (cast32 d, false) end
  else
    match nearest32_dec D X with S754_infinity _ => (S754_nan, true) | r => (r, false) end.
Definition lit_num (df : defects) (t : list byte) : spec_float * bool :=
  let '(D, X) := dec_of t in lit_of_dec df D X.

(* HEXNUMBER (sqf_parser.cpp:98-120): "$.." becomes "0x..", std::stol base 16 (out_of_range above
   LONG_MAX = 2^63-1), then d_scalar(int64_t) = (float)value *)
Definition hexval (c : byte) : Z :=
  if is_digit c then c - 48 else if (97 <=? c) && (c <=? 102) then c - 87 else c - 55.
Definition lit_hex (t : list byte) : spec_float * bool :=
  let ds := match t with c0 :: r0 => if c0 =? 36 then r0 else tl r0 | [] => [] end in
  let h := fold_left (fun a c => 16 * a + hexval c) ds 0 in
  if 2 ^ 63 <=? h then (S754_nan, true) else
  match h with
  | Zpos p => (binary_round 24 128 mode_NE false p 0, false)
  | _ => (S754_zero false, false)
  end.

(* ------------------------------------------------------------------ printf("%g") of a binary32 *)

Definition radix10 : radix := Build_radix 10 (refl_equal _).

(* six significant decimal digits of m*2^e (m > 0), nearest, ties to even: (q, ex) with
   10^5 <= q < 10^6 and value ~ q * 10^ex *)
Definition dec6_of (m : positive) (e : Z) : Z * Z :=
  let '(n, d) := if 0 <=? e then (Zpos m * 2 ^ e, 1) else (Zpos m, 2 ^ (- e)) in
  let '(mq, eq, l) := Fdiv (FLX_exp 6) (Float radix10 n 0) (Float radix10 d 0) in
  let '(m', e', l') := truncate radix10 (FLX_exp 6) (mq, eq, l) in
  let q := cond_incr (round_N (negb (Z.even m')) l') m' in
  if q =? 1000000 then (100000, e' + 1) else (q, e').

Fixpoint digs (k : nat) (n : Z) : list Z :=
  match k with O => [] | S k' => (n / 10 ^ Z.of_nat k') mod 10 :: digs k' n end.
Fixpoint strip0 (l : list Z) : list Z :=
  match l with
  | [] => []
  | d :: t => match strip0 t with [] => if d =? 0 then [] else [d] | t' => d :: t' end
  end.
Definition dch (l : list Z) : list byte := map (fun d => 48 + d) l.
Definition frac (l : list Z) : list byte := match l with [] => [] | _ => 46 :: dch l end.

(* "%g", precision 6: exponent X = ex+5 of the rounded value; %e style when X < -4 or X >= 6, else %f
   style with 5-X decimals; trailing zeros and a bare point are removed; the exponent has at least
   two digits (binary32: |X| <= 45, always exactly two) *)
Definition print_g (q ex : Z) : list byte :=
  let X := ex + 5 in
  let ds := digs 6 q in
  if (X <? -4) || (6 <=? X) then
    dch (firstn 1 ds) ++ frac (strip0 (skipn 1 ds)) ++ [101] ++ [if X <? 0 then 45 else 43]
      ++ dch (digs 2 (Z.abs X))
  else if 0 <=? X then
    dch (firstn (Z.to_nat (X + 1)) ds) ++ frac (strip0 (skipn (Z.to_nat (X + 1)) ds))
  else
    [48] ++ frac (strip0 (repeat 0 (Z.to_nat (- X - 1)) ++ ds)).

Definition sgn (s : bool) : list byte := if s then [45] else [].
Definition fmt_g6 (x : spec_float) : list byte :=
  match x with
  | S754_zero s => sgn s ++ [48]
  | S754_infinity s => sgn s ++ [105; 110; 102]
  | S754_nan => [110; 97; 110]           (* glibc prints "-nan" for a set sign bit; spec_float has no NaN sign *)
  | S754_finite s m e => sgn s ++ (let '(q, ex) := dec6_of m e in print_g q ex)
  end.

(* round6 x as a decimal (q, ex), for finite non-zero x *)
Definition round6 (x : spec_float) : Z * Z :=
  match x with S754_finite _ m e => dec6_of m e | _ => (0, 0) end.

(* ------------------------------------------------------------------ values, str, reading back *)

Inductive value := VBool (b : bool) | VStr (s : list byte) | VNum (x : spec_float) | VArr (l : list value).

(* d_array::to_string_sqf (d_array.h:112-126): every element followed by ",", then the put position
   goes back one char and "]" overwrites the last "," *)
Definition arr_text (elems : list (list byte)) : list byte :=
  let body := 91 :: concat (map (fun t => t ++ [44]) elems) in
  match elems with
  | [] => body ++ [93]
  | _ => removelast body ++ [93]
  end.

Fixpoint str_value (v : value) : list byte :=
  match v with
  | VBool b => if b then kw_true else kw_false
  | VStr s => to_sqf s
  | VNum x => fmt_g6 x
  | VArr l => arr_text (map str_value l)
  end.

Inductive res (A : Type) := Ok (a : A) | Fail | OutOfFuel.
Arguments Ok {A} a. Arguments Fail {A}. Arguments OutOfFuel {A}.

(* The grammar of parser.y restricted to value literals: value: STRING | NUMBER | HEXNUMBER | "true" |
   "false" | array; array: "[" "]" | "[" exp_list "]"; expu: "-" expu with the folding of
   sqf_parser.cpp:71-79 (the minus in front of a NUMBER negates the pushed scalar; in front of a
   HEXNUMBER the unary operator `-` does the same at run time, ops_math.cpp:156-160).
   Evaluation (push, make_array) is folded in. Fail = not in this sublanguage or a parse error. *)
Fixpoint read_value (df : defects) (fuel : nat) (l : list byte) : res (value * list byte) :=
  match fuel with
  | O => OutOfFuel
  | S f =>
      match next_tok df l with
      | (TTrue, r) => Ok (VBool true, r)
      | (TFalse, r) => Ok (VBool false, r)
      | (TStr t, r) => match from_sqf t with Some s => Ok (VStr s, r) | None => Fail end
      | (TNum t, r) => Ok (VNum (fst (lit_num df t)), r)
      | (THex t, r) => Ok (VNum (fst (lit_hex t)), r)
      | (TMinus, r) =>
          match next_tok df r with
          | (TNum t, r') => Ok (VNum (SFopp (fst (lit_num df t))), r')
          | (THex t, r') => Ok (VNum (SFopp (fst (lit_hex t))), r')
          | _ => Fail
          end
      | (TLBr, r) =>
          match next_tok df r with
          | (TRBr, r') => Ok (VArr [], r')
          | _ => read_elems df f r []
          end
      | _ => Fail
      end
  end
with read_elems (df : defects) (fuel : nat) (l : list byte) (acc : list value) : res (value * list byte) :=
  match fuel with
  | O => OutOfFuel
  | S f =>
      match read_value df f l with
      | Ok (v, r) =>
          match next_tok df r with
          | (TComma, r') => read_elems df f r' (v :: acc)
          | (TRBr, r') => Ok (VArr (rev (v :: acc)), r')
          | _ => Fail
          end
      | Fail => Fail
      | OutOfFuel => OutOfFuel
      end
  end.

(* a whole text holding one value (what `call compile text` yields for such a text) *)
Definition read_all (df : defects) (l : list byte) : res value :=
  match read_value df (2 * length l + 2) l with
  | Ok (v, r) => match next_tok df r with (TEof, _) => Ok v | _ => Fail end
  | Fail => Fail
  | OutOfFuel => OutOfFuel
  end.

(* isEqualTo (ops_logic.cpp:93-100 -> data::equals): same type, then bool ==, exact string compare,
   float ==, arrays of equal size element by element *)
Definition feq (a b : spec_float) : bool := match SFcompare a b with Some Eq => true | _ => false end.
Fixpoint bytes_eqb (a b : list byte) : bool :=
  match a, b with
  | [], [] => true
  | x :: a', y :: b' => (x =? y) && bytes_eqb a' b'
  | _, _ => false
  end.
Fixpoint veq (a b : value) : bool :=
  match a, b with
  | VBool x, VBool y => Bool.eqb x y
  | VStr x, VStr y => bytes_eqb x y
  | VNum x, VNum y => feq x y
  | VArr x, VArr y =>
      (fix go (x y : list value) : bool :=
         match x, y with
         | [], [] => true
         | a' :: x', b' :: y' => veq a' b' && go x' y'
         | _, _ => false
         end) x y
  | _, _ => false
  end.

(* ------------------------------------------------------------------ binary32 bit patterns (for the drivers) *)

Definition decode32 (b : Z) : spec_float :=
  let s := Z.testbit b 31 in
  let ex := (b / 2 ^ 23) mod 256 in
  let fr := b mod 2 ^ 23 in
  if ex =? 255 then (if fr =? 0 then S754_infinity s else S754_nan)
  else if ex =? 0 then match fr with Zpos p => S754_finite s p (-149) | _ => S754_zero s end
  else match fr + 2 ^ 23 with Zpos p => S754_finite s p (ex - 150) | _ => S754_nan end.

(* inverse on canonical floats; NaN is printed as the pattern of nanf("") *)
Definition encode32 (x : spec_float) : Z :=
  let sb (s : bool) := if s then 2 ^ 31 else 0 in
  match x with
  | S754_zero s => sb s
  | S754_infinity s => sb s + 255 * 2 ^ 23
  | S754_nan => 2143289344
  | S754_finite s m e =>
      if Zpos m <? 2 ^ 23 then sb s + Zpos m else sb s + (e + 150) * 2 ^ 23 + (Zpos m - 2 ^ 23)
  end.
