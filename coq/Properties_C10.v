(* C10 - front ends are total.  Statements about the mechanism models of coq/Front (loop-level
   transition systems of the scanners, cursor = index, every read behind the end an explicit Bad
   outcome).  [repaired] / [rrepaired] is the code with /verif/proposed_fixes/C10-*.diff applied,
   [as_is] / [ras_is] the code at /repo HEAD 382ec7b; the _refuted theorems exhibit the witnesses
   that were replayed on the real code. *)
From Coq Require Import ZArith NArith List Bool Lia.
Import ListNotations.
From SqfVerif Require Import Front.Machine Front.Tok Front.TokProofs Front.Reader Front.ReaderProofs Front.Scan Front.ScanProofs Front.Refuted.
Local Open Scope N_scope.

(* reads_inside_buffer: a byte is only ever obtained from an index below the length *)
Theorem C10_reads_inside_buffer : forall get len, buf_ok get len ->
  (forall i b, get i = Some b -> i < len) /\ (forall p i, isat get p i = true -> i < len).
Proof. intros get len ok. split; [apply (get_inside get len ok)|apply (isat_inside get len ok)]. Qed.
Print Assumptions C10_reads_inside_buffer.

(* scan_total for the span loops (len_match, whitespace, digits, ...): at most (bytes left) + 1 steps *)
Theorem C10_span_total : forall get len, buf_ok get len -> forall p i,
  exists n r, (n <= N.to_nat (len - i) + 1)%nat /\ iter (span_step get p) n i = Fin r /\ span_post get len p i r.
Proof. intros get len ok p i. apply (span_total get len ok). Qed.
Print Assumptions C10_span_total.

Theorem C10_line_comment_total : forall get len, buf_ok get len -> forall i, i < len ->
  exists n r, (n <= N.to_nat (len - i) + 1)%nat /\ iter (lc_step repaired get len) n i = Fin r /\ i < r /\ r <= len.
Proof. intros get len ok. apply (lc_total get len). Qed.
Print Assumptions C10_line_comment_total.

Theorem C10_block_comment_total : forall get len, buf_ok get len -> forall i, i <= len ->
  exists n r, (n <= N.to_nat (len - i) + 1)%nat /\ iter (bc_step repaired get len) n i = Fin r /\ i <= r /\ r <= len.
Proof. intros get len ok. apply (bc_total get len). Qed.
Print Assumptions C10_block_comment_total.

Theorem C10_string_total : forall get len, buf_ok get len -> forall q i, i <= len ->
  exists n r, (n <= N.to_nat (len - i) + 1)%nat /\ iter (str_step get len q true) n i = Fin r /\ i <= r /\ r <= len.
Proof. intros get len ok. apply (str_total get len ok). Qed.
Print Assumptions C10_string_total.

(* every matcher of try_match, at every position inside the buffer: a length that stays inside *)
Theorem C10_matcher_total : forall get len fl, buf_ok get len -> (N.to_nat len + 2 <= fl)%nat -> forall l t i, i < len ->
  exists n, matcher repaired get len fl l t i = Done n /\ i + n <= len.
Proof. intros get len fl ok Hfl. apply (matcher_ok get len ok fl Hfl). Qed.
Print Assumptions C10_matcher_total.

Theorem C10_next_total : forall get len fl, buf_ok get len -> (N.to_nat len + 2 <= fl)%nat -> forall l i, i <= len ->
  exists t n, next repaired get len fl l i = Done (t, n) /\ i + n <= len /\ (n = 0 <-> final_tt t = true).
Proof. intros get len fl ok Hfl. apply (next_ok get len ok fl Hfl). Qed.
Print Assumptions C10_next_total.

(* lexer_total, for every byte string: the token loop of either tokenizer ends after at most |input| + 1
   tokens, which tile the input (each starts where the previous ended, has >= 1 byte unless it is the final
   eof / invalid token, ends inside the buffer) *)
Theorem C10_lexer_total : forall (inp:list byte) fl l, (length inp + 2 <= fl)%nat ->
  exists ts, lex repaired (lget inp) (llen inp) fl l = Done ts /\ tiles (llen inp) 0 ts /\ (length ts <= length inp + 1)%nat.
Proof.
  intros inp fl l Hfl.
  destruct (lexer_total (lget inp) (llen inp) (list_buf_ok inp) fl) with (l := l) as (ts & E & T & L).
  - unfold llen. lia.
  - exists ts. split; [exact E|]. split; [exact T|]. unfold llen in L. lia.
Qed.
Print Assumptions C10_lexer_total.

(* the preprocessor reader: next() from any state inside the content ends within 2 * (bytes left) + 2 steps,
   stays inside the content and consumes at least one byte unless none is left *)
Theorem C10_reader_next_total : forall budget get len, buf_ok get len -> forall st, r_off st <= len ->
  exists n r, (n <= 2 * N.to_nat (len - r_off st) + 2)%nat /\
              iter (next_step rrepaired budget get) n (mkn P0 st 0 0) = Fin r /\ next_post get len (r_off st) r.
Proof. intros budget get len ok. apply (next_total budget get len ok). Qed.
Print Assumptions C10_reader_next_total.

Theorem C10_reader_stream_total : forall budget (inp:list byte) fl, (2 * length inp + 4 <= fl)%nat ->
  exists l e, stream rrepaired budget (lget inp) fl fl (mkr 0 false false) = Done (l, e) /\ (length l <= length inp)%nat /\ r_off e <= llen inp.
Proof.
  intros budget inp fl Hfl.
  destruct (stream_total budget (lget inp) (llen inp) (list_buf_ok inp) fl) with (n := fl) (st := mkr 0 false false) as (l & e & E & L & B).
  - unfold llen. lia.
  - cbn. lia.
  - cbn. unfold llen. lia.
  - exists l, e. split; [exact E|]. split; [|exact B]. cbn in L. unfold llen in L. lia.
Qed.
Print Assumptions C10_reader_stream_total.

Theorem C10_get_word_total : forall budget get len fl, buf_ok get len -> (2 * N.to_nat len + 4 <= fl)%nat -> forall st, r_off st <= len ->
  exists w st', get_word rrepaired budget get len fl st = Done (w, st') /\ r_off st' <= len.
Proof. intros budget get len fl ok Hfl. apply (get_word_total budget get len ok fl Hfl). Qed.
Print Assumptions C10_get_word_total.

Theorem C10_get_line_total : forall budget get len fl, buf_ok get len -> (2 * N.to_nat len + 4 <= fl)%nat -> forall st, r_off st <= len ->
  exists l st', get_line rrepaired budget get fl st = Done (l, st') /\ r_off st' <= len.
Proof. intros budget get len fl ok Hfl. apply (get_line_total budget get len ok fl Hfl). Qed.
Print Assumptions C10_get_line_total.

(* ---- the index-walking loops of default.cpp and create_code_segment ---- *)

(* the parameter list of a #define line: at most (bytes left) + 1 rounds, the cursor stays inside the line;
   [be] is what line.find(')') returned *)
Theorem C10_define_args_total : forall (line:list byte) be start, llen line < W64 -> (be = NPOS \/ be < LL line) -> start <= LL line ->
  exists n r, (n <= N.to_nat (LL line - start) + 1)%nat /\ iter (args_step rrepaired line be) n (start, []) = Fin r /\ fst r <= LL line.
Proof. intros line be start H. apply (define_args_total line H). Qed.
Print Assumptions C10_define_args_total.

(* #define F(a,,b) x : the loop of the code as it stood never ends *)
Theorem C10_define_args_refuted : forall n r,
  iter (args_step ras_is define_witness (find_c define_witness 41%Z 0)) n (wadd (find_c define_witness 40%Z 0) 1, []) <> Fin r.
Proof. exact define_args_refuted. Qed.
Print Assumptions C10_define_args_refuted.

(* replace_skip on a macro body (a text without carriage returns, as get_line delivers it) *)
Theorem C10_replace_skip_total : forall budget get len fl, buf_ok get len -> (forall i, get i <> Some CR) -> (2 * N.to_nat len + 4 <= fl)%nat ->
  forall n st ins out, r_off st <= len -> (N.to_nat (len - r_off st) + 2 <= n)%nat ->
  exists st' out', skip_loop rrepaired budget get fl n st ins out = Done (st', out') /\ r_off st <= r_off st' /\ r_off st' <= len.
Proof. intros budget get len fl ok nocr Hfl. apply (skip_total budget get len ok nocr fl Hfl). Qed.
Print Assumptions C10_replace_skip_total.

(* a body that ends inside a string literal: the code as it stood appends NUL for ever, whatever the fuel *)
Theorem C10_replace_skip_refuted : forall budget n out,
  skip_loop ras_is budget (lget skip_witness) 20 n (mkr 4 true false) true out = OutOfFuel.
Proof. exact skip_refuted. Qed.
Print Assumptions C10_replace_skip_refuted.

Theorem C10_find_wordend_total : forall budget get len fl, buf_ok get len -> (2 * N.to_nat len + 4 <= fl)%nat ->
  forall n st start, r_off st <= len -> (N.to_nat (len - r_off st) + 1 <= n)%nat ->
  exists r, wordend_loop rrepaired budget get fl n st start = Done r.
Proof. intros budget get len fl ok Hfl. apply (wordend_total budget get len ok fl Hfl). Qed.
Print Assumptions C10_find_wordend_total.

(* the argument splitter of handle_macro ('NAME(' has been read): it ends within (bytes left) + 1 rounds, also
   on a call that is still open when the input ends, whatever the brackets and quotes in it *)
Theorem C10_macro_args_total : forall budget get len fl, buf_ok get len -> (2 * N.to_nat len + 4 <= fl)%nat ->
  forall n st s, r_off st <= len -> (N.to_nat (len - r_off st) + 1 <= n)%nat ->
  exists st' args, split_loop rrepaired budget get fl n st s = Done (st', args) /\ r_off st' <= len.
Proof. intros budget get len fl ok Hfl. apply (split_total budget get len ok fl Hfl). Qed.
Print Assumptions C10_macro_args_total.

(* handle_arg on one argument: its loop ends within 2 * (bytes left) + 2 rounds for every macro table, provided the
   nested handle_macro returns and only moves the reader forward (the un-read character is read again exactly once) *)
Theorem C10_handle_arg_total : forall budget get len fl, buf_ok get len -> (2 * N.to_nat len + 4 <= fl)%nat ->
  forall (lookup:list byte -> option bool) (hm:rst -> res (rst * bool)),
  (forall st, r_off st <= len -> exists st' e, hm st = Done (st', e) /\ r_off st <= r_off st' /\ r_off st' <= len) ->
  forall n endindex s, r_off (a_st s) <= len -> (amu len s + 1 <= n)%nat ->
  exists st', arg_loop rrepaired budget get fl lookup hm n endindex s = Done st' /\ r_off st' <= len.
Proof. intros budget get len fl ok Hfl lookup hm Hhm. apply (arg_total budget get len ok fl Hfl lookup hm Hhm). Qed.
Print Assumptions C10_handle_arg_total.

(* create_code_segment for a token offset inside the text: no exception (substr, the blank prefix), the
   window starts at or before the token *)
Theorem C10_code_segment_total : forall get len fl off length, buf_ok get len -> off <= len -> (N.to_nat len + 2 <= fl)%nat ->
  exists i ln sp, code_segment get len fl off length = Done (i, ln, sp) /\ i <= off /\ sp = off - i.
Proof. intros get len fl off length ok. apply (code_segment_total get len ok). Qed.
Print Assumptions C10_code_segment_total.

(* ---- the code as it stood: witnesses ---- *)
Theorem C10_line_comment_refuted : lex_as_is LSqf w_line_comment = Failed BUb /\ lex_as_is LCfg w_line_comment = Failed BUb.
Proof. exact line_comment_refuted. Qed.
Print Assumptions C10_line_comment_refuted.
Theorem C10_block_comment_refuted : lex_as_is LSqf w_block_comment = Failed BUb /\ lex_as_is LCfg w_block_comment = Failed BUb.
Proof. exact block_comment_refuted. Qed.
Print Assumptions C10_block_comment_refuted.
Theorem C10_line_directive_refuted :
  lex_as_is LSqf w_line_short = Failed BUb /\ lex_as_is LSqf w_line_text = Failed BThrow /\ lex_as_is LSqf w_line_huge = Failed BThrow /\
  lex_as_is LCfg w_line_short = Failed BUb /\ lex_as_is LCfg w_line_text = Failed BThrow.
Proof. exact line_directive_refuted. Qed.
Print Assumptions C10_line_directive_refuted.
Theorem C10_cfg_single_quote_refuted : lex_as_is LCfg w_cfg_squote = Failed BUb.
Proof. exact cfg_single_quote_refuted. Qed.
Print Assumptions C10_cfg_single_quote_refuted.
Theorem C10_cfg_keyword_prefix_refuted : lex_as_is LCfg w_cfg_line_prefix = Failed BUb.
Proof. exact cfg_keyword_prefix_refuted. Qed.
Print Assumptions C10_cfg_keyword_prefix_refuted.
Theorem C10_cfg_sign_dot_refuted :
  lex_as_is LCfg w_cfg_sign_dot = Done [(Num, 0, 1); (Any, 1, 1); (Eof, 2, 0)] /\ stod_finds_number [43%Z] = false /\
  lex_repaired LCfg w_cfg_sign_dot = Done [(Any, 0, 1); (Any, 1, 1); (Eof, 2, 0)].
Proof. exact cfg_sign_dot_refuted. Qed.
Print Assumptions C10_cfg_sign_dot_refuted.

(* recursion of the reader as it stood is unbounded: for every stack budget an input one byte longer exhausts it;
   the repaired reader never reports BStack (C10_reader_next_total holds for every budget) *)
Theorem C10_reader_recursion_unbounded : forall budget, exists get len, buf_ok get len /\ len = budget + 1 /\
  forall fl, (N.to_nat budget + 1 <= fl)%nat -> next_char ras_is budget get fl (mkr 0 false false) = Failed BStack.
Proof. exact reader_recursion_unbounded. Qed.
Print Assumptions C10_reader_recursion_unbounded.

(* ---- recursion guards: pp_expansion_terminates / include_cycle_reported.
   [names] are the defined macros (the files that exist), [uses] names what an expansion (a file) mentions -
   an arbitrary function of the stack and the name, all that is known is that it stays inside [names]. *)
Theorem C10_pp_expansion_terminates : forall (name:Type) (name_eqb:name -> name -> bool),
  (forall a b, name_eqb a b = true <-> a = b) ->
  forall (uses:list name -> name -> list name) (names:list name), (forall st x y, In y (uses st x) -> In y names) ->
  forall n stack x, NoDup stack -> incl stack names -> In x names -> (length names - length stack <= n)%nat ->
  (exists d, visit name name_eqb uses n stack x = GOk name d /\ (d <= length names)%nat) \/
  (exists y, visit name name_eqb uses n stack x = GRecursive name y).
Proof. intros name name_eqb He uses names Hu. apply (guard_terminates name name_eqb He uses names Hu). Qed.
Print Assumptions C10_pp_expansion_terminates.

Theorem C10_include_cycle_reported : forall (name:Type) (name_eqb:name -> name -> bool),
  (forall a b, name_eqb a b = true <-> a = b) ->
  forall (uses:list name -> name -> list name) n stack x, In x stack -> visit name name_eqb uses n stack x = GRecursive name x.
Proof. intros name name_eqb He uses. apply (guard_reports_cycle name name_eqb He uses). Qed.
Print Assumptions C10_include_cycle_reported.

(* determinism: every model is a Gallina function of the buffer, the position and the defect setting -
   the same input has one outcome (stated for the token loop and the reader stream) *)
Theorem C10_determinism : forall d rd budget get len fl l st r1 r2 s1 s2,
  lex d get len fl l = r1 -> lex d get len fl l = r2 -> stream rd budget get fl fl st = s1 -> stream rd budget get fl fl st = s2 ->
  r1 = r2 /\ s1 = s2.
Proof. intros; subst; split; reflexivity. Qed.
Print Assumptions C10_determinism.

(* ---- non-vacuity ---- *)
Example ex_tokens_sqf : lex_repaired LSqf [120;32;61;32;49;59]%Z = Done [(Ident, 0, 1); (Ws, 1, 1); (Equal, 2, 1); (Ws, 3, 1); (Num, 4, 1); (Semi, 5, 1); (Eof, 6, 0)].
Proof. vm_compute. reflexivity. Qed.
Example ex_reader : stream rrepaired 0 (lget [97;47;42;120;42;47;98;13;10]%Z) 30 30 (mkr 0 false false) = Done ([97;98;10]%Z, mkr 9 false false).
Proof. vm_compute. reflexivity. Qed.
Example ex_define : parse_define rrepaired [70;40;97;44;44;98;41;32;120]%Z 20 = Done ([70]%Z, Some [[97]%Z; [98]%Z], [120]%Z).
Proof. vm_compute. reflexivity. Qed.
(* the guard on a table of three macros A -> B -> C -> A and on a chain *)
Example ex_guard_cycle : visit nat Nat.eqb (fun _ x => [((x + 1) mod 3)%nat]) 10 [] 0%nat = GRecursive nat 0%nat.
Proof. vm_compute. reflexivity. Qed.
Example ex_guard_chain : visit nat Nat.eqb (fun _ x => if Nat.ltb x 3 then [S x] else []) 10 [] 0%nat = GOk nat 4.
Proof. vm_compute. reflexivity. Qed.
