(* C16 - virtual file system. Theorems only; proofs live in VFS/VfsProofs.v.
   The model (VFS/VfsDefs.v) mirrors sqf::fileio::impl_default and the operators that go
   through it; [repaired] is the code with proposed_fixes/C16-*.diff and C17-*.diff applied,
   [as_is] the code as found. The model is tied to the C++ by the correspondence run of
   checks/C16.py (both settings of the switches are executed on every case).

   fsk : path -> {absent, file, directory} is the operating system; it is universally
   quantified in every theorem. Symlinks and case-insensitive file systems are outside. *)
From Coq Require Import ZArith List Bool String Ascii.
Import ListNotations.
From SqfVerif Require Import VFS.VfsDefs VFS.VfsProofs.
Local Open Scope Z_scope.

(* ---- containment: every mapping tree (not only reachable ones), every request, every current
   file, every setting of the defect switches: a resolved path is a mapped physical root followed
   by segments none of which is ".." or contains a separator, and the file exists. *)
Theorem C16_containment : forall d fsk t req curp curv p v,
  get_info d fsk t req curp curv = Ok (Some (p, v)) ->
  (exists root rem, In root (vroots t) /\ p = root ++ vfull_of rem /\
                    Forall (fun s => s <> dotdot /\ ~ In SL s) rem) /\
  file_exists d fsk p = true.
Proof. exact get_info_inside. Qed.
Print Assumptions C16_containment.

(* ---- the repaired resolution never runs into undefined behaviour or an exception, whatever the
   tree and the inputs (the model's UB outcomes: end-iterator dereference, back() of an empty
   vector, out_of_range) *)
Theorem C16_no_ub : forall fsk t req curp curv, exists r, get_info repaired fsk t req curp curv = Ok r.
Proof.
  intros fsk t req curp curv.
  pose proof (get_info_ok repaired fsk eq_refl eq_refl t req curp curv) as H.
  destruct (get_info repaired fsk t req curp curv) as [r|l|l]; [exists r; reflexivity|contradiction|contradiction].
Qed.
Print Assumptions C16_no_ub.

(* ---- the virtual route equals its specification, for ALL lists of mappings, trees on disk and
   request strings (absolute, or relative with no current virtual directory):
   normalise (separators, blanks, ".." against the segment before it); a path that still starts
   with ".." leaves the virtual root: not found; otherwise the deepest prefix that has a root
   decides and its roots are tried in mapping order. *)
Theorem C16_resolve_spec : forall fsk ms req curv,
  trim (cleanse req) <> [] ->
  (has_root (trim (cleanse req)) = true \/ curv = []) ->
  giv repaired fsk (build repaired ms) req curv =
  Ok (match spec_virtual repaired fsk ms (ddnorm (segs_of (trim (cleanse req)))) with
      | Some p => Some (p, trim (cleanse req))
      | None => None
      end).
Proof. exact giv_spec. Qed.
Print Assumptions C16_resolve_spec.

(* ---- deepest prefix wins: the resolved path is root ++ rest where the normalised request is
   P ++ rest, root is mapped onto exactly P, and no longer prefix of the request has any root *)
Theorem C16_deepest_prefix_wins : forall fsk ms req curv p v,
  trim (cleanse req) <> [] -> (has_root (trim (cleanse req)) = true \/ curv = []) ->
  giv repaired fsk (build repaired ms) req curv = Ok (Some (p, v)) ->
  exists P rest root,
    ddnorm (segs_of (trim (cleanse req))) = P ++ rest /\
    In root (roots_at repaired ms P) /\ p = root ++ vfull_of rest /\
    (forall P' x, rest = P' ++ x -> P' <> [] -> roots_at repaired ms (P ++ P') = []) /\
    Forall (fun s => s <> dotdot) (P ++ rest).
Proof.
  intros fsk ms req curv p v H1 H2 H.
  destruct (resolve_sound fsk ms req curv p v H1 H2 H) as (_ & P & rest & r1 & root & r2 & E & Er & Hp & _ & _ & Hd & Hn).
  exists P, rest, root. repeat split; auto. rewrite Er. apply in_or_app. right. left. reflexivity.
Qed.
Print Assumptions C16_deepest_prefix_wins.

(* ---- first root wins: among the roots of that prefix, in mapping order, every root before the
   one chosen does not contain the file; the one chosen does *)
Theorem C16_first_root_wins : forall fsk ms req curv p v,
  trim (cleanse req) <> [] -> (has_root (trim (cleanse req)) = true \/ curv = []) ->
  giv repaired fsk (build repaired ms) req curv = Ok (Some (p, v)) ->
  exists P rest r1 root r2,
    ddnorm (segs_of (trim (cleanse req))) = P ++ rest /\
    roots_at repaired ms P = r1 ++ root :: r2 /\ p = root ++ vfull_of rest /\
    file_exists repaired fsk p = true /\
    Forall (fun r' => file_exists repaired fsk (r' ++ vfull_of rest) = false) r1.
Proof.
  intros fsk ms req curv p v H1 H2 H.
  destruct (resolve_sound fsk ms req curv p v H1 H2 H) as (_ & P & rest & r1 & root & r2 & E & Er & Hp & He & Hf & _ & _).
  exists P, rest, r1, root, r2. repeat split; auto.
Qed.
Print Assumptions C16_first_root_wins.

(* ---- and conversely the file is found whenever the property says so *)
Theorem C16_resolves_when_present : forall fsk ms req curv P rest r1 root r2,
  trim (cleanse req) <> [] -> (has_root (trim (cleanse req)) = true \/ curv = []) ->
  ddnorm (segs_of (trim (cleanse req))) = P ++ rest ->
  starts_dd (P ++ rest) = false ->
  roots_at repaired ms P = r1 ++ root :: r2 ->
  (forall P' x, rest = P' ++ x -> P' <> [] -> roots_at repaired ms (P ++ P') = []) ->
  file_exists repaired fsk (root ++ vfull_of rest) = true ->
  Forall (fun r' => file_exists repaired fsk (r' ++ vfull_of rest) = false) r1 ->
  giv repaired fsk (build repaired ms) req curv = Ok (Some (root ++ vfull_of rest, trim (cleanse req))).
Proof. exact resolve_complete. Qed.
Print Assumptions C16_resolves_when_present.

(* ---- relative to the current file: a request made from a file without virtual path
   (rel_first), or one whose current virtual path is no virtual directory (giv = not found), is
   read as the physical path gip_target = normal (directory of the current file / request);
   when every mapped root it lies under turns it into the same virtual path tv0, the request
   resolves exactly as the absolute virtual request tv0 does. Any tree. *)
Theorem C16_relative_to_current : forall fsk t req curp curv tv0 x,
  (rel_first repaired req curp curv = true \/ giv repaired fsk t req curv = Ok None) ->
  Forall (fun c => forall rc, prefix_test repaired (pcomps (snd c)) (pcomps (gip_target repaired fsk req curp)) = PMatch rc ->
                   lexnorm (fst c ++ SL :: fold_left pjoin rc []) = tv0) (cands t) ->
  Exists (fun c => exists rc, prefix_test repaired (pcomps (snd c)) (pcomps (gip_target repaired fsk req curp)) = PMatch rc) (cands t) ->
  giv repaired fsk t (cleanse tv0) curv = Ok (Some x) ->
  get_info repaired fsk t req curp curv = Ok (Some x).
Proof. exact relative_to_current. Qed.
Print Assumptions C16_relative_to_current.

(* ---- the same for the tree of ANY list of mappings, hypotheses on the list: q ranges over virtual
   prefixes, r over the roots mapped onto q (vf_of q = "/" for the root prefix, "/a/b" otherwise) *)
Theorem C16_relative_to_current_mappings : forall fsk ms req curp curv tv0 x,
  (rel_first repaired req curp curv = true \/ giv repaired fsk (build repaired ms) req curv = Ok None) ->
  (forall q r rc, In r (roots_at repaired ms q) ->
     prefix_test repaired (pcomps r) (pcomps (gip_target repaired fsk req curp)) = PMatch rc ->
     lexnorm (vf_of q ++ SL :: fold_left pjoin rc []) = tv0) ->
  (exists q r rc, In r (roots_at repaired ms q) /\
     prefix_test repaired (pcomps r) (pcomps (gip_target repaired fsk req curp)) = PMatch rc) ->
  giv repaired fsk (build repaired ms) (cleanse tv0) curv = Ok (Some x) ->
  get_info repaired fsk (build repaired ms) req curp curv = Ok (Some x).
Proof. exact relative_to_current_ms. Qed.
Print Assumptions C16_relative_to_current_mappings.

(* ---- traversal, virtual side: a request that, after normalisation, still starts with ".."
   (it climbs above the virtual root) is not found. Any tree. *)
Theorem C16_traversal_not_found_virtual : forall fsk t req curv,
  (has_root (trim (cleanse req)) = true \/ curv = []) ->
  starts_dd (ddnorm (segs_of (trim (cleanse req)))) = true ->
  giv repaired fsk t req curv = Ok None.
Proof. exact climb_not_found. Qed.
Print Assumptions C16_traversal_not_found_virtual.

(* ---- traversal, physical side: a request that names nothing virtually and whose lexically
   normal physical reading lies under none of the mapped roots is not found. Any tree.
   (Together with C16_containment: nothing outside the mapped directories is ever yielded.) *)
Theorem C16_traversal_not_found_physical : forall fsk t req curp curv,
  giv repaired fsk t req curv = Ok None ->
  Forall (fun c => prefix_test repaired (pcomps (snd c)) (pcomps (gip_target repaired fsk req curp)) = PNo) (cands t) ->
  get_info repaired fsk t req curp curv = Ok None.
Proof. exact outside_not_found. Qed.
Print Assumptions C16_traversal_not_found_physical.

(* ---- the operation acts on the file resolved: reading it cannot fail, it is never a directory,
   and (no archive mounted under that name) it is the regular file at exactly that path *)
Theorem C16_read_after_resolve : forall fsk t req curp curv p v,
  get_info repaired fsk t req curp curv = Ok (Some (p, v)) ->
  exists r, read_file repaired fsk t p v = Ok r /\ r <> RdDirThrow /\
            (pbo_find (lexnorm p) (v_pbos t) = None -> r = RdDisk p).
Proof. exact read_after_resolve. Qed.
Print Assumptions C16_read_after_resolve.

(* ---- execVM runs the (preprocessed) code of the file its argument resolves to *)
Theorem C16_execvm_runs_file : forall fsk cont fuel t req p v,
  get_info repaired fsk t req [] [] = Ok (Some (p, v)) ->
  op_execvm repaired fsk cont fuel t req = ORun (pre_file repaired fsk cont fuel t p v).
Proof. exact execvm_runs_file. Qed.
Print Assumptions C16_execvm_runs_file.

(* ---- the PBO route (what C17 needs of the VFS): after mounting an archive (prefix + entry names)
   on an empty VFS, every entry whose virtual path prefix/name is a plain path L (segments not empty,
   not "..", written without blanks at the ends) resolves, under "/" ++ that path, to the archive, and
   read_file selects entry j - the first entry with this virtual path; PboDefs.read_entry (C17) then
   yields its bytes unchanged. Any list of names, any prefix. *)
Theorem C17_vfs_entry_readable : forall pbop fsk prefix names t nm L,
  add_pbo repaired vfs_empty {| pbo_path := pbop; pbo_prefix := Some prefix; pbo_names := names |} = Ok t ->
  fsk pbop = KFile -> eqs (extension pbop) pbo_ext = true ->
  In nm names ->
  pcomps (entry_path repaired prefix nm) = L -> L <> [] -> Forall pseg L ->
  pbo_wanted (vfull_of L) = entry_path repaired prefix nm ->
  trim (cleanse (vfull_of L)) = vfull_of L ->
  get_info repaired fsk t (vfull_of L) [] [] = Ok (Some (pbop, vfull_of L)) /\
  exists j nm', read_file repaired fsk t pbop (vfull_of L) = Ok (RdPbo (lexnorm pbop) j) /\
                nth_error names j = Some nm' /\
                entry_path repaired prefix nm' = entry_path repaired prefix nm.
Proof. exact pbo_entry_readable. Qed.
Print Assumptions C17_vfs_entry_readable.

(* ================================================================ witnesses *)
Definition zs (s : string) : list Z := map (fun a => Z.of_N (N_of_ascii a)) (list_ascii_of_string s).
Definition pth (s : string) : list (list Z) := filter nonempty (split_on SL (zs s)).
Definition ex_tree : tree :=
  [ (pth "/tmp", true); (pth "/tmp/@@", true);
    (pth "/tmp/@@/r0", true); (pth "/tmp/@@/r0/a.sqf", false); (pth "/tmp/@@/r0/b", true); (pth "/tmp/@@/r0/b/x.sqf", false);
    (pth "/tmp/@@/r1", true); (pth "/tmp/@@/r1/a.sqf", false); (pth "/tmp/@@/r1/m.sqf", false); (pth "/tmp/@@/r1/arch.pbo", false);
    (pth "/tmp/@@/r1/sub", true); (pth "/tmp/@@/r1/sub/a.sqf", false); (pth "/tmp/@@/r1/sub/m.sqf", false);
    (pth "/tmp/@@/r2", true); (pth "/tmp/@@/r2/a.sqf", false); (pth "/tmp/@@/r2/c.sqf", false);
    (pth "/tmp/@@/out", true); (pth "/tmp/@@/out/secret.sqf", false); (pth "/tmp/@@/a.pbo", false) ]%string.
Definition ex_fsk : list Z -> kind := os_kind ex_tree (pth "/tmp/@@").
Definition ex_maps : list (list Z * list Z) :=
  [ (zs "/tmp/@@/r1", zs "/x"); (zs "/tmp/@@/r2", zs "\x"); (zs "/tmp/@@/r1/sub", zs "/x/y") ]%string.

(* non-vacuity of the hypotheses of the positive theorems, on the repaired model *)
Example ex_first_root : giv repaired ex_fsk (build repaired ex_maps) (zs "\x\/a.sqf") [] =
  Ok (Some (zs "/tmp/@@/r1/a.sqf", zs "/x//a.sqf")).
Proof. vm_compute. reflexivity. Qed.
Example ex_second_root : giv repaired ex_fsk (build repaired ex_maps) (zs "/x/zz/../c.sqf") [] =
  Ok (Some (zs "/tmp/@@/r2/c.sqf", zs "/x/zz/../c.sqf")).
Proof. vm_compute. reflexivity. Qed.
Example ex_deepest : giv repaired ex_fsk (build repaired ex_maps) (zs "/x/y/a.sqf") [] =
  Ok (Some (zs "/tmp/@@/r1/sub/a.sqf", zs "/x/y/a.sqf")).
Proof. vm_compute. reflexivity. Qed.
Example ex_escape : get_info repaired ex_fsk (build repaired ex_maps) (zs "/x/../../tmp/@@/out/secret.sqf") [] [] = Ok None
  /\ get_info repaired ex_fsk (build repaired ex_maps) (zs "/tmp/@@/r1/../out/secret.sqf") [] [] = Ok None
  /\ get_info repaired ex_fsk (build repaired ex_maps) (zs "/tmp/@@/out/secret.sqf") [] [] = Ok None
  /\ get_info repaired ex_fsk (build repaired ex_maps) (zs "/tmp/@@") [] [] = Ok None
  /\ starts_dd (ddnorm (segs_of (trim (cleanse (zs "/x/../../tmp/@@/out/secret.sqf"))))) = true.
Proof. vm_compute. repeat split; reflexivity. Qed.
Example ex_relative : get_info repaired ex_fsk (build repaired ex_maps) (zs "..\a.sqf") (zs "/tmp/@@/r1/sub/m.sqf") [] =
  Ok (Some (zs "/tmp/@@/r1/a.sqf", zs "/x/a.sqf"))
  /\ rel_first repaired (zs "..\a.sqf") (zs "/tmp/@@/r1/sub/m.sqf") [] = true
  /\ gip_target repaired ex_fsk (zs "..\a.sqf") (zs "/tmp/@@/r1/sub/m.sqf") = zs "/tmp/@@/r1/a.sqf".
Proof. vm_compute. repeat split; reflexivity. Qed.

(* the hypotheses of C17_vfs_entry_readable hold for an ordinary archive entry *)
Example ex_pbo_hyps :
  let prefix := zs "x\y" in let nm := zs "fn\b.sqf" in let L := [zs "x"; zs "y"; zs "fn"; zs "b.sqf"] in
  pcomps (entry_path repaired prefix nm) = L /\
  pbo_wanted (vfull_of L) = entry_path repaired prefix nm /\
  trim (cleanse (vfull_of L)) = vfull_of L /\ ex_fsk (zs "/tmp/@@/a.pbo") = KFile /\
  eqs (extension (zs "/tmp/@@/a.pbo")) pbo_ext = true.
Proof. vm_compute. repeat split; reflexivity. Qed.

(* ================================================================ the code as found (as_is) *)

(* an absolute path that is a proper prefix of a mapped root: std::mismatch walks off the end *)
Theorem C16_traversal_not_found_refuted_as_is : exists fsk ms req,
  get_info as_is fsk (build as_is ms) req [] [] = UB 183.
Proof. exists ex_fsk, ex_maps, (zs "/tmp/@@"). vm_compute. reflexivity. Qed.
Print Assumptions C16_traversal_not_found_refuted_as_is.

(* a node that exists only for the sake of a deeper mapping hides the shallower mapped prefix *)
Theorem C16_deepest_prefix_wins_refuted_as_is : exists fsk ms req,
  giv as_is fsk (build as_is ms) req [] = Ok None /\
  spec_virtual as_is fsk ms (ddnorm (segs_of (trim (cleanse req)))) <> None.
Proof.
  exists ex_fsk, [ (zs "/tmp/@@/r0", zs "/a"); (zs "/tmp/@@/r1", zs "/a/b/c") ]%string, (zs "/a/b/x.sqf").
  vm_compute. split; [reflexivity|discriminate].
Qed.
Print Assumptions C16_deepest_prefix_wins_refuted_as_is.

(* ".." after a segment below the mapped nodes is dropped: /x/sub/../a.sqf names /x/sub/a.sqf *)
Theorem C16_dotdot_resolved_refuted_as_is : exists fsk ms req p v,
  giv as_is fsk (build as_is ms) req [] = Ok (Some (p, v)) /\
  spec_virtual as_is fsk ms (ddnorm (segs_of (trim (cleanse req)))) <> Some p.
Proof.
  exists ex_fsk, [ (zs "/tmp/@@/r1", zs "/x") ]%string, (zs "/x/sub/../a.sqf"), (zs "/tmp/@@/r1/sub/a.sqf"), (zs "/x/sub/../a.sqf").
  vm_compute. split; [reflexivity|discriminate].
Qed.
Print Assumptions C16_dotdot_resolved_refuted_as_is.

(* a mapped directory resolves as if it were a file; reading it throws *)
Theorem C16_read_after_resolve_refuted_as_is : exists fsk ms req p v,
  get_info as_is fsk (build as_is ms) req [] [] = Ok (Some (p, v)) /\
  read_file as_is fsk (build as_is ms) p v = Ok RdDirThrow.
Proof.
  exists ex_fsk, [ (zs "/tmp/@@/r1", zs "/x") ]%string, (zs "/x/sub"), (zs "/tmp/@@/r1/sub"), (zs "/x/sub").
  vm_compute. split; reflexivity.
Qed.
Print Assumptions C16_read_after_resolve_refuted_as_is.

(* relative requests: a backslash is no separator in the physical route; a root written with a
   trailing separator is never recognised; the virtual root is preferred to the current file *)
Theorem C16_relative_to_current_refuted_as_is : exists fsk,
  get_info as_is fsk (build as_is [ (zs "/tmp/@@/r1", zs "/x") ]%string) (zs "..\a.sqf") (zs "/tmp/@@/r1/sub/m.sqf") (zs "/x/sub/m.sqf")
    = Ok (Some (zs "/tmp/@@/r1/sub/a.sqf", zs "/x/sub/../a.sqf")) /\
  get_info repaired fsk (build repaired [ (zs "/tmp/@@/r1", zs "/x") ]%string) (zs "..\a.sqf") (zs "/tmp/@@/r1/sub/m.sqf") (zs "/x/sub/m.sqf")
    = Ok (Some (zs "/tmp/@@/r1/a.sqf", zs "/x/a.sqf")) /\
  get_info as_is fsk (build as_is [ (zs "/tmp/@@/r1/", zs "/x") ]%string) (zs "a.sqf") (zs "/tmp/@@/r1/sub/m.sqf") (zs "/x/sub/m.sqf") = Ok None /\
  get_info repaired fsk (build repaired [ (zs "/tmp/@@/r1/", zs "/x") ]%string) (zs "a.sqf") (zs "/tmp/@@/r1/sub/m.sqf") (zs "/x/sub/m.sqf")
    = Ok (Some (zs "/tmp/@@/r1/sub/a.sqf", zs "/x/sub/a.sqf")) /\
  get_info as_is fsk (build as_is [ (zs "/tmp/@@/r0", zs "/"); (zs "/tmp/@@/r1", zs "/x") ]%string) (zs "a.sqf") (zs "/tmp/@@/r1/m.sqf") []
    = Ok (Some (zs "/tmp/@@/r0/a.sqf", zs "a.sqf")) /\
  get_info repaired fsk (build repaired [ (zs "/tmp/@@/r0", zs "/"); (zs "/tmp/@@/r1", zs "/x") ]%string) (zs "a.sqf") (zs "/tmp/@@/r1/m.sqf") []
    = Ok (Some (zs "/tmp/@@/r1/a.sqf", zs "/x/a.sqf")).
Proof. exists ex_fsk. vm_compute. repeat split; reflexivity. Qed.
Print Assumptions C16_relative_to_current_refuted_as_is.

(* execVM compiles its own argument *)
Theorem C16_execvm_runs_file_refuted_as_is : exists fsk cont fuel ms req,
  op_execvm as_is fsk cont fuel (build as_is ms) req = ORunArg req /\
  exists p v, get_info as_is fsk (build as_is ms) req [] [] = Ok (Some (p, v)).
Proof.
  exists ex_fsk, (fun _ => zs "RES = 1;"), 5%nat, ex_maps, (zs "/x/a.sqf"). split.
  - vm_compute. reflexivity.
  - eexists. eexists. vm_compute. reflexivity.
Qed.
Print Assumptions C16_execvm_runs_file_refuted_as_is.

(* a plain file whose name ends in .pbo is taken for a mounted archive: nothing is read;
   a root "//" makes substr throw *)
Theorem C16_read_file_refuted_as_is : exists fsk,
  read_file as_is fsk (build as_is ex_maps) (zs "/tmp/@@/r1/arch.pbo") (zs "/x/arch.pbo") = Ok RdEmpty /\
  read_file repaired fsk (build repaired ex_maps) (zs "/tmp/@@/r1/arch.pbo") (zs "/x/arch.pbo") = Ok (RdDisk (zs "/tmp/@@/r1/arch.pbo")) /\
  get_info as_is fsk (build as_is [ (zs "//", zs "/x") ]%string) (zs "/a") [] [] = Throw 189.
Proof. exists ex_fsk. vm_compute. repeat split; reflexivity. Qed.
Print Assumptions C16_read_file_refuted_as_is.

(* ---- the PBO route (needed by C17): with prefix x\y the entries are unreachable as found, an
   entry listed twice runs into the end iterator, and cli.cpp hands an empty config text on *)
Definition ex_pbo : pbo := {| pbo_path := zs "/tmp/@@/a.pbo"; pbo_prefix := Some (zs "x\y");
                              pbo_names := [ zs "a.sqf"; zs "fn\b.sqf" ] |}%string.
Theorem C17_vfs_read_refuted_as_is : exists fsk,
  (exists t, add_pbo as_is vfs_empty ex_pbo = Ok t /\ get_info as_is fsk t (zs "\x\y\fn\b.sqf") [] [] = Ok None) /\
  (exists t, add_pbo repaired vfs_empty ex_pbo = Ok t /\
             get_info repaired fsk t (zs "\x\y\fn\b.sqf") [] [] = Ok (Some (zs "/tmp/@@/a.pbo", zs "/x/y/fn/b.sqf")) /\
             read_file repaired fsk t (zs "/tmp/@@/a.pbo") (zs "/x/y/fn/b.sqf") = Ok (RdPbo (zs "/tmp/@@/a.pbo") 1)) /\
  add_pbo as_is vfs_empty {| pbo_path := zs "/tmp/@@/a.pbo"; pbo_prefix := Some (zs "x/y"); pbo_names := [ zs "a.sqf"; zs "a.sqf" ] |} = UB 250 /\
  cli_pbo_config as_is (zs "class A {};") = [] /\ cli_pbo_config repaired (zs "class A {};") = zs "class A {};".
Proof.
  exists ex_fsk. split; [|split; [|split; [|split]]].
  - eexists. split; vm_compute; reflexivity.
  - eexists. split; [vm_compute; reflexivity|]. split; vm_compute; reflexivity.
  - vm_compute. reflexivity.
  - reflexivity.
  - reflexivity.
Qed.
Print Assumptions C17_vfs_read_refuted_as_is.
