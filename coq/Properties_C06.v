(* C06 - str / literals round-trip, VALUE HALF (booleans, strings, numbers, nested arrays).
   Theorems only; proofs live in Num/NumProofs.v, Num/NumFloat.v, Num/NumDig.v. The model (Num/NumDefs.v) is
   tied to d_string.h, d_scalar.cpp, d_array.h, d_boolean.h, tokenizer.hpp and sqf_parser.cpp by the
   correspondence run of checks/C06_values.py. The code half is in coq/Properties_C06_code.v.
   Real-number statements use Flocq's `round` (generic rounding of a real to a format); the assumption
   listings under them name what Coq's classical real numbers rest on. *)
From Coq Require Import ZArith List Reals SpecFloat.
From Flocq Require Import Core BinarySingleNaN.
Import ListNotations.
From SqfVerif Require Import Num.NumDefs Num.NumFloat Num.NumProofs Num.NumDig.
Local Open Scope Z_scope.

(* --- strings: every byte string (quotes, newlines, any byte) --- *)
Theorem C06_string_roundtrip : forall s, from_sqf (to_sqf s) = Some s.
Proof. exact string_roundtrip. Qed.
Print Assumptions C06_string_roundtrip.

(* ... and the tokenizer reads the printed text as exactly one string token, unless another quote follows *)
Theorem C06_string_one_token : forall df s rest, not_quote_next rest ->
  next_tok df (to_sqf s ++ rest) = (TStr (to_sqf s), rest).
Proof. exact lex_to_sqf. Qed.
Print Assumptions C06_string_one_token.

(* --- arrays: the seekp(-1) trick of d_array::to_string_sqf prints the comma separated list in brackets --- *)
Theorem C06_array_text : forall l, arr_text l = 91 :: join l ++ [93].
Proof. exact arr_text_join. Qed.
Print Assumptions C06_array_text.

(* --- values of any size and nesting depth: compiling and evaluating `str v` gives v again, and isEqualTo
       holds. printable: numbers satisfy nearest32 (round6 x) = x (DESIGN Appendix B), no inf/NaN.
       Stated for the setting `repaired` (both defect switches off: strtof literal rule, whole-keyword match);
       the keyword switch is irrelevant here (C06_string_one_token, C06_g6_relex hold for every setting). --- *)
Theorem C06_value_roundtrip : forall v, printable v ->
  exists v', read_all repaired (str_value v) = Ok v' /\ veq v' v = true /\ v' = v.
Proof. exact value_roundtrip. Qed.
Print Assumptions C06_value_roundtrip.

(* the same inside any context that continues with a separator, for every sufficient fuel: the fuel of read_all
   (twice the text length) is never exhausted *)
Theorem C06_value_roundtrip_in_context : forall v, printable v -> forall fuel rest,
  (vfuel v <= fuel)%nat -> vstop rest -> read_value repaired fuel (str_value v ++ rest) = Ok (v, rest).
Proof. exact read_str_value. Qed.
Print Assumptions C06_value_roundtrip_in_context.

Theorem C06_bool_roundtrip : forall b, read_all repaired (str_value (VBool b)) = Ok (VBool b).
Proof. exact bool_roundtrip. Qed.
Print Assumptions C06_bool_roundtrip.

Theorem C06_array_roundtrip : forall l, Forall printable l -> read_all repaired (str_value (VArr l)) = Ok (VArr l).
Proof. exact array_roundtrip. Qed.
Print Assumptions C06_array_roundtrip.

Theorem C06_veq_refl : forall v, printable v -> veq v v = true.
Proof. exact veq_refl. Qed.
Print Assumptions C06_veq_refl.

(* --- numbers: what %g prints is one number token, and it spells round6 x, the nearest six-digit decimal --- *)
Theorem C06_g6_relex : forall df s m e rest,
  valid_binary 24 128 (S754_finite s m e) = true -> vstop rest ->
  let q := fst (round6 (S754_finite s m e)) in let ex := snd (round6 (S754_finite s m e)) in
  fmt_g6 (S754_finite s m e) = sgn s ++ print_g q ex /\
  next_tok df (print_g q ex ++ rest) = (TNum (print_g q ex), rest) /\
  dec_R (fst (dec_of (print_g q ex))) (snd (dec_of (print_g q ex))) = dec_R q ex /\
  dec_R q ex = round radix10 (FLX_exp 6) ZnearestE (F2R (Float radix2 (Zpos m) e)).
Proof. exact g6_relex. Qed.
Print Assumptions C06_g6_relex.

(* --- literals: with the repaired rule a NUMBER token is the binary32 nearest to the decimal it spells --- *)
Theorem C06_literal_value : forall t D X, dec_of t = (D, X) ->
  (D <= 0 -> lit_num repaired t = (S754_zero false, false)) /\
  (0 < D ->
     if Rlt_bool (Rabs (round radix2 (SpecFloat.fexp 24 128) ZnearestE (dec_R D X))) (bpow radix2 128) then
       exists z, lit_num repaired t = (z, false) /\ valid_binary 24 128 z = true /\
                 SF2R radix2 z = round radix2 (SpecFloat.fexp 24 128) ZnearestE (dec_R D X) /\
                 is_finite_SF z = true /\ sign_SF z = false
     else lit_num repaired t = (S754_nan, true)).
Proof. exact literal_value_repaired. Qed.
Print Assumptions C06_literal_value.

(* ... the rule of the unchanged code (std::stod, then conversion to float) does not: double rounding, and
   NaN for decimals below the smallest normal double *)
Theorem C06_literal_value_refuted :
  exists t D X, fst (next_tok as_is t) = TNum t /\ dec_of t = (D, X) /\ 0 < D /\
                fst (lit_num as_is t) <> nearest32_dec D X.
Proof. exact literal_value_refuted_ex. Qed.
Print Assumptions C06_literal_value_refuted.

Theorem C06_literal_value_refuted_witnesses :
  (fst (next_tok as_is witness_double_rounding) = TNum witness_double_rounding /\
   lit_num as_is witness_double_rounding = (S754_finite false 8388608 (-23), false) /\
   lit_num repaired witness_double_rounding = (S754_finite false 8388609 (-23), false)) /\
  (fst (next_tok as_is witness_tiny) = TNum witness_tiny /\
   lit_num as_is witness_tiny = (S754_nan, true) /\
   lit_num repaired witness_tiny = (S754_zero false, false)).
Proof. exact literal_value_refuted. Qed.
Print Assumptions C06_literal_value_refuted_witnesses.

(* what the unchanged rule computes when stod does not throw: the decimal rounded to binary64, rounded again to binary32 *)
Theorem C06_literal_value_as_is : forall t D X dbl, dec_of t = (D, X) -> 0 < D ->
  stod D X = Some dbl ->
  lit_num as_is t = (cast32 dbl, false) /\
  SF2R radix2 dbl = round radix2 (SpecFloat.fexp 53 1024) ZnearestE (dec_R D X) /\
  (Rabs (round radix2 (SpecFloat.fexp 24 128) ZnearestE (round radix2 (SpecFloat.fexp 53 1024) ZnearestE (dec_R D X))) < bpow radix2 128 ->
   SF2R radix2 (cast32 dbl) =
   round radix2 (SpecFloat.fexp 24 128) ZnearestE (round radix2 (SpecFloat.fexp 53 1024) ZnearestE (dec_R D X)))%R.
Proof. exact literal_value_as_is_two_roundings. Qed.
Print Assumptions C06_literal_value_as_is.

(* hexadecimal literals: nearest binary32 of the integer; from 2^63 on the out-of-range path *)
Theorem C06_literal_hex_value : forall t,
  let h := hex_int t in
  (2 ^ 63 <= h -> lit_hex t = (S754_nan, true)) /\
  (h <= 0 -> lit_hex t = (S754_zero false, false)) /\
  (0 < h < 2 ^ 63 -> exists z, lit_hex t = (z, false) /\ valid_binary 24 128 z = true /\
                               SF2R radix2 z = round radix2 (SpecFloat.fexp 24 128) ZnearestE (IZR h) /\
                               is_finite_SF z = true).
Proof. exact literal_hex_value. Qed.
Print Assumptions C06_literal_hex_value.

(* --- FLT_DIG: every decimal of at most six significant digits whose nearest binary32 is a normal number is
       printed back as that decimal, hence compiles back to the same binary32 (printable) --- *)
Theorem C06_dec6_survives : forall n k m e,
  0 < n < 1000000 -> (bpow radix2 (-126) <= dec_R n k)%R ->
  nearest32_dec n k = S754_finite false m e ->
  dec_R (fst (dec6_of m e)) (snd (dec6_of m e)) = dec_R n k /\
  nearest32_dec (fst (dec6_of m e)) (snd (dec6_of m e)) = S754_finite false m e.
Proof. exact dec6_survives. Qed.
Print Assumptions C06_dec6_survives.

(* --- non-vacuity --- *)
Example C06_printable_example :
  printable (VArr [VNum (decode32 0x3f800000); VNum (decode32 0xc2f6e979); VStr [97; 34; 10]; VArr []; VBool true;
                   VArr [VNum (decode32 0x80000000); VNum (decode32 0x49742400)]]).
Proof. vm_compute. repeat split. Qed.
Example C06_dec6_survives_example :
  nearest32_dec 123456 (-3) = S754_finite false 16181625 (-17) /\ fmt_g6 (S754_finite false 16181625 (-17)) = [49;50;51;46;52;53;54].
Proof. vm_compute. split; reflexivity. Qed.
