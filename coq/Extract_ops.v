From Coq Require Import ZArith List String ExtrOcamlBasic.
From SqfVerif Require Import Ops.OpsBase Ops.Guards Ops.Guards2 Ops.Dispatch.
Extraction Language OCaml.
Extraction "../ocaml/gen/ops_model.ml"
  Z.add Z.mul Z.opp Z.ltb Z.div Z.modulo
  dg_code select_scalar select_bool select_range select_string resize_model delete_range delete_at set_model
  push_back push_back_unique append_model sort_model sort_cmp swo_check param_model params_model format_model
  to_array to_string split_string select_minmax select_random to_fixed_unary to_fixed_binary cfg_iterate
  asm_split from_sqf asm_make_array asm_call_binary from_assembly check_typeN check_type1 bom_model
  is_matrix matrix_transpose matrix_multiply transpose_body multiply_body vec3_unary vec3_binary then_if_array
  private_array ns_getvar ns_setvar set_marker_pos set_marker_size create_marker cfg_select callext_args
  d_nular d_unary d_binary.
